/-
C10 — validator-set snapshots and the validator set sent to a remote chain.
Model: `Model/Valset.lean`. Histories are arbitrary lists of `Op` (staking changes, account
registrations, chain support / activation / removal, snapshot builds with an arbitrary relayer
oracle, on-chain activations, just-in-time updates) from the empty state.
Named assumptions (inputs of the model, see their docstrings): `StakingWF` (SDK staking: distinct
validator ids, bonded ⇒ tokens > 0), `RegsEvmTyped` (registered accounts are EVM-typed; only for
the any-account reading of "restricted to validators with an account there").
Clauses refuted as worded: "two thirds of 2^32" (`sent_two_thirds_violated`), "an account there"
with one notion of account for snapshot and valset (`sent_restricted_any_account_violated`).
-/
import PalomaModel.Model.Valset

namespace Paloma.Valset
open List

/-! ## helper lemmas -/
section Lemmas

/-! ### arithmetic of powers -/

theorem power_pos_total {a total : Nat} (h : 0 < total) : power a total = a * 2 ^ 32 / total := by
  unfold power maxPower
  rw [if_pos h]

theorem power_zero_total (a : Nat) : power a 0 = 0 := by
  unfold power
  rw [if_neg (Nat.lt_irrefl 0)]

/-- two-sided characterisation of the floor: `p·T ≤ a·2^32 < (p+1)·T` -/
theorem power_floor_spec {a total : Nat} (h : 0 < total) :
    power a total * total ≤ a * 2 ^ 32 ∧ a * 2 ^ 32 < (power a total + 1) * total := by
  rw [power_pos_total h]
  refine ⟨Nat.div_mul_le_self _ _, ?_⟩
  have h1 := Nat.div_add_mod (a * 2 ^ 32) total
  have h2 := Nat.mod_lt (a * 2 ^ 32) h
  rw [Nat.add_mul, Nat.one_mul, Nat.mul_comm (a * 2 ^ 32 / total) total]
  omega

theorem power_add_le (a b total : Nat) : power a total + power b total ≤ power (a + b) total := by
  rcases Nat.eq_zero_or_pos total with h | h
  · subst h; simp [power_zero_total]
  · rw [power_pos_total h, power_pos_total h, power_pos_total h,
      Nat.le_div_iff_mul_le h, Nat.add_mul, Nat.add_mul a b]
    exact Nat.add_le_add (Nat.div_mul_le_self _ _) (Nat.div_mul_le_self _ _)

/-- `Σ ⌊aᵢ·2^32/T⌋ ≤ ⌊(Σ aᵢ)·2^32/T⌋` -/
theorem sum_power_le (l : List Nat) (total : Nat) :
    (l.map (fun a => power a total)).sum ≤ power l.sum total := by
  induction l with
  | nil => simp
  | cons a as ih =>
    simp only [List.map_cons, List.sum_cons]
    exact Nat.le_trans (Nat.add_le_add_left ih _) (power_add_le a as.sum total)

theorem power_le_max (a total : Nat) (h : a ≤ total) : power a total ≤ maxPower := by
  rcases Nat.eq_zero_or_pos total with h0 | h0
  · subst h0; rw [power_zero_total]; exact Nat.zero_le _
  · rw [power_pos_total h0]
    exact Nat.div_le_of_le_mul (by unfold maxPower; exact Nat.mul_le_mul_right _ h)

theorem power_mono (a b total : Nat) (h : a ≤ b) : power a total ≤ power b total := by
  rcases Nat.eq_zero_or_pos total with h0 | h0
  · subst h0; simp [power_zero_total]
  · rw [power_pos_total h0, power_pos_total h0]
    exact Nat.div_le_div_right (Nat.mul_le_mul_right _ h)

/-! ### the descending sort -/

theorem mem_insDesc {x y : Val} {l : List Val} : y ∈ insDesc x l ↔ y = x ∨ y ∈ l := by
  induction l with
  | nil => simp [insDesc]
  | cons z zs ih =>
    simp only [insDesc]
    split
    · simp only [List.mem_cons, ih]
      constructor
      · rintro (h | h | h) <;> simp [h]
      · rintro (h | h | h) <;> simp [h]
    · simp [List.mem_cons]

theorem insDesc_perm (x : Val) (l : List Val) : (insDesc x l).Perm (x :: l) := by
  induction l with
  | nil => simp [insDesc]
  | cons z zs ih =>
    simp only [insDesc]
    split
    · exact (List.Perm.cons z ih).trans (List.Perm.swap x z zs)
    · exact List.Perm.refl _

theorem foldl_insDesc_perm (l acc : List Val) :
    (l.foldl (fun acc x => insDesc x acc) acc).Perm (l ++ acc) := by
  induction l generalizing acc with
  | nil => simp
  | cons x xs ih =>
    simp only [List.foldl_cons, List.cons_append]
    exact (ih (insDesc x acc)).trans
      (((insDesc_perm x acc).append_left xs).trans List.perm_middle)

theorem sortDesc_perm (l : List Val) : (sortDesc l).Perm l := by
  have := foldl_insDesc_perm l []
  simpa [sortDesc] using this

theorem mem_sortDesc {v : Val} {l : List Val} : v ∈ sortDesc l ↔ v ∈ l :=
  (sortDesc_perm l).mem_iff

theorem sumShares_sortDesc (l : List Val) : sumShares (sortDesc l) = sumShares l := by
  unfold sumShares
  exact ((sortDesc_perm l).map _).sum_nat

/-- shares are non-increasing along the list -/
def Desc (l : List Val) : Prop := l.Pairwise (fun a b => a.share ≥ b.share)

theorem insDesc_desc (x : Val) (l : List Val) (h : Desc l) : Desc (insDesc x l) := by
  induction l with
  | nil => simp [insDesc, Desc]
  | cons z zs ih =>
    simp only [insDesc]
    have hz := List.pairwise_cons.mp h
    split
    · rename_i hgt
      refine List.pairwise_cons.mpr ⟨?_, ih hz.2⟩
      intro y hy
      rcases mem_insDesc.mp hy with rfl | hy
      · omega
      · exact hz.1 y hy
    · rename_i hle
      refine List.pairwise_cons.mpr ⟨?_, h⟩
      intro y hy
      rcases List.mem_cons.mp hy with rfl | hy
      · omega
      · have := hz.1 y hy
        omega

theorem foldl_insDesc_desc (l acc : List Val) (h : Desc acc) :
    Desc (l.foldl (fun acc x => insDesc x acc) acc) := by
  induction l generalizing acc with
  | nil => simpa using h
  | cons x xs ih => exact ih _ (insDesc_desc x acc h)

theorem sortDesc_desc (l : List Val) : Desc (sortDesc l) :=
  foldl_insDesc_desc l [] (by simp [Desc])

/-! ### the valset of one chain -/

theorem chosen_length_le (c : Nat) (v : Val) : (chosen c v).length ≤ 1 := by
  unfold chosen
  simp only [List.length_take]
  omega

theorem mem_chosen {c : Nat} {v : Val} {a : Acct} :
    a ∈ chosen c v ↔ (matching c v).head? = some a := by
  unfold chosen
  cases matching c v with
  | nil => simp
  | cons x xs => simp [eq_comm]

theorem mem_matching {c : Nat} {v : Val} {a : Acct} :
    a ∈ matching c v ↔ a ∈ v.accts ∧ isEvm a.ctype = true ∧ a.chain = c := by
  unfold matching
  simp [List.mem_filter]

theorem mem_membersOf {c total : Nat} {v : Val} {m : Nat × Nat} :
    m ∈ membersOf c total v ↔
      ∃ a, (matching c v).head? = some a ∧ m = (a.addr, power v.share total) := by
  unfold membersOf
  simp only [List.mem_map, mem_chosen]
  constructor
  · rintro ⟨a, ha, rfl⟩; exact ⟨a, ha, rfl⟩
  · rintro ⟨a, ha, rfl⟩; exact ⟨a, ha, rfl⟩

theorem head_matching {c : Nat} {v : Val} {a : Acct} (h : (matching c v).head? = some a) :
    a ∈ v.accts ∧ isEvm a.ctype = true ∧ a.chain = c :=
  mem_matching.mp (List.mem_of_head? h)

theorem transform_members_perm (snap : Snapshot) (c : Nat) :
    (transform snap c).members.Perm (snap.vals.flatMap (membersOf c (sumShares snap.vals))) := by
  unfold transform
  simp only [sumShares_sortDesc]
  exact (sortDesc_perm snap.vals).flatMap_right _

/-- the valset depends on the snapshot's id and validators only (not on `chains`, `total`, time) -/
theorem transform_congr (a b : Snapshot) (c : Nat) (hid : b.id = a.id) (hv : b.vals = a.vals) :
    transform b c = transform a c := by
  unfold transform
  rw [hid, hv]

theorem sum_map_snd_membersOf (c total : Nat) (v : Val) :
    ((membersOf c total v).map (·.2)).sum = (chosen c v).length * power v.share total := by
  unfold membersOf
  generalize chosen c v = l
  induction l with
  | nil => simp
  | cons a as ih =>
    simp only [List.map_cons, List.sum_cons, List.length_cons, Nat.succ_mul] at ih ⊢
    omega

theorem sum_flatMap_members (c total : Nat) (l : List Val) :
    ((l.flatMap (membersOf c total)).map (·.2)).sum =
      (l.map (fun v => (chosen c v).length * power v.share total)).sum := by
  induction l with
  | nil => simp
  | cons v vs ih =>
    simp only [List.flatMap_cons, List.map_append, List.sum_append, List.map_cons, List.sum_cons, ih,
      sum_map_snd_membersOf]

theorem powerSum_transform (snap : Snapshot) (c : Nat) :
    powerSum (transform snap c) =
      (snap.vals.map (fun v => (chosen c v).length * power v.share (sumShares snap.vals))).sum := by
  unfold powerSum
  rw [((transform_members_perm snap c).map _).sum_nat]
  exact sum_flatMap_members _ _ _

theorem enough_ge {v : Valset} (h : enough v = true) : thresholdForConsensus ≤ powerSum v := by
  unfold enough at h
  have := Nat.mod_le (powerSum v) (2 ^ 64)
  have h' : thresholdForConsensus ≤ powerSum v % 2 ^ 64 := by simpa using h
  omega

/-! ### snapshots -/

theorem eligible_iff (s : St) (sv : SVal) :
    eligible s sv = true ↔
      sv.status = .bonded ∧ sv.jailed = false ∧
        ∀ c ∈ activeChains s, ∃ a ∈ acctsOf s sv.id, a.chain = c := by
  unfold eligible supportsAll
  simp only [Bool.and_eq_true, beq_iff_eq, Bool.not_eq_true', List.all_eq_true, List.any_eq_true]
  constructor
  · rintro ⟨⟨h1, h2⟩, h3⟩
    exact ⟨h1, h2, fun c hc => by obtain ⟨a, ha, he⟩ := h3 c hc; exact ⟨a, ha, he⟩⟩
  · rintro ⟨h1, h2, h3⟩
    exact ⟨⟨h1, h2⟩, fun c hc => by obtain ⟨a, ha, he⟩ := h3 c hc; exact ⟨a, ha, he⟩⟩

theorem mem_activeChains (s : St) (c : Nat) :
    c ∈ activeChains s ↔ ∃ ci ∈ s.chains, ci.active = true ∧ ci.ref = c := by
  unfold activeChains
  simp only [List.mem_map, List.mem_filter]
  constructor
  · rintro ⟨ci, ⟨h1, h2⟩, rfl⟩; exact ⟨ci, h1, h2, rfl⟩
  · rintro ⟨ci, h1, h2, rfl⟩; exact ⟨ci, ⟨h1, h2⟩, rfl⟩

/-- a stored snapshot `b` is `a` with possibly more chains appended -/
def Extends (a b : Snapshot) : Prop :=
  b.id = a.id ∧ b.vals = a.vals ∧ b.total = a.total ∧ b.createdAt = a.createdAt ∧ a.chains <+: b.chains

theorem Extends.refl (a : Snapshot) : Extends a a := ⟨rfl, rfl, rfl, rfl, List.prefix_refl _⟩

theorem Extends.trans {a b c : Snapshot} (h1 : Extends a b) (h2 : Extends b c) : Extends a c :=
  ⟨h2.1.trans h1.1, h2.2.1.trans h1.2.1, h2.2.2.1.trans h1.2.2.1, h2.2.2.2.1.trans h1.2.2.2.1,
    h1.2.2.2.2.trans h2.2.2.2.2⟩

/-- the store `l'` extends the store `l`: same positions, each record extended, maybe new ones -/
def SnapsExtend (l l' : List Snapshot) : Prop :=
  l.length ≤ l'.length ∧ ∀ i (h : i < l.length) (h' : i < l'.length), Extends l[i] l'[i]

theorem SnapsExtend.refl (l : List Snapshot) : SnapsExtend l l :=
  ⟨Nat.le_refl _, fun _ _ _ => Extends.refl _⟩

theorem SnapsExtend.trans {a b c : List Snapshot} (h1 : SnapsExtend a b) (h2 : SnapsExtend b c) :
    SnapsExtend a c :=
  ⟨Nat.le_trans h1.1 h2.1, fun i h h' =>
    (h1.2 i h (Nat.lt_of_lt_of_le h h1.1)).trans (h2.2 i (Nat.lt_of_lt_of_le h h1.1) h')⟩

theorem snapsExtend_append (l : List Snapshot) (x : Snapshot) : SnapsExtend l (l ++ [x]) := by
  refine ⟨by simp, fun i h h' => ?_⟩
  rw [List.getElem_append_left h]
  exact Extends.refl _

theorem snapsExtend_onChain (l : List Snapshot) (id c : Nat) :
    SnapsExtend l (l.map (fun sn => if sn.id == id then { sn with chains := sn.chains ++ [c] } else sn)) := by
  refine ⟨by simp, fun i h h' => ?_⟩
  rw [List.getElem_map]
  split
  · exact ⟨rfl, rfl, rfl, rfl, List.prefix_append _ _⟩
  · exact Extends.refl _

/-! ### publishing only touches the queue and the ghost log -/

theorem current_mem {s : St} {c : Snapshot} (h : current s = some c) : c ∈ s.snaps :=
  List.mem_of_find?_eq_some h

/-- what a sent message must satisfy with respect to the snapshot store -/
def SentOk (snaps : List Snapshot) (p : Nat × Valset) : Prop :=
  thresholdForConsensus ≤ powerSum p.2 ∧ ∃ sn ∈ snaps, p.2 = transform sn p.1

/-- `p = (chain, valset)` is what the state `s` sends NOW: the valset of the CURRENT snapshot of `s`
for that chain, it passes the quorum test and the chain is a supported, active chain -/
def SentNow (s : St) (p : Nat × Valset) : Prop :=
  ∃ cur, current s = some cur ∧ p.2 = transform cur p.1 ∧ enough p.2 = true ∧
    ∃ ci ∈ s.chains, ci.ref = p.1 ∧ ci.active = true

theorem SentNow.sentOk {s : St} {p : Nat × Valset} (h : SentNow s p) : SentOk s.snaps p := by
  obtain ⟨cur, hc, he, hq, _⟩ := h
  exact ⟨enough_ge hq, cur, current_mem hc, he⟩

/-- `s` differs from `s0` in queue and log only; the log grew by messages that `s0` sends now and
that are still pending in the queue of `s` -/
structure Good (s0 s : St) : Prop where
  snaps : s.snaps = s0.snaps
  lastId : s.lastId = s0.lastId
  chains : s.chains = s0.chains
  staking : s.staking = s0.staking
  accts : s.accts = s0.accts
  sentOk : ∀ p ∈ s.sent, SentOk s0.snaps p
  queueSub : ∀ p ∈ s.queue, p ∈ s.sent
  news : ∃ news, s.sent = s0.sent ++ news ∧ ∀ p ∈ news, SentNow s0 p ∧ p ∈ s.queue

theorem Good.current {s0 s : St} (h : Good s0 s) : current s = current s0 := by
  unfold Paloma.Valset.current findSnapshot
  rw [h.snaps, h.lastId]

theorem Good.sentNow {s0 s : St} (h : Good s0 s) {p : Nat × Valset} (hp : SentNow s0 p) : SentNow s p := by
  obtain ⟨cur, hc, he, hq, ci, hci, hr, ha⟩ := hp
  exact ⟨cur, by rw [h.current]; exact hc, he, hq, ci, by rw [h.chains]; exact hci, hr, ha⟩

theorem send_good {s0 s : St} (c : Nat) (v : Valset) (h : Good s0 s) (hv : SentNow s0 (c, v)) :
    Good s0 (send s c v) := by
  unfold send
  split
  · exact h
  · rename_i hany
    obtain ⟨news, hn, hnews⟩ := h.news
    refine ⟨h.snaps, h.lastId, h.chains, h.staking, h.accts, ?_, ?_, ?_⟩
    · intro p hp
      rcases List.mem_append.mp hp with hp | hp
      · exact h.sentOk p hp
      · have : p = (c, v) := by simpa using hp
        subst this; exact hv.sentOk
    · intro p hp
      rcases List.mem_append.mp hp with hp | hp
      · exact List.mem_append_left _ (h.queueSub p (List.mem_filter.mp hp).1)
      · exact List.mem_append_right _ hp
    · refine ⟨news ++ [(c, v)], by simp only [hn, List.append_assoc], ?_⟩
      intro p hp
      rcases List.mem_append.mp hp with hp | hp
      · obtain ⟨hsn, hq⟩ := hnews p hp
        refine ⟨hsn, List.mem_append_left _ (List.mem_filter.mpr ⟨hq, ?_⟩)⟩
        -- an earlier message of this round for the same chain would carry the same valset id
        -- and the new message would have been dropped
        obtain ⟨cur, hc, he, _⟩ := hsn
        obtain ⟨cur', hc', he', _⟩ := hv
        have hcc : cur' = cur := Option.some.inj (hc'.symm.trans hc)
        simp only [bne_iff_ne, ne_eq]
        intro hpc
        apply hany
        refine List.any_eq_true.mpr ⟨p, hq, ?_⟩
        have e1 : p.2.id = cur.id := by rw [he]; rfl
        have e2 : v.id = cur.id := by
          have : v = transform cur' c := he'
          rw [this, hcc]; rfl
        simp [hpc, e1, e2]
      · have : p = (c, v) := by simpa using hp
        subst this; exact ⟨hv, List.mem_append_right _ (by simp)⟩

theorem publishValset_good {s0 s : St} (ci : ChainInfo) (v : Valset) (pick : Bool) (h : Good s0 s)
    {snap : Snapshot} (hc : current s0 = some snap) (hv : v = transform snap ci.ref)
    (hci : ci ∈ s0.chains) : Good s0 (publishValset s ci v pick) := by
  unfold publishValset
  split
  · exact h
  · rename_i hact
    split
    · exact h
    · rename_i he
      split
      · exact h
      · exact send_good _ _ h ⟨snap, hc, hv, by simpa using he, ci, hci, rfl, by simpa using hact⟩

theorem publishOne_good {s0 s : St} (snap : Snapshot) (now : Nat) (picks : List Nat) (ci : ChainInfo)
    (h : Good s0 s) (hs : current s0 = some snap) (hci : ci ∈ s0.chains) :
    Good s0 (publishOne snap now picks s ci) := by
  unfold publishOne
  split
  · exact h
  · exact publishValset_good _ _ _ h hs rfl hci

theorem foldl_publishOne_good {s0 : St} (snap : Snapshot) (now : Nat) (picks : List Nat)
    (l : List ChainInfo) (s : St) (h : Good s0 s) (hs : current s0 = some snap)
    (hl : ∀ ci ∈ l, ci ∈ s0.chains) :
    Good s0 (l.foldl (publishOne snap now picks) s) := by
  induction l generalizing s with
  | nil => simpa using h
  | cons ci cis ih =>
    exact ih _ (publishOne_good snap now picks ci h hs (hl ci (by simp)))
      (fun c hc => hl c (List.mem_cons_of_mem _ hc))

theorem publishAll_good {s0 : St} (snap : Snapshot) (now : Nat) (picks : List Nat)
    (h : Good s0 s0) (hs : current s0 = some snap) : Good s0 (publishAll s0 snap now picks) :=
  foldl_publishOne_good snap now picks _ _ h hs (fun _ h => h)

/-! ### the invariant -/

structure Inv (s : St) : Prop where
  /-- the i-th stored snapshot has id i+1 -/
  ids : ∀ i (h : i < s.snaps.length), s.snaps[i].id = i + 1
  last : s.lastId = s.snaps.length
  sentOk : ∀ p ∈ s.sent, SentOk s.snaps p
  queueSub : ∀ p ∈ s.queue, p ∈ s.sent
  /-- the recorded total of every STORED snapshot is the sum of its shares -/
  totals : ∀ sn ∈ s.snaps, sn.total = sumShares sn.vals

theorem Inv.good {s : St} (h : Inv s) : Good s s :=
  ⟨rfl, rfl, rfl, rfl, rfl, h.sentOk, h.queueSub, [], by simp, by simp⟩

theorem inv_init : Inv St.init := by
  constructor <;> simp [St.init]

theorem inv_of_good {s0 s : St} (h0 : Inv s0) (h : Good s0 s) : Inv s := by
  refine ⟨?_, ?_, ?_, h.queueSub, ?_⟩
  · rw [h.snaps]; exact h0.ids
  · rw [h.snaps, h.lastId]; exact h0.last
  · rw [h.snaps]; exact h.sentOk
  · rw [h.snaps]; exact h0.totals

theorem find_by_pos_off (l : List Snapshot) (off : Nat)
    (hids : ∀ i (h : i < l.length), l[i].id = i + 1 + off) (i : Nat) (h : i < l.length) :
    l.find? (fun sn => sn.id == i + 1 + off) = some l[i] := by
  induction l generalizing off i with
  | nil => simp at h
  | cons y ys ih =>
    have hy0 : y.id = 1 + off := by
      have := hids 0 (by simp)
      simpa using this
    cases i with
    | zero => simp [hy0]
    | succ k =>
      have hne : (y.id == k + 1 + 1 + off) = false := by
        simp only [hy0, beq_eq_false_iff_ne, ne_eq]; omega
      simp only [List.find?_cons, hne, List.getElem_cons_succ]
      have := ih (off + 1) (fun j hj => by
        have := hids (j + 1) (by simpa using hj)
        simp only [List.getElem_cons_succ] at this
        omega) k (by simpa using h)
      have e : k + 1 + (off + 1) = k + 1 + 1 + off := by omega
      rw [e] at this
      exact this

theorem find_by_pos {l : List Snapshot} (hids : ∀ i (h : i < l.length), l[i].id = i + 1)
    (i : Nat) (h : i < l.length) : l.find? (fun sn => sn.id == i + 1) = some l[i] := by
  have := find_by_pos_off l 0 (fun i h => by simpa using hids i h) i h
  simpa using this

theorem find_none_of_ids {l : List Snapshot} (hids : ∀ i (h : i < l.length), l[i].id = i + 1)
    (id : Nat) (h : id = 0 ∨ id > l.length) : l.find? (fun sn => sn.id == id) = none := by
  rw [List.find?_eq_none]
  intro x hx
  obtain ⟨i, hi, rfl⟩ := List.mem_iff_getElem.mp hx
  have := hids i hi
  simp only [beq_iff_eq]
  omega

theorem inv_setOnChain {s : St} (id c : Nat) (h : Inv s) : Inv (setOnChain s id c).1 := by
  unfold setOnChain
  split
  · exact h
  · refine ⟨?_, ?_, ?_, h.queueSub, ?_⟩
    · intro i hi
      simp only [List.getElem_map]
      have := h.ids i (by simpa using hi)
      split <;> simpa using this
    · simpa using h.last
    · intro p hp
      obtain ⟨hq, sn, hsn, he⟩ := h.sentOk p hp
      refine ⟨hq, ?_⟩
      by_cases hid : (sn.id == id) = true
      · exact ⟨{ sn with chains := sn.chains ++ [c] }, List.mem_map.mpr ⟨sn, hsn, by simp [hid]⟩,
          by rw [he]; exact (transform_congr _ _ _ rfl rfl).symm⟩
      · exact ⟨sn, List.mem_map.mpr ⟨sn, hsn, by simp [hid]⟩, he⟩
    · intro sn hsn
      obtain ⟨sn0, h0, rfl⟩ := List.mem_map.mp hsn
      split
      · exact h.totals sn0 h0
      · exact h.totals sn0 h0

theorem inv_store {s : St} (snap : Snapshot) (h : Inv s) (ht : snap.total = sumShares snap.vals) :
    Inv (storeAsCurrent s snap) := by
  unfold storeAsCurrent
  refine ⟨?_, ?_, ?_, h.queueSub, ?_⟩
  · intro i hi
    simp only [List.length_append, List.length_singleton] at hi
    by_cases hlt : i < s.snaps.length
    · simp only [List.getElem_append_left hlt]; exact h.ids i hlt
    · have : i = s.snaps.length := by omega
      subst this
      simp [h.last]
  · simp [h.last]
  · intro p hp
    obtain ⟨hq, sn, hsn, he⟩ := h.sentOk p hp
    exact ⟨hq, sn, List.mem_append_left _ hsn, he⟩
  · intro sn hsn
    rcases List.mem_append.mp hsn with hsn | hsn
    · exact h.totals sn hsn
    · have : sn = { snap with id := s.lastId + 1 } := by simpa using hsn
      subst this; exact ht

theorem stamped_mem_store (s : St) (snap : Snapshot) :
    { snap with id := s.lastId + 1 } ∈ (storeAsCurrent s snap).snaps := by
  simp [storeAsCurrent]

/-- right after `setSnapshotAsCurrent` the stored record IS the current snapshot -/
theorem current_store {s : St} (snap : Snapshot) (h : Inv s) (ht : snap.total = sumShares snap.vals) :
    current (storeAsCurrent s snap) = some { snap with id := s.lastId + 1 } := by
  have hinv := inv_store snap h ht
  have hlen : (storeAsCurrent s snap).snaps.length = s.snaps.length + 1 := by
    simp [storeAsCurrent]
  have hf := find_by_pos hinv.ids s.snaps.length (by omega)
  have hget : (storeAsCurrent s snap).snaps[s.snaps.length]'(by omega) = { snap with id := s.lastId + 1 } := by
    simp [storeAsCurrent]
  rw [hget] at hf
  unfold current findSnapshot
  have : (storeAsCurrent s snap).lastId = s.snaps.length + 1 := by
    simp [storeAsCurrent, h.last]
  rw [this]; exact hf

/-- the build goes through: `isNewSnapshotWorthy` does not panic and answers "worthy" -/
def proceeds (s : St) (now : Nat) : Bool :=
  !buildPanics s now && worthy (current s) (createSnapshot s now)

theorem proceeds_iff (s : St) (now : Nat) :
    proceeds s now = true ↔
      buildPanics s now = false ∧ worthy (current s) (createSnapshot s now) = true := by
  unfold proceeds
  cases buildPanics s now <;> cases worthy (current s) (createSnapshot s now) <;> simp

/-- a panicking build and a build that is not worthy: nothing happens -/
theorem build_stuck {s : St} {now : Nat} (picks : List Nat) (h : proceeds s now = false) :
    build s now picks = (s, none) := by
  unfold proceeds at h
  unfold build
  cases hp : buildPanics s now
  · rw [hp] at h
    have hw : worthy (current s) (createSnapshot s now) = false := by simpa using h
    simp [hw]
  · simp

theorem build_proceeds {s : St} {now : Nat} (picks : List Nat) (h : proceeds s now = true) :
    build s now picks =
      (publishAll (storeAsCurrent s (createSnapshot s now))
        { createSnapshot s now with id := s.lastId + 1 } now picks,
       some { createSnapshot s now with id := s.lastId + 1 }) := by
  obtain ⟨hp, hw⟩ := (proceeds_iff s now).mp h
  unfold build
  simp [hp, hw]

theorem build_good {s : St} (now : Nat) (picks : List Nat) (h : Inv s)
    (hw : proceeds s now = true) :
    Good (storeAsCurrent s (createSnapshot s now)) (build s now picks).1 := by
  rw [build_proceeds picks hw]
  exact publishAll_good _ now picks (inv_store _ h rfl).good (current_store _ h rfl)

theorem inv_build {s : St} (now : Nat) (picks : List Nat) (h : Inv s) : Inv (build s now picks).1 := by
  cases hw : proceeds s now
  · rw [build_stuck picks hw]
    exact h
  · exact inv_of_good (inv_store _ h rfl) (build_good now picks h hw)

theorem findChain_some {s : St} {c : Nat} {ci : ChainInfo} (h : findChain s c = some ci) :
    ci ∈ s.chains ∧ ci.ref = c := by
  unfold findChain at h
  exact ⟨List.mem_of_find?_eq_some h, by simpa using List.find?_some h⟩

theorem jit_good {s : St} (c : Nat) (pick : Bool) (h : Inv s) : Good s (jit s c pick).1 := by
  unfold jit
  split
  · exact h.good
  · exact h.good
  · exact h.good
  · rename_i ci cur pub hci hcur _
    split
    · exact h.good
    · split
      · exact h.good
      · rename_i hact
        split
        · exact h.good
        · rename_i he
          split
          · exact h.good
          · exact send_good _ _ h.good
              ⟨cur, hcur, rfl, by simpa using he, ci, (findChain_some hci).1, (findChain_some hci).2,
                by simpa using hact⟩

theorem inv_jit {s : St} (c : Nat) (pick : Bool) (h : Inv s) : Inv (jit s c pick).1 :=
  inv_of_good h (jit_good c pick h)

theorem inv_frame {s s' : St} (h : Inv s) (h1 : s'.snaps = s.snaps) (h2 : s'.lastId = s.lastId)
    (h3 : s'.sent = s.sent) (h4 : s'.queue = s.queue) : Inv s' := by
  refine ⟨?_, ?_, ?_, ?_, ?_⟩
  · rw [h1]; exact h.ids
  · rw [h1, h2]; exact h.last
  · rw [h1, h3]; exact h.sentOk
  · rw [h3, h4]; exact h.queueSub
  · rw [h1]; exact h.totals

theorem inv_step {s : St} (op : Op) (h : Inv s) : Inv (step s op) := by
  cases op with
  | setStaking l => exact inv_frame h rfl rfl rfl rfl
  | register v a =>
    simp only [step, register]
    split
    · exact h
    · split
      · exact h
      · split
        · exact h
        · exact inv_frame h rfl rfl rfl rfl
  | support c =>
    simp only [step, support]
    split
    · exact h
    · exact inv_frame h rfl rfl rfl rfl
  | activate c =>
    simp only [step, activate]
    split
    · exact h
    · exact inv_frame h rfl rfl rfl rfl
  | remove c =>
    simp only [step, remove]
    split
    · exact h
    · exact inv_frame h rfl rfl rfl rfl
  | build now picks => exact inv_build now picks h
  | onChain id c => exact inv_setOnChain id c h
  | jit c pick => exact inv_jit c pick h

theorem inv_run {s : St} (ops : List Op) (h : Inv s) : Inv (run s ops) := by
  induction ops generalizing s with
  | nil => exact h
  | cons op ops ih => exact ih (inv_step op h)

theorem inv_reachable (ops : List Op) : Inv (run St.init ops) := inv_run ops inv_init

/-! ### the store only grows -/

theorem good_snapsExtend {s0 s : St} (h : Good s0 s) : SnapsExtend s0.snaps s.snaps := by
  rw [h.snaps]; exact SnapsExtend.refl _

theorem step_snapsExtend {s : St} (op : Op) (h : Inv s) : SnapsExtend s.snaps (step s op).snaps := by
  cases op with
  | setStaking l => exact SnapsExtend.refl _
  | register v a =>
    simp only [step, register]
    split
    · exact SnapsExtend.refl _
    · split
      · exact SnapsExtend.refl _
      · split <;> exact SnapsExtend.refl _
  | support c =>
    simp only [step, support]
    split <;> exact SnapsExtend.refl _
  | activate c =>
    simp only [step, activate]
    split <;> exact SnapsExtend.refl _
  | remove c =>
    simp only [step, remove]
    split <;> exact SnapsExtend.refl _
  | build now picks =>
    simp only [step]
    cases hw : proceeds s now
    · rw [build_stuck picks hw]
      exact SnapsExtend.refl _
    · rw [(build_good now picks h hw).snaps]
      exact snapsExtend_append _ _
  | onChain id c =>
    simp only [step, setOnChain]
    split
    · exact SnapsExtend.refl _
    · exact snapsExtend_onChain _ _ _
  | jit c pick =>
    simp only [step, (jit_good c pick h).snaps]
    exact SnapsExtend.refl _

theorem run_snapsExtend {s : St} (ops : List Op) (h : Inv s) : SnapsExtend s.snaps (run s ops).snaps := by
  induction ops generalizing s with
  | nil => exact SnapsExtend.refl _
  | cons op ops ih => exact (step_snapsExtend op h).trans (ih (inv_step op h))

/-! ### histories: prefixes, what one operation stores and sends -/

theorem snoc_induction {α : Type} {P : List α → Prop} (h0 : P [])
    (hs : ∀ l a, P l → P (l ++ [a])) : ∀ l, P l := by
  intro l
  have key : ∀ l : List α, P l.reverse := by
    intro l
    induction l with
    | nil => simpa using h0
    | cons a l ih => rw [List.reverse_cons]; exact hs _ _ ih
  simpa using key l.reverse

theorem run_append (s : St) (a b : List Op) : run s (a ++ b) = run (run s a) b := by
  unfold run; exact List.foldl_append

theorem run_snoc (s : St) (l : List Op) (a : Op) : run s (l ++ [a]) = step (run s l) a := by
  rw [run_append]; rfl

/-- the chain an operation adds to the live-list of the snapshot `id` -/
def addedBy (id : Nat) : Op → Option Nat
  | .onChain i c => if i = id then some c else none
  | _ => none

/-- the chains that the `SetSnapshotOnChain` operations of `ops` add to snapshot `id`, in order -/
def chainsAdded (id : Nat) (ops : List Op) : List Nat := ops.filterMap (addedBy id)

theorem chainsAdded_snoc (id : Nat) (ops : List Op) (op : Op) :
    chainsAdded id (ops ++ [op]) = chainsAdded id ops ++ (addedBy id op).toList := by
  unfold chainsAdded
  rw [List.filterMap_append]
  cases h : addedBy id op <;> simp [h]

/-- a snapshot with its chain list blanked: everything that must never change -/
def Snapshot.core (sn : Snapshot) : Snapshot := { sn with chains := [] }

theorem core_extends {a b : Snapshot} (h : b.core = a.core) :
    b.id = a.id ∧ b.vals = a.vals ∧ b.total = a.total ∧ b.createdAt = a.createdAt := by
  unfold Snapshot.core at h
  cases a; cases b
  simp only [Snapshot.mk.injEq] at h
  simp [h]

/-- every record in the store after one operation is either a record that was stored before —
unchanged except for the chain this very operation appended — or the snapshot this `build` made -/
theorem step_snaps_cases {s : St} (hi : Inv s) (op : Op) (sn : Snapshot)
    (h : sn ∈ (step s op).snaps) :
    (∃ sn0 ∈ s.snaps, sn.core = sn0.core ∧ sn.chains = sn0.chains ++ (addedBy sn0.id op).toList) ∨
    (∃ now picks, op = .build now picks ∧ (build s now picks).2 = some sn ∧ sn.chains = []) := by
  have same : ∀ {s' : St}, s'.snaps = s.snaps → sn ∈ s'.snaps → (∀ id, addedBy id op = none) →
      ∃ sn0 ∈ s.snaps, sn.core = sn0.core ∧ sn.chains = sn0.chains ++ (addedBy sn0.id op).toList := by
    intro s' he hm hn
    exact ⟨sn, by rw [← he]; exact hm, rfl, by simp [hn]⟩
  cases op with
  | setStaking l => exact Or.inl (same rfl h (fun _ => rfl))
  | register v a =>
    refine Or.inl (same ?_ h (fun _ => rfl))
    simp only [step, register]
    split
    · rfl
    · split
      · rfl
      · split <;> rfl
  | support c =>
    refine Or.inl (same ?_ h (fun _ => rfl))
    simp only [step, support]
    split <;> rfl
  | activate c =>
    refine Or.inl (same ?_ h (fun _ => rfl))
    simp only [step, activate]
    split <;> rfl
  | remove c =>
    refine Or.inl (same ?_ h (fun _ => rfl))
    simp only [step, remove]
    split <;> rfl
  | jit c pick =>
    exact Or.inl (same (jit_good c pick hi).snaps h (fun _ => rfl))
  | build now picks =>
    simp only [step] at h
    cases hw : proceeds s now
    · rw [build_stuck picks hw] at h
      exact Or.inl ⟨sn, h, rfl, by simp [addedBy]⟩
    · rw [(build_good now picks hi hw).snaps] at h
      simp only [storeAsCurrent, List.mem_append, List.mem_singleton] at h
      rcases h with h | h
      · exact Or.inl ⟨sn, h, rfl, by simp [addedBy]⟩
      · refine Or.inr ⟨now, picks, rfl, ?_, by rw [h]; rfl⟩
        rw [build_proceeds picks hw, h]
  | onChain id c =>
    simp only [step, setOnChain] at h
    split at h
    · rename_i hnone
      refine Or.inl ⟨sn, h, rfl, ?_⟩
      have hne : ¬ id = sn.id := by
        intro e
        have := List.find?_eq_none.mp hnone sn h
        simp [e] at this
      simp [addedBy, hne]
    · obtain ⟨sn0, h0, rfl⟩ := List.mem_map.mp h
      refine Or.inl ⟨sn0, h0, ?_⟩
      by_cases e : sn0.id = id
      · subst e
        simp [addedBy, Snapshot.core]
      · have e' : ¬ id = sn0.id := fun x => e x.symm
        simp [e, e', addedBy]

/-- a message is appended to the log by operation `op` in state `s`: it is the valset of the
snapshot that is current right after `op` (for a build: the snapshot this build stored; for a
just-in-time update: the snapshot that was already current), for an active chain, it passed the
quorum test, and it is pending in the queue -/
def SentAtCur (s : St) (op : Op) (p : Nat × Valset) (cur : Snapshot) : Prop :=
  current (step s op) = some cur ∧ p.2 = transform cur p.1 ∧ enough p.2 = true ∧
    (∃ ci ∈ (step s op).chains, ci.ref = p.1 ∧ ci.active = true) ∧
    p ∈ (step s op).queue ∧
    ((∃ now picks, op = .build now picks ∧ (build s now picks).2 = some cur) ∨
     (∃ pick, op = .jit p.1 pick ∧ current s = some cur))

/-- `SentAtCur` for some snapshot `cur` -/
def SentAt (s : St) (op : Op) (p : Nat × Valset) : Prop := ∃ cur, SentAtCur s op p cur

theorem step_sent {s : St} (hi : Inv s) (op : Op) :
    ∃ news, (step s op).sent = s.sent ++ news ∧ ∀ p ∈ news, SentAt s op p := by
  have none : ∀ {s' : St}, s'.sent = s.sent →
      ∃ news, s'.sent = s.sent ++ news ∧ ∀ p ∈ news, SentAt s op p :=
    fun he => ⟨[], by simp [he], by simp⟩
  cases op with
  | setStaking l => exact none rfl
  | register v a =>
    apply none
    simp only [step, register]
    split
    · rfl
    · split
      · rfl
      · split <;> rfl
  | support c =>
    apply none
    simp only [step, support]
    split <;> rfl
  | activate c =>
    apply none
    simp only [step, activate]
    split <;> rfl
  | remove c =>
    apply none
    simp only [step, remove]
    split <;> rfl
  | onChain id c =>
    apply none
    simp only [step, setOnChain]
    split <;> rfl
  | build now picks =>
    cases hw : proceeds s now
    · apply none
      simp only [step]
      rw [build_stuck picks hw]
    · have hg := build_good now picks hi hw
      obtain ⟨news, hn, hnews⟩ := hg.news
      refine ⟨news, by simpa [step, storeAsCurrent] using hn, ?_⟩
      intro p hp
      obtain ⟨hsn, hq⟩ := hnews p hp
      obtain ⟨cur, hc, he, hen, hch⟩ := hg.sentNow hsn
      refine ⟨cur, hc, he, hen, hch, hq, Or.inl ⟨now, picks, rfl, ?_⟩⟩
      have hc0 : current (storeAsCurrent s (createSnapshot s now)) = some cur := by
        rw [← hg.current]; exact hc
      rw [current_store _ hi rfl] at hc0
      rw [build_proceeds picks hw]
      exact hc0
  | jit c pick =>
    have hg := jit_good c pick hi
    -- the log grows by at most the one message `(c, transform cur c)`
    have key : (jit s c pick).1.sent = s.sent ∨
        ∃ cur, current s = some cur ∧ (jit s c pick).1.sent = s.sent ++ [(c, transform cur c)] := by
      unfold jit
      split
      · exact Or.inl rfl
      · exact Or.inl rfl
      · exact Or.inl rfl
      · rename_i ci cur pub hci hcur _
        split
        · exact Or.inl rfl
        · split
          · exact Or.inl rfl
          · split
            · exact Or.inl rfl
            · split
              · exact Or.inl rfl
              · unfold send
                split
                · exact Or.inl rfl
                · exact Or.inr ⟨cur, hcur, rfl⟩
    rcases key with key | ⟨cur, hcur, key⟩
    · exact none key
    · refine ⟨[(c, transform cur c)], key, ?_⟩
      intro p hp
      have hpe : p = (c, transform cur c) := by simpa using hp
      obtain ⟨news, hn, hnews⟩ := hg.news
      have hnews' : news = [(c, transform cur c)] := by
        have := hn.symm.trans key
        exact List.append_cancel_left this
      have hp' : p ∈ news := by rw [hnews', hpe]; simp
      obtain ⟨hsn, hq⟩ := hnews p hp'
      obtain ⟨cur', hc', he', hen, hch⟩ := hg.sentNow hsn
      have hcc : cur' = cur := by
        have h2 : current (jit s c pick).1 = some cur' := hc'
        rw [hg.current, hcur] at h2
        exact (Option.some.inj h2).symm
      subst hcc
      refine ⟨cur', hc', he', hen, hch, hq, Or.inr ⟨pick, ?_, hcur⟩⟩
      rw [hpe]

theorem step_sent_prefix {s : St} (hi : Inv s) (op : Op) : s.sent <+: (step s op).sent := by
  obtain ⟨news, hn, _⟩ := step_sent hi op
  exact ⟨news, hn.symm⟩

theorem run_sent_prefix {s : St} (ops : List Op) (hi : Inv s) : s.sent <+: (run s ops).sent := by
  induction ops generalizing s with
  | nil => exact List.prefix_refl _
  | cons op ops ih => exact (step_sent_prefix hi op).trans (ih (inv_step op hi))

/-! ### the staking environment -/

theorem mem_le_sum_aux (l : List Nat) (a : Nat) (h : a ∈ l) : a ≤ l.sum := by
  induction l with
  | nil => simp at h
  | cons b bs ih =>
    simp only [List.sum_cons]
    rcases List.mem_cons.mp h with rfl | h
    · omega
    · have := ih h; omega

/-- ASSUMPTIONS on the environment (the Cosmos SDK staking module, which is an INPUT of the model:
`setStaking`), for every staking state shown to the module at a snapshot build:
 * `distinct` — the staking store is keyed by operator address, so `IterateValidators` shows every
   validator once: pairwise distinct validator ids;
 * `bonded ⇒ tokens > 0` — `TriggerSnapshotBuild` is only called from valset's `EndBlock`
   (x/valset/module.go), which runs AFTER staking's `EndBlock` (app/app.go `SetOrderEndBlockers`);
   there `ApplyAndReturnValidatorSetUpdates` leaves in status `Bonded` exactly the top validators
   with `PotentialConsensusPower ≥ 1` (it `break`s at the first zero-power validator and moves all
   other previously bonded ones to `Unbonding`), i.e. with `tokens ≥ PowerReduction > 0`.
Both are facts of the SDK, not of /repo; neither is checked by `createNewSnapshot`
(`staking_assumption_needed`, `bonded_positive_needed`). -/
def StakingWF (ops : List Op) : Prop :=
  ∀ l, Op.setStaking l ∈ ops →
    (l.map (·.id)).Nodup ∧ ∀ sv ∈ l, sv.status = .bonded → 0 < sv.tokens

theorem StakingWF.prefix {pre post : List Op} (h : StakingWF (pre ++ post)) : StakingWF pre :=
  fun l hl => h l (List.mem_append_left _ hl)

/-- the state-level form of `StakingWF` -/
def StakingOk (s : St) : Prop :=
  (s.staking.map (·.id)).Nodup ∧ ∀ sv ∈ s.staking, sv.status = .bonded → 0 < sv.tokens

theorem step_staking {s : St} (hi : Inv s) (op : Op) :
    (step s op).staking = s.staking ∨ ∃ l, op = .setStaking l ∧ (step s op).staking = l := by
  cases op with
  | setStaking l => exact Or.inr ⟨l, rfl, rfl⟩
  | register v a =>
    left
    simp only [step, register]
    split
    · rfl
    · split
      · rfl
      · split <;> rfl
  | support c => left; simp only [step, support]; split <;> rfl
  | activate c => left; simp only [step, activate]; split <;> rfl
  | remove c => left; simp only [step, remove]; split <;> rfl
  | onChain id c => left; simp only [step, setOnChain]; split <;> rfl
  | jit c pick => left; exact (jit_good c pick hi).staking
  | build now picks =>
    left
    cases hw : proceeds s now
    · simp only [step]; rw [build_stuck picks hw]
    · exact (build_good now picks hi hw).staking

/-- the assumption on the op inputs holds for the staking state of every reachable state -/
theorem staking_ok (ops : List Op) (h : StakingWF ops) : StakingOk (run St.init ops) := by
  revert h
  induction ops using snoc_induction with
  | h0 => intro _; simp [run, St.init, StakingOk]
  | hs l a ih =>
    intro h
    rw [run_snoc]
    rcases step_staking (inv_reachable l) a with e | ⟨l', rfl, e⟩
    · unfold StakingOk; rw [e]; exact ih h.prefix
    · unfold StakingOk; rw [e]; exact h l' (by simp)

theorem staking_nodup (ops : List Op) (h : StakingWF ops) :
    ((run St.init ops).staking.map (·.id)).Nodup := (staking_ok ops h).1

theorem eq_of_nodup_map {α β : Type} (f : α → β) {l : List α} (h : (l.map f).Nodup)
    {a b : α} (ha : a ∈ l) (hb : b ∈ l) (e : f a = f b) : a = b := by
  induction l with
  | nil => simp at ha
  | cons x xs ih =>
    simp only [List.map_cons, List.nodup_cons, List.mem_map, not_exists, not_and] at h
    rcases List.mem_cons.mp ha with rfl | ha' <;> rcases List.mem_cons.mp hb with rfl | hb'
    · rfl
    · exact absurd e.symm (h.1 b hb')
    · exact absurd e (h.1 a ha')
    · exact ih h.2 ha' hb'

theorem sumShares_pos {l : List Val} {v : Val} (hv : v ∈ l) (h : 0 < v.share) : 0 < sumShares l := by
  unfold sumShares
  have : v.share ∈ l.map (·.share) := List.mem_map.mpr ⟨v, hv, rfl⟩
  have := mem_le_sum_aux _ _ this
  omega

/-- members of a fresh snapshot come from eligible (hence bonded) staking validators -/
theorem mem_createSnapshot {s : St} {now : Nat} {v : Val} (h : v ∈ (createSnapshot s now).vals) :
    ∃ sv ∈ s.staking, eligible s sv = true ∧
      v = { id := sv.id, share := sv.tokens, accts := acctsOf s sv.id } := by
  simp only [createSnapshot, List.mem_map, List.mem_filter] at h
  obtain ⟨sv, ⟨h1, h2⟩, rfl⟩ := h
  exact ⟨sv, h1, h2, rfl⟩

theorem createSnapshot_total_pos {s : St} (now : Nat) (h : StakingOk s)
    (hne : (createSnapshot s now).vals ≠ []) : 0 < (createSnapshot s now).total := by
  obtain ⟨v, hv⟩ := List.exists_mem_of_ne_nil _ hne
  obtain ⟨sv, hsv, hel, rfl⟩ := mem_createSnapshot hv
  have hb : sv.status = .bonded := ((eligible_iff s sv).mp hel).1
  exact sumShares_pos (v := { id := sv.id, share := sv.tokens, accts := acctsOf s sv.id }) hv
    (h.2 sv hsv hb)

/-! ### `isNewSnapshotWorthy` never looks at `x / 0` -/

/-- `fraction18` with an arbitrary junk value `j` for a zero divisor -/
def fraction18J (j share total : Nat) : Nat := if total = 0 then j else share * 10 ^ 18 / total

/-- `worthyAgainst` computed with `fraction18J j` -/
def worthyAgainstJ (j : Nat) (cur new : Snapshot) : Bool :=
  if cur.vals.length != new.vals.length then true else
  if new.vals.any (fun v => !(cur.vals.any (fun w => w.id == v.id))) then true else
  if zipAny (fun a b => a.id != b.id) (sortAsc cur.vals) (sortAsc new.vals) then true else
  if zipAny (fun a b => absDiff (fraction18J j a.share cur.total) (fraction18J j b.share new.total) ≥ 10 ^ 16)
      (sortAsc cur.vals) (sortAsc new.vals) then true else
  zipAny (fun a b => acctsDiffer a.accts b.accts) (sortAsc cur.vals) (sortAsc new.vals)

theorem fraction18J_pos (j share : Nat) {total : Nat} (h : total ≠ 0) :
    fraction18J j share total = fraction18 share total := by
  unfold fraction18J fraction18
  rw [if_neg h]

theorem zipAny_nil_left (f : Val → Val → Bool) (l : List Val) : zipAny f [] l = false := by
  unfold zipAny; rfl

theorem build_some {s : St} {now : Nat} {picks : List Nat} {x : Snapshot}
    (h : (build s now picks).2 = some x) :
    proceeds s now = true ∧ buildPanics s now = false ∧
    worthy (current s) (createSnapshot s now) = true ∧
      x = { createSnapshot s now with id := s.lastId + 1 } := by
  cases hw : proceeds s now
  · rw [build_stuck picks hw] at h
    simp at h
  · rw [build_proceeds picks hw] at h
    obtain ⟨hp, hwo⟩ := (proceeds_iff s now).mp hw
    exact ⟨rfl, hp, hwo, (Option.some.inj h).symm⟩

theorem sum_zero_power (c : Nat) (l : List Val) :
    (l.map (fun v => (chosen c v).length * power v.share 0)).sum = 0 := by
  have e : (fun v : Val => (chosen c v).length * power v.share 0) = fun _ => 0 :=
    funext (fun v => by rw [power_zero_total, Nat.mul_zero])
  rw [e]
  induction l with
  | nil => rfl
  | cons a as ih => simpa using ih

theorem mem_le_sum (l : List Nat) (a : Nat) (h : a ∈ l) : a ≤ l.sum := mem_le_sum_aux l a h

/-- when `quoPanics` is false the answer of `isNewSnapshotWorthy` does not depend on what a
division by zero would yield: either an earlier test decides, or the snapshots are empty (the
percentage loop has no iteration), or both totals are positive -/
theorem worthyAgainstJ_eq (j : Nat) (cur new : Snapshot) (h : quoPanics cur new = false) :
    worthyAgainstJ j cur new = worthyAgainst cur new := by
  unfold quoPanics at h
  unfold worthyAgainstJ worthyAgainst
  split
  · rfl
  · rw [if_neg (by assumption)] at h
    split
    · rfl
    · rw [if_neg (by assumption)] at h
      split
      · rfl
      · rw [if_neg (by assumption)] at h
        cases hv : cur.vals with
        | nil =>
          have : sortAsc ([] : List Val) = [] := rfl
          simp only [this, zipAny_nil_left]
        | cons x xs =>
          rw [hv] at h
          have h' : (cur.total == 0 || new.total == 0) = false := by simpa using h
          have hc : cur.total ≠ 0 := by
            intro e; rw [e] at h'; simp at h'
          have hn : new.total ≠ 0 := by
            intro e; rw [e] at h'; simp at h'
          have e : (fun a b : Val => decide (absDiff (fraction18J j a.share cur.total)
                (fraction18J j b.share new.total) ≥ 10 ^ 16)) =
              (fun a b : Val => decide (absDiff (fraction18 a.share cur.total)
                (fraction18 b.share new.total) ≥ 10 ^ 16)) := by
            funext a b
            rw [fraction18J_pos j _ hc, fraction18J_pos j _ hn]
          rw [e]

/-! ### external accounts and their chain types -/

/-- every registered account is EVM-typed -/
def AcctsEvm (s : St) : Prop := ∀ p ∈ s.accts, ∀ x ∈ p.2, isEvm x.ctype = true

theorem mem_putAccts {l : List (Nat × List Acct)} {v : Nat} {a : List Acct} {p : Nat × List Acct}
    (h : p ∈ putAccts l v a) : p ∈ l ∨ p = (v, a) := by
  unfold putAccts at h
  split at h
  · obtain ⟨q, hq, rfl⟩ := List.mem_map.mp h
    split
    · exact Or.inr rfl
    · exact Or.inl hq
  · rcases List.mem_append.mp h with h | h
    · exact Or.inl h
    · exact Or.inr (by simpa using h)

theorem step_accts {s : St} (hi : Inv s) (op : Op) :
    (step s op).accts = s.accts ∨
      ∃ v a, op = .register v a ∧ (step s op).accts = putAccts s.accts v a := by
  cases op with
  | setStaking l => exact Or.inl rfl
  | register v a =>
    simp only [step, register]
    split
    · exact Or.inl rfl
    · split
      · exact Or.inl rfl
      · split
        · exact Or.inl rfl
        · exact Or.inr ⟨v, a, rfl, rfl⟩
  | support c => left; simp only [step, support]; split <;> rfl
  | activate c => left; simp only [step, activate]; split <;> rfl
  | remove c => left; simp only [step, remove]; split <;> rfl
  | onChain id c => left; simp only [step, setOnChain]; split <;> rfl
  | jit c pick => left; exact (jit_good c pick hi).accts
  | build now picks =>
    left
    cases hw : proceeds s now
    · simp only [step]; rw [build_stuck picks hw]
    · exact (build_good now picks hi hw).accts

theorem mem_acctsOf {s : St} {v : Nat} {x : Acct} (h : x ∈ acctsOf s v) :
    ∃ p ∈ s.accts, x ∈ p.2 := by
  unfold acctsOf at h
  cases hf : s.accts.find? (fun p => p.1 == v) with
  | none => rw [hf] at h; simp at h
  | some p =>
    rw [hf] at h
    exact ⟨p, List.mem_of_find?_eq_some hf, by simpa using h⟩

/-- ASSUMPTION candidate on the registration inputs (NOT enforced by /repo:
`SetExternalChainInfoState` stores any chain type): every account ever registered is EVM-typed.
All chains of the model are chains of the evm module, so this says "accounts on EVM chains are
EVM-typed". -/
def RegsEvmTyped (ops : List Op) : Prop :=
  ∀ v a, Op.register v a ∈ ops → ∀ x ∈ a, isEvm x.ctype = true

theorem RegsEvmTyped.prefix {pre post : List Op} (h : RegsEvmTyped (pre ++ post)) : RegsEvmTyped pre :=
  fun v a hl => h v a (List.mem_append_left _ hl)

theorem accts_evm_reachable (ops : List Op) (h : RegsEvmTyped ops) : AcctsEvm (run St.init ops) := by
  revert h
  induction ops using snoc_induction with
  | h0 => intro _; simp [run, St.init, AcctsEvm]
  | hs l a ih =>
    intro h
    rw [run_snoc]
    rcases step_accts (inv_reachable l) a with e | ⟨v, ac, rfl, e⟩
    · unfold AcctsEvm; rw [e]; exact ih h.prefix
    · unfold AcctsEvm; rw [e]
      intro p hp x hx
      rcases mem_putAccts hp with hp | rfl
      · exact ih h.prefix p hp x hx
      · exact h v ac (by simp) x hx

theorem any_matching_of_evm {c : Nat} (l : List Acct) (h : ∀ x ∈ l, isEvm x.ctype = true) :
    l.any (fun a => isEvm a.ctype && a.chain == c) = l.any (fun a => a.chain == c) := by
  induction l with
  | nil => rfl
  | cons x xs ih =>
    simp only [List.any_cons]
    rw [h x (by simp), Bool.true_and, ih (fun y hy => h y (List.mem_cons_of_mem _ hy))]

theorem head?_filter_of_mem {l : List Acct} {q : Acct → Bool} {a : Acct} (ha : a ∈ l) (hq : q a = true) :
    ∃ b, (l.filter q).head? = some b := by
  cases hf : l.filter q with
  | nil =>
    have : a ∈ l.filter q := List.mem_filter.mpr ⟨ha, hq⟩
    rw [hf] at this; simp at this
  | cons b bs => exact ⟨b, rfl⟩

theorem matching_of_evm {c : Nat} {v : Val} (h : ∀ x ∈ v.accts, isEvm x.ctype = true) :
    matching c v = v.accts.filter (fun a => a.chain == c) := by
  unfold matching
  apply List.filter_congr
  intro x hx
  rw [h x hx, Bool.true_and]

end Lemmas

/-! ## Property theorems (C10) -/

/-! ### Part 1 — what a snapshot contains -/

/-- **snapshot_exact** — what `createNewSnapshot` computes, for EVERY state (the lifting to the
snapshots that are actually STORED, over all histories, is `stored_snapshot_exact` below).
("every snapshot lists exactly the bonded, unjailed validators that have an
account on every active remote chain, with each share equal to the validator's bonded stake and the
total equal to their sum"). For every staking state, registration state and set of chains the
snapshot built by `createSnapshot` lists, in store order and each exactly once, the staking
validators that are bonded, not jailed and have an account on every active chain; the share is
the validator's tokens, the recorded accounts are its registered accounts, the total is the sum
of the shares and the fresh snapshot is live on no chain. -/
theorem snapshot_exact (s : St) (now : Nat) :
    (createSnapshot s now).vals =
        (s.staking.filter (eligible s)).map
          (fun sv => { id := sv.id, share := sv.tokens, accts := acctsOf s sv.id }) ∧
    (∀ sv, eligible s sv = true ↔
        sv.status = .bonded ∧ sv.jailed = false ∧
          ∀ c ∈ activeChains s, ∃ a ∈ acctsOf s sv.id, a.chain = c) ∧
    (∀ v, v ∈ (createSnapshot s now).vals ↔
        ∃ sv ∈ s.staking, sv.status = .bonded ∧ sv.jailed = false ∧
          (∀ c ∈ activeChains s, ∃ a ∈ acctsOf s sv.id, a.chain = c) ∧
          v = { id := sv.id, share := sv.tokens, accts := acctsOf s sv.id }) ∧
    (createSnapshot s now).total = ((createSnapshot s now).vals.map (·.share)).sum ∧
    (createSnapshot s now).chains = [] := by
  refine ⟨rfl, eligible_iff s, ?_, rfl, rfl⟩
  intro v
  simp only [createSnapshot, List.mem_map, List.mem_filter]
  constructor
  · rintro ⟨sv, ⟨hm, he⟩, rfl⟩
    obtain ⟨h1, h2, h3⟩ := (eligible_iff s sv).mp he
    exact ⟨sv, hm, h1, h2, h3, rfl⟩
  · rintro ⟨sv, hm, h1, h2, h3, rfl⟩
    exact ⟨sv, ⟨hm, (eligible_iff s sv).mpr ⟨h1, h2, h3⟩⟩, rfl⟩

/-- **build_stores_exact.** What `TriggerSnapshotBuild` stores (when it stores anything) is
exactly that snapshot under the next id: it becomes the current snapshot and can be read back by
its id. (Over any reachable pre-state.) The error branch is explicit: when the new snapshot is not
"worthy" nothing is returned and the state is unchanged (`rejected_is_noop`). -/
theorem build_stores_exact (ops : List Op) (now : Nat) (picks : List Nat) (sn : Snapshot)
    (h : (build (run St.init ops) now picks).2 = some sn) :
    sn = { createSnapshot (run St.init ops) now with id := (run St.init ops).lastId + 1 } ∧
    current (build (run St.init ops) now picks).1 = some sn ∧
    findSnapshot (build (run St.init ops) now picks).1 sn.id = some sn := by
  have hi := inv_reachable ops
  generalize run St.init ops = s at h hi ⊢
  obtain ⟨hpr, _, _, hs⟩ := build_some h
  have hg := build_good now picks hi hpr
  have hc : current (build s now picks).1 = some sn := by
    rw [hg.current, current_store _ hi rfl, hs]
  refine ⟨hs, hc, ?_⟩
  have : sn.id = (build s now picks).1.lastId := by
    rw [hg.lastId, hs]; rfl
  rw [this]; exact hc

/-- **stored_provenance** (provenance of every STORED snapshot, all histories). Every record in
the snapshot store of a reachable state is a function of the history: the history splits as
`pre ++ build now picks :: post`, that build returned the record (with an empty chain list), and
the record's chain list is exactly the chains that the `SetSnapshotOnChain` operations of `post`
added to its id, in order. Nothing else ever writes to a stored snapshot. -/
theorem stored_provenance (ops : List Op) (sn : Snapshot) (h : sn ∈ (run St.init ops).snaps) :
    ∃ pre now picks post, ops = pre ++ Op.build now picks :: post ∧
      (build (run St.init pre) now picks).2 = some { sn with chains := [] } ∧
      sn.chains = chainsAdded sn.id post := by
  revert sn
  induction ops using snoc_induction with
  | h0 => intro sn h; simp [run, St.init] at h
  | hs l a ih =>
    intro sn h
    rw [run_snoc] at h
    rcases step_snaps_cases (inv_reachable l) a sn h with
      ⟨sn0, h0, hc, hch⟩ | ⟨now, picks, rfl, hb, hch⟩
    · obtain ⟨pre, now, picks, post, rfl, hb, hp⟩ := ih sn0 h0
      refine ⟨pre, now, picks, post ++ [a], by simp, ?_, ?_⟩
      · have : ({ sn with chains := [] } : Snapshot) = { sn0 with chains := [] } := hc
        rw [this]; exact hb
      · have hid : sn.id = sn0.id := (core_extends hc).1
        rw [chainsAdded_snoc, hid, ← hp]; exact hch
    · refine ⟨l, now, picks, [], rfl, ?_, by rw [hch]; rfl⟩
      have : ({ sn with chains := [] } : Snapshot) = sn := by
        cases sn; simp only [Snapshot.mk.injEq, true_and] at hch ⊢; exact hch.symm
      rw [this]; exact hb

/-- **stored_snapshot_exact** ("EVERY snapshot lists exactly the bonded, unjailed validators that
have an account on every active remote chain, with each share equal to the validator's bonded
stake and the total equal to their sum" — for the snapshots that are STORED, over all histories).
For every record `sn` of the store of every reachable state there is a point `pre` of the history
(the build that stored it) such that, with `s` = the state at that point: the build was worthy,
`sn.id` is the next id, `sn.vals` is — in store order — exactly the staking validators of `s` that
are bonded, not jailed and have an account on every chain active in `s`, each with share = its
tokens and its registered accounts; `sn.total` is the sum of the shares; the chain list is what
later on-chain activations appended. (`buildPanics … = false`: that build did not run into Go's
division by zero, see Part 1b.) -/
theorem stored_snapshot_exact (ops : List Op) (sn : Snapshot) (h : sn ∈ (run St.init ops).snaps) :
    ∃ pre now picks post, ops = pre ++ Op.build now picks :: post ∧
      buildPanics (run St.init pre) now = false ∧
      worthy (current (run St.init pre)) (createSnapshot (run St.init pre) now) = true ∧
      sn.id = (run St.init pre).lastId + 1 ∧ sn.createdAt = now ∧
      sn.vals = ((run St.init pre).staking.filter (eligible (run St.init pre))).map
          (fun sv => { id := sv.id, share := sv.tokens, accts := acctsOf (run St.init pre) sv.id }) ∧
      (∀ v, v ∈ sn.vals ↔
        ∃ sv ∈ (run St.init pre).staking, sv.status = .bonded ∧ sv.jailed = false ∧
          (∀ c ∈ activeChains (run St.init pre), ∃ a ∈ acctsOf (run St.init pre) sv.id, a.chain = c) ∧
          v = { id := sv.id, share := sv.tokens, accts := acctsOf (run St.init pre) sv.id }) ∧
      sn.total = (sn.vals.map (·.share)).sum ∧
      sn.chains = chainsAdded sn.id post := by
  obtain ⟨pre, now, picks, post, hops, hb, hch⟩ := stored_provenance ops sn h
  obtain ⟨_, hnp, hw, hx⟩ := build_some hb
  have hid : sn.id = (run St.init pre).lastId + 1 := by
    have := congrArg Snapshot.id hx; exact this
  have hvals : sn.vals = (createSnapshot (run St.init pre) now).vals := by
    have := congrArg Snapshot.vals hx; exact this
  have htot : sn.total = (createSnapshot (run St.init pre) now).total := by
    have := congrArg Snapshot.total hx; exact this
  have hat : sn.createdAt = now := by
    have := congrArg Snapshot.createdAt hx; exact this
  refine ⟨pre, now, picks, post, hops, hnp, hw, hid, hat, hvals, ?_, ?_, hch⟩
  · intro v
    rw [hvals]
    exact (snapshot_exact (run St.init pre) now).2.2.1 v
  · rw [htot, hvals]; rfl

/-- **stored_total_is_sum**: in every reachable state the recorded total of every stored snapshot
is the sum of its shares (so the divisor `transformSnapshotToCompass` recomputes IS the recorded
total). -/
theorem stored_total_is_sum (ops : List Op) :
    ∀ sn ∈ (run St.init ops).snaps, sn.total = (sn.vals.map (·.share)).sum :=
  (inv_reachable ops).totals

/-- **stored_each_once** ("lists EXACTLY … each once"). ASSUMPTION `StakingWF` (environment, Cosmos
SDK; only its first part is used here): the staking store is keyed by operator address, so every
staking state shown to the module lists pairwise distinct validators. Then for every stored
snapshot `sn` of every reachable state, AT THE BUILD THAT STORED IT (the same `pre`, `now`, `picks`
as in `stored_snapshot_exact`: not panicking, worthy, `sn.id` = the next id, `sn.vals` = the image
of the eligible staking validators of the state before that build): the staking ids are pairwise
distinct, `sn` lists pairwise distinct validators, its id list is a sublist (store order) of the
staking ids, every eligible validator occurs in it exactly once and no other validator id occurs
in it at all. -/
theorem stored_each_once (ops : List Op) (hwf : StakingWF ops) (sn : Snapshot)
    (h : sn ∈ (run St.init ops).snaps) :
    ∃ pre now picks post, ops = pre ++ Op.build now picks :: post ∧
      buildPanics (run St.init pre) now = false ∧
      worthy (current (run St.init pre)) (createSnapshot (run St.init pre) now) = true ∧
      sn.id = (run St.init pre).lastId + 1 ∧
      sn.vals = ((run St.init pre).staking.filter (eligible (run St.init pre))).map
          (fun sv => { id := sv.id, share := sv.tokens, accts := acctsOf (run St.init pre) sv.id }) ∧
      ((run St.init pre).staking.map (·.id)).Nodup ∧
      (sn.vals.map (·.id)).Nodup ∧
      (sn.vals.map (·.id)).Sublist ((run St.init pre).staking.map (·.id)) ∧
      (∀ sv ∈ (run St.init pre).staking, eligible (run St.init pre) sv = true →
        (sn.vals.map (·.id)).count sv.id = 1) ∧
      (∀ sv ∈ (run St.init pre).staking, eligible (run St.init pre) sv = false →
        (sn.vals.map (·.id)).count sv.id = 0) := by
  obtain ⟨pre, now, picks, post, hops, hnp, hw, hid, _, hvals, _, _, _⟩ :=
    stored_snapshot_exact ops sn h
  have hmap : sn.vals.map (·.id) =
      ((run St.init pre).staking.filter (eligible (run St.init pre))).map (·.id) := by
    rw [hvals, List.map_map]; rfl
  have hsub : (sn.vals.map (·.id)).Sublist ((run St.init pre).staking.map (·.id)) := by
    rw [hmap]; exact List.Sublist.map _ List.filter_sublist
  have hst : ((run St.init pre).staking.map (·.id)).Nodup :=
    staking_nodup pre (by rw [hops] at hwf; exact hwf.prefix)
  have hnd : (sn.vals.map (·.id)).Nodup := List.Nodup.sublist hsub hst
  refine ⟨pre, now, picks, post, hops, hnp, hw, hid, hvals, hst, hnd, hsub, ?_, ?_⟩
  · intro sv hsv hel
    rw [List.Nodup.count hnd, if_pos]
    rw [hmap]
    exact List.mem_map.mpr ⟨sv, List.mem_filter.mpr ⟨hsv, hel⟩, rfl⟩
  · intro sv hsv hel
    rw [List.Nodup.count hnd, if_neg]
    rw [hmap]
    intro hm
    obtain ⟨sv', hsv', e⟩ := List.mem_map.mp hm
    obtain ⟨h1, h2⟩ := List.mem_filter.mp hsv'
    have : sv' = sv := eq_of_nodup_map (·.id) hst h1 hsv e
    rw [this, hel] at h2
    exact Bool.noConfusion h2

/-- **the assumption is needed**: the model (like `createNewSnapshot`) does not deduplicate — a
staking iteration that showed a validator twice would be listed twice and counted twice. -/
theorem staking_assumption_needed :
    ∃ ops, ∃ sn ∈ (run St.init ops).snaps, ¬ (sn.vals.map (·.id)).Nodup :=
  ⟨[.setStaking [⟨1, .bonded, false, 5⟩, ⟨1, .bonded, false, 5⟩], .build 1 []],
    ⟨1, [⟨1, 5, []⟩, ⟨1, 5, []⟩], 10, 1, []⟩, by decide, by decide⟩

/-- **the second assumption is needed too**: `createNewSnapshot` accepts a bonded validator with
0 tokens; the snapshot it stores has a validator and total 0. -/
theorem bonded_positive_needed :
    ∃ ops, ∃ sn ∈ (run St.init ops).snaps, sn.vals ≠ [] ∧ sn.total = 0 :=
  ⟨[.setStaking [⟨1, .bonded, false, 0⟩], .build 1 []],
    ⟨1, [⟨1, 0, []⟩], 0, 1, []⟩, by decide, by decide, rfl⟩

/-! ### Part 1b — totals are positive, `isNewSnapshotWorthy` never divides by zero -/

/-- **stored_total_pos** (ASSUMPTION `StakingWF`, second part: bonded ⇒ tokens > 0). In every
history whose staking inputs are well formed, every stored snapshot that lists a validator has a
POSITIVE total, and every listed share is positive. (An empty snapshot has total 0; it is stored
e.g. by the very first build of `St.init`.) -/
theorem stored_total_pos (ops : List Op) (hwf : StakingWF ops) (sn : Snapshot)
    (h : sn ∈ (run St.init ops).snaps) :
    (∀ v ∈ sn.vals, 0 < v.share) ∧ (sn.vals ≠ [] → 0 < sn.total) ∧ (sn.vals = [] → sn.total = 0) := by
  obtain ⟨pre, now, picks, post, hops, _, _, _, _, hvals, hmem, htot, _⟩ :=
    stored_snapshot_exact ops sn h
  have hok := staking_ok pre (by rw [hops] at hwf; exact hwf.prefix)
  have hsh : ∀ v ∈ sn.vals, 0 < v.share := by
    intro v hv
    obtain ⟨sv, hsv, hb, _, _, rfl⟩ := (hmem v).mp hv
    exact hok.2 sv hsv hb
  refine ⟨hsh, ?_, ?_⟩
  · intro hne
    obtain ⟨v, hv⟩ := List.exists_mem_of_ne_nil _ hne
    rw [htot]
    exact sumShares_pos hv (hsh v hv)
  · intro he
    rw [htot, he]; rfl

/-- **build_never_panics** (the C09 concern: `LegacyNewDecFromInt(share).QuoInt(TotalShares)` in
`isNewSnapshotWorthy`). ASSUMPTION `StakingWF`. In every reachable state of a well-formed history a
snapshot build does NOT run into the division by zero: whenever the percentage loop is entered
(same non-empty validator list, same order), both the current snapshot's total and the new
snapshot's total are positive. -/
theorem build_never_panics (ops : List Op) (hwf : StakingWF ops) (now : Nat) :
    buildPanics (run St.init ops) now = false := by
  unfold buildPanics
  cases hc : current (run St.init ops) with
  | none => rfl
  | some c =>
    simp only
    have hcs := stored_total_pos ops hwf c (current_mem hc)
    have hok := staking_ok ops hwf
    unfold quoPanics
    split
    · rfl
    · rename_i hlen
      split
      · rfl
      · split
        · rfl
        · cases hv : c.vals with
          | nil => rfl
          | cons x xs =>
            have hcne : c.vals ≠ [] := by rw [hv]; exact List.cons_ne_nil _ _
            have h1 := hcs.2.1 hcne
            have hnne : (createSnapshot (run St.init ops) now).vals ≠ [] := by
              intro e
              rw [hv, e] at hlen
              simp at hlen
            have h2 := createSnapshot_total_pos now hok hnne
            have e1 : (c.total == 0) = false := by
              simp only [beq_eq_false_iff_ne, ne_eq]; omega
            have e2 : ((createSnapshot (run St.init ops) now).total == 0) = false := by
              simp only [beq_eq_false_iff_ne, ne_eq]; omega
            rw [e1, e2]; rfl

/-- **worthy_never_divides_by_zero**: whenever `quoPanics` is false — in particular (previous
theorem) at every build of a well-formed history — the answer of `isNewSnapshotWorthy` is the same
whatever value `j` a division by zero would produce: the model's `fraction18 _ 0 = 0` (Lean's
`x / 0 = 0`) is never relied on. `build` tests `buildPanics` first and does nothing when it holds
(`rejected_is_noop`). -/
theorem worthy_never_divides_by_zero (cur new : Snapshot) (h : quoPanics cur new = false) (j : Nat) :
    worthyAgainstJ j cur new = worthyAgainst cur new := worthyAgainstJ_eq j cur new h

/-- **build_panics_without_assumption**: WITHOUT `bonded ⇒ tokens > 0` the division by zero IS
reachable: a bonded, unjailed validator with 0 tokens is stored in snapshot 1 (total 0), and the
next build compares it with an identical fresh snapshot and evaluates `QuoInt(0)`; in the model the
build then does nothing. This is the only way: the panic needs a NON-EMPTY current or new snapshot
whose total is 0 (`quoPanics`). -/
theorem build_panics_without_assumption :
    buildPanics (run St.init [.setStaking [⟨1, .bonded, false, 0⟩], .build 1 []]) 2 = true ∧
    run St.init [.setStaking [⟨1, .bonded, false, 0⟩], .build 1 [], .build 2 []] =
      run St.init [.setStaking [⟨1, .bonded, false, 0⟩], .build 1 []] ∧
    ¬ StakingWF [.setStaking [⟨1, .bonded, false, 0⟩], .build 1 [], .build 2 []] := by
  refine ⟨by decide, ?_, ?_⟩
  · have : buildPanics (run St.init [.setStaking [⟨1, .bonded, false, 0⟩], .build 1 []]) 2 = true := by
      decide
    rw [show ([.setStaking [⟨1, .bonded, false, 0⟩], .build 1 [], .build 2 []] : List Op) =
      [.setStaking [⟨1, .bonded, false, 0⟩], .build 1 []] ++ [.build 2 []] from rfl, run_snoc]
    simp only [step]
    rw [build_stuck [] (by unfold proceeds; rw [this]; rfl)]
  · intro h
    have := (h [⟨1, .bonded, false, 0⟩] (by simp)).2 ⟨1, .bonded, false, 0⟩ (by simp) rfl
    exact Nat.lt_irrefl 0 this

/-! ### Part 2 — ids, the current snapshot, immutability -/

/-- **ids_strictly_increase.** In every reachable state the stored snapshots carry the ids
`1, 2, …, n` in storage order (so ids strictly increase and never repeat), the id counter equals
`n`, and a build that stores a snapshot gives it an id greater than every stored id. -/
theorem ids_strictly_increase (ops : List Op) :
    ((run St.init ops).snaps.map (·.id)).Pairwise (· < ·) ∧
    (∀ i (h : i < (run St.init ops).snaps.length), (run St.init ops).snaps[i].id = i + 1) ∧
    (run St.init ops).lastId = (run St.init ops).snaps.length ∧
    (∀ now picks sn, (build (run St.init ops) now picks).2 = some sn →
        ∀ old ∈ (run St.init ops).snaps, old.id < sn.id) := by
  have hi := inv_reachable ops
  generalize run St.init ops = s at hi ⊢
  refine ⟨?_, hi.ids, hi.last, ?_⟩
  · rw [List.pairwise_map, List.pairwise_iff_getElem]
    intro i j hi' hj hij
    rw [hi.ids i hi', hi.ids j hj]; omega
  · intro now picks sn h old hold
    obtain ⟨i, hlt, rfl⟩ := List.mem_iff_getElem.mp hold
    have hs : sn.id = s.lastId + 1 := by
      rw [(build_some h).2.2.2]
    rw [hs, hi.ids i hlt, hi.last]; omega

/-- **current_is_max** ("the current snapshot is the one with the highest id"). In every reachable
state: no snapshot stored ⇒ no current snapshot; otherwise the current snapshot exists, is the
stored record with the highest id (the last one stored), and every stored id is at most its id. -/
theorem current_is_max (ops : List Op) :
    ((run St.init ops).snaps = [] → current (run St.init ops) = none) ∧
    (∀ h : (run St.init ops).snaps ≠ [],
        current (run St.init ops) = some ((run St.init ops).snaps.getLast h)) ∧
    (∀ c, current (run St.init ops) = some c →
        c ∈ (run St.init ops).snaps ∧ ∀ sn ∈ (run St.init ops).snaps, sn.id ≤ c.id) := by
  have hi := inv_reachable ops
  generalize run St.init ops = s at hi ⊢
  have hlast : ∀ h : s.snaps ≠ [], current s = some (s.snaps.getLast h) := by
    intro h
    have hpos : 0 < s.snaps.length := List.length_pos_iff.mpr h
    have hf := find_by_pos hi.ids (s.snaps.length - 1) (by omega)
    unfold current findSnapshot
    rw [hi.last]
    have e : s.snaps.length - 1 + 1 = s.snaps.length := by omega
    rw [e] at hf
    rw [hf, List.getLast_eq_getElem]
  refine ⟨?_, hlast, ?_⟩
  · intro h
    unfold current findSnapshot
    rw [h]; rfl
  · intro c hc
    refine ⟨current_mem hc, ?_⟩
    intro sn hsn
    have hne : s.snaps ≠ [] := List.ne_nil_of_mem hsn
    have hpos : 0 < s.snaps.length := List.length_pos_iff.mpr hne
    have := hlast hne
    rw [this] at hc
    have hc' := (Option.some.inj hc).symm
    obtain ⟨i, hlt, rfl⟩ := List.mem_iff_getElem.mp hsn
    rw [hc', List.getLast_eq_getElem, hi.ids i hlt, hi.ids _ (by omega)]
    omega

/-- **stored_immutable** ("a stored snapshot never changes except that chains can be added to
the list of chains where it is live"). Take any reachable state and any snapshot `sn` stored in
it; after ANY further sequence of operations, looking the id up (`FindSnapshotByID`) yields a
record with the same id, validators, shares, accounts, total and creation time whose chain list
has `sn.chains` as a prefix. -/
theorem stored_immutable (ops0 ops : List Op) (sn : Snapshot) (h : sn ∈ (run St.init ops0).snaps) :
    ∃ sn', findSnapshot (run (run St.init ops0) ops) sn.id = some sn' ∧
      sn'.id = sn.id ∧ sn'.vals = sn.vals ∧ sn'.total = sn.total ∧ sn'.createdAt = sn.createdAt ∧
      sn.chains <+: sn'.chains := by
  have hi := inv_reachable ops0
  generalize run St.init ops0 = s at h hi ⊢
  have hi' := inv_run ops hi
  have hext := run_snapsExtend ops hi
  obtain ⟨i, hlt, rfl⟩ := List.mem_iff_getElem.mp h
  have hlt' : i < (run s ops).snaps.length := Nat.lt_of_lt_of_le hlt hext.1
  refine ⟨(run s ops).snaps[i], ?_, hext.2 i hlt hlt'⟩
  unfold findSnapshot
  rw [hi.ids i hlt]
  exact find_by_pos hi'.ids i hlt'

/-- **stored_immutable, store level.** No operation ever removes or reorders stored snapshots. -/
theorem store_only_grows (ops0 ops : List Op) :
    (run St.init ops0).snaps.length ≤ (run (run St.init ops0) ops).snaps.length :=
  (run_snapsExtend ops (inv_reachable ops0)).1

/-- **stored_immutable, no retention limit** (the clause over ARBITRARILY LONG histories: the model has
no bound on the number or the age of stored snapshots). In every reachable state `FindSnapshotByID`
finds exactly the ids ever issued, `1 … lastId`, however many builds lie between the build that
stored an id and the lookup. -/
theorem every_issued_id_stays_stored (ops : List Op) (id : Nat) :
    (findSnapshot (run St.init ops) id).isSome = true ↔ 1 ≤ id ∧ id ≤ (run St.init ops).lastId := by
  have hi := inv_reachable ops
  generalize run St.init ops = s at hi ⊢
  constructor
  · intro h
    by_cases hr : 1 ≤ id ∧ id ≤ s.lastId
    · exact hr
    · have : findSnapshot s id = none :=
        find_none_of_ids hi.ids id (by rw [hi.last] at hr; omega)
      rw [this] at h; simp at h
  · rintro ⟨h1, h2⟩
    have := find_by_pos hi.ids (id - 1) (by rw [hi.last] at h2; omega)
    have e : id - 1 + 1 = id := by omega
    rw [e] at this
    unfold findSnapshot; rw [this]; rfl

/-- **stored_immutable, the live record of a chain.** Once `GetLatestSnapshotOnChain c` answers with a
snapshot, it keeps answering after ANY further sequence of operations, with a snapshot that is live
on `c` and whose id is at least as high (the record of where a snapshot is live is never lost, so
the just-in-time update always finds the valset the remote chain holds). -/
theorem live_record_stays (ops0 ops : List Op) (c : Nat) (sn : Snapshot)
    (h : latestOnChain (run St.init ops0) c = some sn) :
    ∃ sn', latestOnChain (run (run St.init ops0) ops) c = some sn' ∧ sn.id ≤ sn'.id ∧ c ∈ sn'.chains := by
  have hmem : sn ∈ (run St.init ops0).snaps := by
    have := List.mem_of_find?_eq_some h
    simpa using this
  have hc : c ∈ sn.chains := by
    have := List.find?_some h
    simpa using this
  obtain ⟨sn2, hf, hid, _, _, _, hpre⟩ := stored_immutable ops0 ops sn hmem
  have hids := (ids_strictly_increase (ops0 ++ ops)).1
  rw [run_append] at hids
  generalize run (run St.init ops0) ops = s' at hf hids ⊢
  have hmem2 : sn2 ∈ s'.snaps := List.mem_of_find?_eq_some hf
  have hc2 : c ∈ sn2.chains := hpre.subset hc
  unfold latestOnChain
  cases hfind : s'.snaps.reverse.find? (fun sn => sn.chains.contains c) with
  | none =>
    rw [List.find?_eq_none] at hfind
    have := hfind sn2 (by simpa using hmem2)
    simp [hc2] at this
  | some sn' =>
    refine ⟨sn', rfl, ?_, by simpa using List.find?_some hfind⟩
    obtain ⟨_, as, bs, hl, has⟩ := List.find?_eq_some_iff_append.mp hfind
    have hs : s'.snaps = bs.reverse ++ sn' :: as.reverse := by
      have := congrArg List.reverse hl
      simpa using this
    rw [hs] at hmem2 hids
    rw [← hid]
    rcases List.mem_append.mp hmem2 with hb | hb
    · rw [List.map_append, List.pairwise_append] at hids
      exact Nat.le_of_lt (hids.2.2 _ (List.mem_map_of_mem hb) _ (by simp))
    · rcases List.mem_cons.mp hb with rfl | ha
      · exact Nat.le_refl _
      · have := has sn2 (by simpa using ha)
        simp [hc2] at this

/-! ### Part 3 — the validator set of one chain -/

/-- **power_spec** ("stake fraction scaled to 2^32 and rounded down"): for a positive total the
power is THE floor of `share · 2^32 / total` — two-sided: `p·T ≤ share·2^32 < (p+1)·T` — and for a
zero total it is 0 by the explicit branch of the code (`if totalPower.Sign() > 0`), not by `x/0`. -/
theorem power_spec (share total : Nat) :
    (0 < total → power share total = share * 2 ^ 32 / total ∧
      power share total * total ≤ share * 2 ^ 32 ∧ share * 2 ^ 32 < (power share total + 1) * total) ∧
    (total = 0 → power share total = 0) :=
  ⟨fun h => ⟨power_pos_total h, power_floor_spec h⟩, fun h => by rw [h]; exact power_zero_total _⟩

/-- **powers_floor** ("each with its stake fraction scaled to 2^32 and rounded down as power").
Every entry of the valset for `chain` is the remote address of the first EVM account on `chain`
of a snapshot validator, and its power is `power share (Σ shares)`, i.e. (see `power_spec`) the
two-sided floor of `share · 2^32 / Σ shares` when `Σ shares > 0` and 0 when `Σ shares = 0`. -/
theorem powers_floor (snap : Snapshot) (chain : Nat) (m : Nat × Nat)
    (h : m ∈ (transform snap chain).members) :
    ∃ v ∈ snap.vals, ∃ a ∈ v.accts, isEvm a.ctype = true ∧ a.chain = chain ∧
      (v.accts.filter (fun a => isEvm a.ctype && a.chain == chain)).head? = some a ∧
      m.1 = a.addr ∧ m.2 = power v.share (snap.vals.map (·.share)).sum ∧
      ((snap.vals.map (·.share)).sum = 0 → m.2 = 0) ∧
      (0 < (snap.vals.map (·.share)).sum →
        m.2 = v.share * 2 ^ 32 / (snap.vals.map (·.share)).sum ∧
        m.2 * (snap.vals.map (·.share)).sum ≤ v.share * 2 ^ 32 ∧
        v.share * 2 ^ 32 < (m.2 + 1) * (snap.vals.map (·.share)).sum) := by
  have hm := (transform_members_perm snap chain).mem_iff.mp h
  obtain ⟨v, hv, hmv⟩ := List.mem_flatMap.mp hm
  obtain ⟨a, ha, rfl⟩ := mem_membersOf.mp hmv
  obtain ⟨h1, h2, h3⟩ := head_matching ha
  exact ⟨v, hv, a, h1, h2, h3, ha, rfl, rfl, (power_spec _ _).2, (power_spec _ _).1⟩

/-- **restricted_to_chain** ("that snapshot restricted to validators with an account there" — in
the reading of `transformSnapshotToCompass`: an account there is an EVM-TYPED account whose chain
reference id is `chain`; clause 1 / `ValidatorSupportsAllChains` counts accounts of ANY chain type:
the uniform reading is refuted by `sent_restricted_any_account_violated`, and proved under the
input assumption `RegsEvmTyped` by `restricted_any_account` / `sent_restricted_any_account`).
The valset for `chain` is, up to order, the list obtained by walking the snapshot validators and
emitting ONE entry — address of the first EVM account on `chain`, floored power — for every
validator that has such an account and nothing for the others; so it has exactly as many entries
as there are validators with an account there; the entries are ordered by non-increasing power;
the valset carries the snapshot's id. -/
theorem restricted_to_chain (snap : Snapshot) (chain : Nat) :
    (transform snap chain).id = snap.id ∧
    (transform snap chain).members.Perm
      (snap.vals.flatMap (fun v =>
        ((v.accts.filter (fun a => isEvm a.ctype && a.chain == chain)).take 1).map
          (fun a => (a.addr, power v.share (snap.vals.map (·.share)).sum)))) ∧
    (transform snap chain).members.length =
      (snap.vals.filter (fun v => v.accts.any (fun a => isEvm a.ctype && a.chain == chain))).length ∧
    (∀ addr, addr ∈ (transform snap chain).members.map (·.1) ↔
      ∃ v ∈ snap.vals, ∃ a,
        (v.accts.filter (fun a => isEvm a.ctype && a.chain == chain)).head? = some a ∧ a.addr = addr) ∧
    ((transform snap chain).members.map (·.2)).Pairwise (· ≥ ·) := by
  refine ⟨rfl, transform_members_perm snap chain, ?_, ?_, ?_⟩
  · rw [(transform_members_perm snap chain).length_eq]
    generalize sumShares snap.vals = total
    induction snap.vals with
    | nil => simp
    | cons v vs ih =>
      simp only [List.flatMap_cons, List.length_append, ih, List.filter_cons]
      have hl : (membersOf chain total v).length =
          if v.accts.any (fun a => isEvm a.ctype && a.chain == chain) then 1 else 0 := by
        unfold membersOf chosen matching
        simp only [List.length_map, List.length_take]
        cases hf : v.accts.filter (fun a => isEvm a.ctype && a.chain == chain) with
        | nil =>
          have : v.accts.any (fun a => isEvm a.ctype && a.chain == chain) = false := by
            rw [List.any_eq_false]
            intro a ha hp
            have : a ∈ v.accts.filter (fun a => isEvm a.ctype && a.chain == chain) :=
              List.mem_filter.mpr ⟨ha, hp⟩
            rw [hf] at this; simp at this
          simp [this]
        | cons x xs =>
          have hx : x ∈ v.accts.filter (fun a => isEvm a.ctype && a.chain == chain) := by
            rw [hf]; simp
          have : v.accts.any (fun a => isEvm a.ctype && a.chain == chain) = true :=
            List.any_eq_true.mpr ⟨x, (List.mem_filter.mp hx).1, (List.mem_filter.mp hx).2⟩
          simp [this]
      rw [hl]
      split <;> simp <;> omega
  · intro addr
    simp only [List.mem_map]
    constructor
    · rintro ⟨m, hm, rfl⟩
      obtain ⟨v, hv, a, _, _, _, hh, h3, _⟩ := powers_floor snap chain m hm
      exact ⟨v, hv, a, hh, h3.symm⟩
    · rintro ⟨v, hv, a, hh, rfl⟩
      refine ⟨(a.addr, power v.share (sumShares snap.vals)), ?_, rfl⟩
      apply (transform_members_perm snap chain).mem_iff.mpr
      exact List.mem_flatMap.mpr ⟨v, hv, mem_membersOf.mpr ⟨a, hh, rfl⟩⟩
  · -- order: the validators are walked by non-increasing share and power is monotone in the share
    unfold transform
    simp only
    generalize sumShares (sortDesc snap.vals) = total
    have hd := sortDesc_desc snap.vals
    generalize sortDesc snap.vals = l at hd
    induction l with
    | nil => simp
    | cons v vs ih =>
      have hv := List.pairwise_cons.mp hd
      simp only [List.flatMap_cons, List.map_append]
      rw [List.pairwise_append]
      refine ⟨?_, ih hv.2, ?_⟩
      · unfold membersOf
        simp only [List.map_map]
        rw [List.pairwise_map]
        exact List.pairwise_iff_getElem.mpr (fun _ _ _ _ _ => Nat.le_refl _)
      · intro p hp q hq
        obtain ⟨m, hm, rfl⟩ := List.mem_map.mp hp
        obtain ⟨m', hm', rfl⟩ := List.mem_map.mp hq
        obtain ⟨a, _, rfl⟩ := mem_membersOf.mp hm
        obtain ⟨w, hw, hmw⟩ := List.mem_flatMap.mp hm'
        obtain ⟨b, _, rfl⟩ := mem_membersOf.mp hmw
        exact power_mono _ _ _ (hv.1 w hw)

/-- **restricted_any_account** ("restricted to validators with an account there", with the SAME
notion of account as clause 1: any account whose chain reference id is `chain`). HYPOTHESIS: all
accounts recorded in the snapshot are EVM-typed (for stored snapshots this follows from the input
assumption `RegsEvmTyped`: `stored_accts_evm`). Then the valset is, up to order, one entry — first
account on `chain`, floored power — per validator that has ANY account on `chain`; it has as many
entries as there are such validators; each such validator has its entry; every entry belongs to
such a validator. -/
theorem restricted_any_account (snap : Snapshot) (chain : Nat)
    (hev : ∀ v ∈ snap.vals, ∀ x ∈ v.accts, isEvm x.ctype = true) :
    (transform snap chain).members.length =
      (snap.vals.filter (fun v => v.accts.any (fun a => a.chain == chain))).length ∧
    (∀ v ∈ snap.vals, (∃ a ∈ v.accts, a.chain = chain) →
      ∃ a, (v.accts.filter (fun a => a.chain == chain)).head? = some a ∧
        (a.addr, power v.share (snap.vals.map (·.share)).sum) ∈ (transform snap chain).members) ∧
    (∀ m ∈ (transform snap chain).members, ∃ v ∈ snap.vals, ∃ a,
      (v.accts.filter (fun a => a.chain == chain)).head? = some a ∧ a.chain = chain ∧
        m = (a.addr, power v.share (snap.vals.map (·.share)).sum)) := by
  refine ⟨?_, ?_, ?_⟩
  · rw [(restricted_to_chain snap chain).2.2.1]
    congr 1
    apply List.filter_congr
    intro v hv
    exact any_matching_of_evm _ (hev v hv)
  · intro v hv ⟨a, ha, hc⟩
    obtain ⟨b, hb⟩ := head?_filter_of_mem (q := fun a => a.chain == chain) ha (by simp [hc])
    refine ⟨b, hb, ?_⟩
    apply (transform_members_perm snap chain).mem_iff.mpr
    refine List.mem_flatMap.mpr ⟨v, hv, mem_membersOf.mpr ⟨b, ?_, rfl⟩⟩
    rw [matching_of_evm (hev v hv)]; exact hb
  · intro m hm
    have hm' := (transform_members_perm snap chain).mem_iff.mp hm
    obtain ⟨v, hv, hmv⟩ := List.mem_flatMap.mp hm'
    obtain ⟨a, ha, rfl⟩ := mem_membersOf.mp hmv
    refine ⟨v, hv, a, ?_, (head_matching ha).2.2, rfl⟩
    rw [← matching_of_evm (hev v hv)]; exact ha

/-- **powers_sum_le** ("so powers sum to at most 2^32"). For EVERY snapshot and chain the powers
of the valset sum to at most `2^32` (also when the total stake is 0: all powers are then 0, and
also when validators registered several accounts on the chain: each is listed once). -/
theorem powers_sum_le (snap : Snapshot) (chain : Nat) :
    ((transform snap chain).members.map (·.2)).sum ≤ 2 ^ 32 := by
  have := powerSum_transform snap chain
  unfold powerSum at this
  rw [this]
  have h1 : ∀ (l : List Val) (total : Nat),
      (l.map (fun v => (chosen chain v).length * power v.share total)).sum ≤
        (l.map (fun v => power v.share total)).sum := by
    intro l total
    induction l with
    | nil => simp
    | cons v vs ih =>
      simp only [List.map_cons, List.sum_cons]
      have hv : (chosen chain v).length ≤ 1 := chosen_length_le chain v
      have : (chosen chain v).length * power v.share total ≤ power v.share total := by
        have := Nat.mul_le_mul_right (power v.share total) hv
        simpa using this
      omega
  have h1 := h1 snap.vals (sumShares snap.vals)
  have h2 := sum_power_le (snap.vals.map (·.share)) (sumShares snap.vals)
  rw [List.map_map] at h2
  have h3 : power (snap.vals.map (·.share)).sum (sumShares snap.vals) ≤ maxPower :=
    power_le_max _ _ (Nat.le_refl _)
  have e : (snap.vals.map ((fun a => power a (sumShares snap.vals)) ∘ (·.share))) =
      snap.vals.map (fun v => power v.share (sumShares snap.vals)) := rfl
  rw [e] at h2
  exact Nat.le_trans h1 (Nat.le_trans h2 h3)

/-- **powers_sum_le, arithmetic core**: for any shares that sum to at most a positive divisor, the
floored powers sum to at most `2^32`. -/
theorem powers_sum_le_of_shares (shares : List Nat) (total : Nat) (h0 : 0 < total)
    (h : shares.sum ≤ total) :
    (shares.map (fun a => a * 2 ^ 32 / total)).sum ≤ 2 ^ 32 := by
  have e : (fun a => a * 2 ^ 32 / total) = fun a => power a total :=
    funext (fun a => (power_pos_total h0).symm)
  rw [e]
  exact Nat.le_trans (sum_power_le shares total) (power_le_max _ _ h)

/-- every single power fits: at most `2^32` (so `power.Uint64()` in the Go code is exact) -/
theorem member_power_le (snap : Snapshot) (chain : Nat) (m : Nat × Nat)
    (h : m ∈ (transform snap chain).members) : m.2 ≤ 2 ^ 32 := by
  have hs := powers_sum_le snap chain
  have : m.2 ∈ (transform snap chain).members.map (·.2) := List.mem_map.mpr ⟨m, h, rfl⟩
  exact Nat.le_trans (mem_le_sum _ _ this) hs

/-- the valset as the PINNED tree built it (before repo fix 8962e1ca): one entry per matching
account, so a validator with two EVM accounts on the chain was listed — and counted — twice -/
def transformPinned (snap : Snapshot) (chain : Nat) : Valset :=
  { id := snap.id,
    members := (sortDesc snap.vals).flatMap (fun v =>
      (matching chain v).map (fun a => (a.addr, power v.share (sumShares (sortDesc snap.vals))))) }

/-- **negation witness for the pinned tree**: with that construction the powers of a one-validator
snapshot sum to `2^33 > 2^32`; the fixed construction lists the validator once. -/
theorem pinned_double_counts :
    powerSum (transformPinned ⟨7, [⟨1, 5, [⟨0, 1, 11, []⟩, ⟨1, 1, 12, []⟩]⟩], 5, 0, []⟩ 1) = 2 ^ 33 ∧
    (transform ⟨7, [⟨1, 5, [⟨0, 1, 11, []⟩, ⟨1, 1, 12, []⟩]⟩], 5, 0, []⟩ 1).members = [(11, 2 ^ 32)] := by
  decide

/-- where both constructions agree: no validator has two EVM accounts on the chain -/
theorem transformPinned_eq (snap : Snapshot) (chain : Nat)
    (h : ∀ v ∈ snap.vals, (matching chain v).length ≤ 1) : transformPinned snap chain = transform snap chain := by
  unfold transformPinned transform
  have key : ∀ (l : List Val) (total : Nat), (∀ v ∈ l, (matching chain v).length ≤ 1) →
      l.flatMap (fun v => (matching chain v).map (fun a => (a.addr, power v.share total))) =
        l.flatMap (membersOf chain total) := by
    intro l total hl
    induction l with
    | nil => rfl
    | cons v vs ih =>
      simp only [List.flatMap_cons]
      rw [ih (fun w hw => hl w (by simp [hw]))]
      unfold membersOf chosen
      rw [List.take_of_length_le (hl v (by simp))]
  rw [key _ _ (fun v hv => h v (mem_sortDesc.mp hv))]

/-! ### Part 4 — what is sent, and when -/

/-- two bonded validators with stakes 2:1, a jailed unbonding one; chain 1 is added, activated,
validator 1 registers an EVM account there, validator 2 an account of another chain type -/
def exStaking : List SVal :=
  [⟨1, .bonded, false, 2000000⟩, ⟨2, .bonded, false, 1000000⟩, ⟨3, .unbonding, true, 5⟩, ⟨4, .bonded, true, 7⟩]

def exOps : List Op :=
  [.setStaking exStaking, .build 10 [], .support 1, .activate 1,
   .register 1 [⟨0, 1, 101, []⟩], .register 2 [⟨2, 1, 102, [7]⟩], .register 3 [⟨0, 1, 103, []⟩],
   .build 20 [1]]

/-- **sent_is_current** ("the validator set sent to a remote chain is THAT snapshot restricted …" —
that snapshot = the current one at send time). Over all histories, for every position `i` of the
log of sent messages: the history splits as `pre ++ op :: post` such that the message was appended
by `op` (the log had at most `i` entries before `op` and holds the message at position `i` right
after it) and — `SentAt` — with `s` = the state before `op`: the message is `transform cur chain`
where `cur` is the CURRENT snapshot right after `op`; `op` is either a `build` that returned `cur`
(the snapshot it has just stored) or a just-in-time update for that chain with `cur` already
current before; the valset passed the quorum test; the chain is supported and active; and the
message is pending in the chain's queue right after `op`. -/
theorem sent_is_current (ops : List Op) (i : Nat) (p : Nat × Valset)
    (h : (run St.init ops).sent[i]? = some p) :
    ∃ pre op post, ops = pre ++ op :: post ∧
      (run St.init pre).sent.length ≤ i ∧
      (run St.init (pre ++ [op])).sent[i]? = some p ∧
      (run St.init (pre ++ [op])).sent <+: (run St.init ops).sent ∧
      SentAt (run St.init pre) op p := by
  revert i p
  induction ops using snoc_induction with
  | h0 => intro i p h; simp [run, St.init] at h
  | hs l a ih =>
    intro i p h
    obtain ⟨news, hn, hnews⟩ := step_sent (inv_reachable l) a
    rw [run_snoc, hn] at h
    by_cases hlt : i < (run St.init l).sent.length
    · rw [List.getElem?_append_left hlt] at h
      obtain ⟨pre, op, post, rfl, h1, h2, h3, h4⟩ := ih i p h
      refine ⟨pre, op, post ++ [a], by simp, h1, h2, ?_, h4⟩
      have e : pre ++ op :: post ++ [a] = (pre ++ [op]) ++ (post ++ [a]) := by simp
      have := run_sent_prefix (post ++ [a]) (inv_reachable (pre ++ [op]))
      rw [← run_append] at this
      rw [e]; exact this
    · have hle : (run St.init l).sent.length ≤ i := Nat.le_of_not_lt hlt
      rw [List.getElem?_append_right hle] at h
      refine ⟨l, a, [], rfl, hle, ?_, List.prefix_refl _, hnews p (List.mem_of_getElem? h)⟩
      rw [run_snoc, hn, List.getElem?_append_right hle]; exact h

/-- the log of a prefix of the history is a prefix of the log: the ghost log `sent` is append-only -/
theorem sent_append_only (pre post : List Op) :
    (run St.init pre).sent <+: (run St.init (pre ++ post)).sent := by
  rw [run_append]; exact run_sent_prefix _ (inv_reachable _)

/-- **the ghost log is tied to the executable state**: every message pending in a queue is in the
log (so every statement about `sent` holds for the queues that `GetMessagesFromQueue` shows), and
every logged message was appended by a `build` / just-in-time update of the history as the valset
of the then-current snapshot (membership form of `sent_is_current`). -/
theorem queue_is_sent_current (ops : List Op) :
    (∀ p ∈ (run St.init ops).queue, p ∈ (run St.init ops).sent) ∧
    (∀ p ∈ visibleQueue (run St.init ops), p ∈ (run St.init ops).sent) ∧
    (∀ p ∈ (run St.init ops).sent, ∃ pre op post, ops = pre ++ op :: post ∧
        p ∈ (run St.init (pre ++ [op])).sent ∧ SentAt (run St.init pre) op p) := by
  refine ⟨(inv_reachable ops).queueSub, ?_, ?_⟩
  · intro p hp
    exact (inv_reachable ops).queueSub p (List.mem_filter.mp hp).1
  · intro p hp
    obtain ⟨i, hi⟩ := List.mem_iff_getElem?.mp hp
    obtain ⟨pre, op, post, h1, _, h3, _, h5⟩ := sent_is_current ops i p hi
    exact ⟨pre, op, post, h1, List.mem_of_getElem? h3, h5⟩

/-- the quorum test itself: passing it means `Σ powers ≥ 2863311530` (the sum is a uint64) -/
theorem enough_iff (v : Valset) : enough v = true ↔ 2863311530 ≤ (v.members.map (·.2)).sum % 2 ^ 64 := by
  unfold enough powerSum thresholdForConsensus
  simp

/-- for a valset built from a snapshot the uint64 sum cannot wrap: the test is exactly
`Σ powers ≥ 2863311530` -/
theorem enough_transform_iff (snap : Snapshot) (chain : Nat) :
    enough (transform snap chain) = true ↔
      2863311530 ≤ ((transform snap chain).members.map (·.2)).sum := by
  rw [enough_iff, Nat.mod_eq_of_lt]
  exact Nat.lt_of_le_of_lt (powers_sum_le snap chain) (by decide)

/-- **the constant is NOT two thirds of 2^32**: a power sum of exactly `2863311530` passes the
test although `3 · sum < 2 · 2^32`. -/
theorem threshold_below_two_thirds : ¬ (3 * thresholdForConsensus ≥ 2 * 2 ^ 32) := by decide

/-- one more unit would be two thirds -/
theorem threshold_succ_is_two_thirds : 3 * (thresholdForConsensus + 1) ≥ 2 * 2 ^ 32 := by decide

theorem threshold_is_floor : thresholdForConsensus = 2 * 2 ^ 32 / 3 := by decide

/- FULL-STRENGTH CLAUSE ("it is only sent when those powers sum to at least two thirds of 2^32"):

     theorem sent_only_with_two_thirds (ops : List Op) :
         ∀ p ∈ (run St.init ops).sent, 3 * (p.2.members.map (·.2)).sum ≥ 2 * 2 ^ 32

   It is FALSE — for the model and for /repo (`thresholdForConsensus = 2_863_311_530`,
   x/evm/keeper/keeper.go; known finding C10-threshold-floor, reproduced on the real keeper by
   TestC10, monitor `sent_only_with_quorum`, key `sum=2863311530`). The negation is proved next
   with a concrete reachable history; the best true statement is `sent_only_with_quorum_partial`. -/

/-- **sent_two_thirds_violated — the clause "at least two thirds of 2^32" is VIOLATED**: the
history `exOps` (stakes 2:1, the small validator has no EVM account on chain 1) sends a valset
whose powers sum to 2863311530, and `3 · 2863311530 = 2 · 2^32 − 2 < 2 · 2^32`. -/
theorem sent_two_thirds_violated :
    ¬ ∀ ops : List Op, ∀ p ∈ (run St.init ops).sent,
        3 * (p.2.members.map (·.2)).sum ≥ 2 * 2 ^ 32 := by
  intro h
  have := h exOps (1, ⟨2, [(101, 2863311530)]⟩) (by decide)
  revert this
  decide

/-- **sent_only_with_quorum_partial** (the part of "only sent when the powers sum to at least two
thirds of 2^32" that is TRUE; the full clause is refuted by `sent_two_thirds_violated`). Over all
histories every UpdateValset message ever put into a queue (`sent`; hence every message pending in
a queue) passed `isEnoughToReachConsensus`, so its powers sum to at least
`⌊2·2^32/3⌋ = 2863311530`; that is at most 2/3 of a unit short of two thirds (`3Σ + 2 ≥ 2·2^32`),
and two thirds is reached in every case except `Σ = 2863311530` exactly. It is the valset of a
stored snapshot for the chain whose queue it is in (`sent_is_current`: of the current one at send
time). -/
theorem sent_only_with_quorum_partial (ops : List Op) :
    (∀ p ∈ (run St.init ops).sent,
        enough p.2 = true ∧
        2 * 2 ^ 32 / 3 ≤ (p.2.members.map (·.2)).sum ∧
        2 * 2 ^ 32 ≤ 3 * (p.2.members.map (·.2)).sum + 2 ∧
        (2 * 2 ^ 32 ≤ 3 * (p.2.members.map (·.2)).sum ∨ (p.2.members.map (·.2)).sum = 2863311530) ∧
        ∃ sn ∈ (run St.init ops).snaps, p.2 = transform sn p.1) ∧
    (∀ p ∈ (run St.init ops).queue, p ∈ (run St.init ops).sent) := by
  refine ⟨?_, (inv_reachable ops).queueSub⟩
  intro p hp
  obtain ⟨hq, hsn⟩ := (inv_reachable ops).sentOk p hp
  obtain ⟨_, _, _, _, _, cur, _, _, hen, _⟩ := (queue_is_sent_current ops).2.2 p hp
  have hq' : 2863311530 ≤ (p.2.members.map (·.2)).sum := hq
  refine ⟨hen, ?_, ?_, ?_, hsn⟩
  · have : 2 * 2 ^ 32 / 3 = 2863311530 := by decide
    omega
  · omega
  · omega

/-- consequence for sent valsets: at most two thirds of a unit short of `2/3 · 2^32` -/
theorem sent_quorum_gap (ops : List Op) (p : Nat × Valset) (h : p ∈ (run St.init ops).sent) :
    3 * (p.2.members.map (·.2)).sum + 2 ≥ 2 * 2 ^ 32 :=
  ((sent_only_with_quorum_partial ops).1 p h).2.2.1

/-- **below_quorum_not_sent** (the rejecting branch of the gate, both entry points): a valset that
fails the test is not sent by `PublishValsetToChain`, and a just-in-time update whose valset fails
the test leaves the state — queue and log included — unchanged. -/
theorem below_quorum_not_sent (s : St) :
    (∀ ci v pick, enough v = false → publishValset s ci v pick = s) ∧
    (∀ c pick cur, current s = some cur → enough (transform cur c) = false → (jit s c pick).1 = s) := by
  constructor
  · intro ci v pick h
    unfold publishValset
    split
    · rfl
    · simp [h]
  · intro c pick cur hc h
    unfold jit
    split
    · rfl
    · rfl
    · rfl
    · rename_i ci cur' pub _ hcur _
      have : cur' = cur := Option.some.inj (hcur.symm.trans hc)
      subst this
      split
      · rfl
      · split
        · rfl
        · simp [h]

/-- **powers_sum_le over histories.** Every valset ever sent, in every history, has powers
summing to at most `2^32` (and at least the quorum constant, see above). -/
theorem sent_sum_le (ops : List Op) :
    ∀ p ∈ (run St.init ops).sent, (p.2.members.map (·.2)).sum ≤ 2 ^ 32 := by
  intro p hp
  obtain ⟨_, sn, _, he⟩ := (inv_reachable ops).sentOk p hp
  rw [he]
  exact powers_sum_le sn p.1

/-- **jit_sends_only_with_quorum** (the gate of `justInTimeValsetUpdate`, in ANY state, for both
answers of the relayer assignment): a just-in-time update either leaves the whole state — queue and
log included — unchanged, or the chain is supported and ACTIVE, a snapshot other than the current
one is live on it, the valset of the CURRENT snapshot for that chain passes the quorum test (its
powers sum to at least the constant) and exactly that valset is handed to `SendValsetMsgForChain`.
In particular a restriction that is non-empty but below the quorum is never sent
(`jit_below_quorum_not_sent`). -/
theorem jit_sends_only_with_quorum (s : St) (c : Nat) (pick : Bool) :
    (jit s c pick).1 = s ∨
    ∃ ci cur pub, findChain s c = some ci ∧ ci.active = true ∧ current s = some cur ∧
      latestOnChain s c = some pub ∧ pub.id ≠ cur.id ∧ pick = true ∧
      enough (transform cur c) = true ∧ thresholdForConsensus ≤ powerSum (transform cur c) ∧
      (jit s c pick).1 = send s c (transform cur c) := by
  unfold jit
  split
  · exact .inl rfl
  · exact .inl rfl
  · exact .inl rfl
  · rename_i ci cur pub hci hcur hpub
    by_cases h1 : (pub.id == cur.id) = true
    · simp [h1]
    · by_cases h2 : ci.active = true
      · by_cases h3 : enough (transform cur c) = true
        · cases pick
          · simp [h1, h2, h3]
          · refine .inr ⟨ci, cur, pub, hci, h2, hcur, hpub, ?_, rfl, h3, enough_ge h3, ?_⟩
            · simpa using h1
            · simp [h1, h2, h3]
        · simp [h1, h2, h3]
      · simp [h1, h2]

/-- the rejecting side, stated on the powers: when the current snapshot restricted to the chain
sums to less than the constant (empty or not), no entry point of the update changes anything -/
theorem jit_below_quorum_not_sent (s : St) (c : Nat) (pick : Bool) (cur : Snapshot)
    (hc : current s = some cur) (h : powerSum (transform cur c) < thresholdForConsensus) :
    (jit s c pick).1 = s ∧ jitBus s c pick = s ∧ (jitEndBlock s c pick).1 = s := by
  have hj : (jit s c pick).1 = s := by
    rcases jit_sends_only_with_quorum s c pick with h0 | ⟨_, cur', _, _, _, hc', _, _, _, _, hge, _⟩
    · exact h0
    · have : cur' = cur := Option.some.inj (hc'.symm.trans hc)
      subst this
      omega
  refine ⟨hj, hj, ?_⟩
  unfold jitEndBlock
  split
  · rfl
  · split
    · rfl
    · exact hj

/-- the skyway event and the end blocker run the SAME update as `PreJobExecution`: the event is
the op `jit`; the end blocker does nothing (chain not supported, or an UpdateValset message already
waits in the queue) or is the op `jit` -/
theorem entry_points_are_jit (s : St) (c : Nat) (pick : Bool) :
    jitBus s c pick = step s (.jit c pick) ∧
    ((jitEndBlock s c pick).1 = s ∨
      (hasQueuedValset s c = false ∧ (jitEndBlock s c pick).1 = step s (.jit c pick))) := by
  refine ⟨rfl, ?_⟩
  unfold jitEndBlock
  split
  · exact .inl rfl
  · by_cases hq : hasQueuedValset s c = true
    · simp [hq]
    · refine .inr ⟨by simpa using hq, ?_⟩
      simp [hq, step]

/-- histories that also use the other two entry points of the just-in-time update -/
inductive XOp where
  | op (o : Op)
  | jitBus (c : Nat) (pick : Bool)
  | jitEndBlock (c : Nat) (pick : Bool)

def xstep (s : St) : XOp → St
  | .op o => step s o
  | .jitBus c pick => jitBus s c pick
  | .jitEndBlock c pick => (jitEndBlock s c pick).1

def xrun (s : St) (xs : List XOp) : St := xs.foldl xstep s

/-- **entry_points_refine**: every history over the extended operations reaches a state that a
history over the plain operations reaches (each extra entry point is no step or one `jit` step), so
every history theorem of this file holds for all three entry points. -/
theorem entry_points_refine (xs : List XOp) (s : St) : ∃ ops : List Op, xrun s xs = run s ops := by
  induction xs generalizing s with
  | nil => exact ⟨[], rfl⟩
  | cons x xs ih =>
    have h1 : ∃ ops1 : List Op, xstep s x = run s ops1 := by
      cases x with
      | op o => exact ⟨[o], rfl⟩
      | jitBus c pick => exact ⟨[.jit c pick], rfl⟩
      | jitEndBlock c pick =>
        rcases (entry_points_are_jit s c pick).2 with h | ⟨_, h⟩
        · exact ⟨[], h⟩
        · exact ⟨[.jit c pick], h⟩
    obtain ⟨ops1, h1⟩ := h1
    obtain ⟨ops2, h2⟩ := ih (xstep s x)
    refine ⟨ops1 ++ ops2, ?_⟩
    rw [run_append, ← h1, ← h2]
    rfl

/-- **sent_only_with_quorum over all entry points**: in every history that uses `PreJobExecution`,
the skyway event and the end blocker in any order, every UpdateValset message ever queued passed
the quorum test, sums to at least `⌊2·2^32/3⌋` and at most `2^32`, reaches two thirds except at the
constant itself, and is the valset of a stored snapshot for its chain. -/
theorem sent_only_with_quorum_all_entry_points (xs : List XOp) :
    ∀ p ∈ (xrun St.init xs).sent,
      enough p.2 = true ∧
      2 * 2 ^ 32 / 3 ≤ (p.2.members.map (·.2)).sum ∧
      (2 * 2 ^ 32 ≤ 3 * (p.2.members.map (·.2)).sum ∨ (p.2.members.map (·.2)).sum = 2863311530) ∧
      (p.2.members.map (·.2)).sum ≤ 2 ^ 32 ∧
      ∃ sn ∈ (xrun St.init xs).snaps, p.2 = transform sn p.1 := by
  obtain ⟨ops, h⟩ := entry_points_refine xs St.init
  rw [h]
  intro p hp
  obtain ⟨h1, h2, _, h4, h5⟩ := (sent_only_with_quorum_partial ops).1 p hp
  exact ⟨h1, h2, h4, sent_sum_le ops p hp, h5⟩

/-- **sent_total_pos** (no `x/0` in anything that is sent; about THE snapshot of
`sent_is_current`). Over all histories, for every position `i` of the log of sent messages there is
the operation `op` of the history that appended the message and the snapshot `cur` that was current
right after `op`, such that: the message is `transform cur chain` (`SentAtCur`: quorum passed, chain
active, pending in the queue, `op` is the build that stored `cur` or a just-in-time update);
`cur` is stored at that point and, in the FINAL state, `FindSnapshotByID cur.id` still yields a
record with the same validators, shares and total; the recorded total of `cur` is the sum of its
shares and is POSITIVE. (A snapshot with total 0 gives all powers 0 and fails the quorum test.) -/
theorem sent_total_pos (ops : List Op) (i : Nat) (p : Nat × Valset)
    (h : (run St.init ops).sent[i]? = some p) :
    ∃ pre op post cur, ops = pre ++ op :: post ∧
      (run St.init pre).sent.length ≤ i ∧
      (run St.init (pre ++ [op])).sent[i]? = some p ∧
      SentAtCur (run St.init pre) op p cur ∧
      cur ∈ (run St.init (pre ++ [op])).snaps ∧
      (∃ sn', findSnapshot (run St.init ops) cur.id = some sn' ∧ sn'.id = cur.id ∧
        sn'.vals = cur.vals ∧ sn'.total = cur.total ∧ cur.chains <+: sn'.chains) ∧
      cur.total = (cur.vals.map (·.share)).sum ∧ 0 < cur.total := by
  obtain ⟨pre, op, post, hops, h1, h2, _, cur, hsa⟩ := sent_is_current ops i p h
  have hcur : current (run St.init (pre ++ [op])) = some cur := by rw [run_snoc]; exact hsa.1
  have hmem : cur ∈ (run St.init (pre ++ [op])).snaps := current_mem hcur
  have htot := (inv_reachable (pre ++ [op])).totals cur hmem
  refine ⟨pre, op, post, cur, hops, h1, h2, hsa, hmem, ?_, htot, ?_⟩
  · obtain ⟨sn', hf, e1, e2, e3, _, e5⟩ := stored_immutable (pre ++ [op]) post cur hmem
    have e : ops = (pre ++ [op]) ++ post := by rw [hops]; simp
    rw [← run_append, ← e] at hf
    exact ⟨sn', hf, e1, e2, e3, e5⟩
  · rcases Nat.eq_zero_or_pos cur.total with h0 | h0
    · exfalso
      have hz : powerSum (transform cur p.1) = 0 := by
        rw [powerSum_transform, ← htot, h0]; exact sum_zero_power _ _
      have hq := enough_ge hsa.2.2.1
      rw [hsa.2.1, hz] at hq
      revert hq; decide
    · exact h0

/-- **powers_floor for what is sent** (THE snapshot of `sent_is_current`, all histories): with
`pre`, `op`, `cur` as in `sent_total_pos`, every entry of the sent valset is the address of the
first EVM account on that chain of a validator of `cur`, and its power `m.2` is the genuine floor of
`share · 2^32 / total` with `total` the RECORDED total of `cur`, which is positive:
`m.2 · total ≤ share · 2^32 < (m.2 + 1) · total`. -/
theorem sent_powers_floor (ops : List Op) (i : Nat) (p : Nat × Valset)
    (h : (run St.init ops).sent[i]? = some p) :
    ∃ pre op post cur, ops = pre ++ op :: post ∧
      (run St.init pre).sent.length ≤ i ∧
      (run St.init (pre ++ [op])).sent[i]? = some p ∧
      SentAtCur (run St.init pre) op p cur ∧ 0 < cur.total ∧
      ∀ m ∈ p.2.members,
        ∃ v ∈ cur.vals, ∃ a ∈ v.accts, isEvm a.ctype = true ∧ a.chain = p.1 ∧
          (v.accts.filter (fun a => isEvm a.ctype && a.chain == p.1)).head? = some a ∧
          m.1 = a.addr ∧ m.2 = v.share * 2 ^ 32 / cur.total ∧
          m.2 * cur.total ≤ v.share * 2 ^ 32 ∧ v.share * 2 ^ 32 < (m.2 + 1) * cur.total := by
  obtain ⟨pre, op, post, cur, hops, h1, h2, hsa, _, _, htot, hpos⟩ := sent_total_pos ops i p h
  refine ⟨pre, op, post, cur, hops, h1, h2, hsa, hpos, ?_⟩
  intro m hm
  rw [hsa.2.1] at hm
  obtain ⟨v, hv, a, ha, e1, e2, e3, e4, _, _, e7⟩ := powers_floor cur p.1 m hm
  rw [← htot] at e7
  exact ⟨v, hv, a, ha, e1, e2, e3, e4, e7 hpos⟩

/-- membership form of the two previous theorems (for callers that have `p ∈ sent`) -/
theorem sent_total_pos_mem (ops : List Op) (p : Nat × Valset) (h : p ∈ (run St.init ops).sent) :
    ∃ pre op post cur, ops = pre ++ op :: post ∧ SentAtCur (run St.init pre) op p cur ∧
      cur.total = (cur.vals.map (·.share)).sum ∧ 0 < cur.total := by
  obtain ⟨i, hi⟩ := List.mem_iff_getElem?.mp h
  obtain ⟨pre, op, post, cur, hops, _, _, hsa, _, _, htot, hpos⟩ := sent_total_pos ops i p hi
  exact ⟨pre, op, post, cur, hops, hsa, htot, hpos⟩

/-! #### "an account there": the two readings -/

/-- state-level consequence of the input assumption `RegsEvmTyped`: every account recorded in
every stored snapshot of every reachable state is EVM-typed -/
theorem stored_accts_evm (ops : List Op) (hreg : RegsEvmTyped ops) :
    (∀ p ∈ (run St.init ops).accts, ∀ x ∈ p.2, isEvm x.ctype = true) ∧
    ∀ sn ∈ (run St.init ops).snaps, ∀ v ∈ sn.vals, ∀ x ∈ v.accts, isEvm x.ctype = true := by
  refine ⟨accts_evm_reachable ops hreg, ?_⟩
  intro sn hsn v hv x hx
  obtain ⟨pre, now, picks, post, hops, _, _, _, _, _, hmem, _, _⟩ := stored_snapshot_exact ops sn hsn
  obtain ⟨sv, _, _, _, _, rfl⟩ := (hmem v).mp hv
  obtain ⟨q, hq, hxq⟩ := mem_acctsOf hx
  exact accts_evm_reachable pre (by rw [hops] at hreg; exact hreg.prefix) q hq x hxq

/- FULL-STRENGTH CLAUSE with ONE notion of "account on a chain" for clause 1 ("validators that have
   an account on every active remote chain") and clause 3 ("restricted to validators with an
   account there"):

     theorem sent_restricted_any_account (ops : List Op) :
         ∀ p ∈ (run St.init ops).sent, ∀ sn ∈ (run St.init ops).snaps, sn.id = p.2.id →
           ∀ v ∈ sn.vals, (∃ a ∈ v.accts, a.chain = p.1) →
             ∃ a ∈ v.accts, a.chain = p.1 ∧ a.addr ∈ p.2.members.map (·.1)

   It is FALSE — for the model and for /repo: `ValidatorSupportsAllChains` compares chain reference
   ids only, `transformSnapshotToCompass` additionally requires `strings.ToLower(chainType) == "evm"`,
   and `SetExternalChainInfoState` stores accounts of any chain type (the harness registers
   "cosmos"-typed accounts on EVM chain ids through the real message server, 0 mismatches). So a
   validator can be IN the snapshot on the strength of an account that can never put it INTO the
   valset. The negation is proved next on `exOps`; with the EVM-typed notion of account it is
   clause 1 that fails instead (`snapshot_evm_account_reading_violated`). What holds:
   `restricted_to_chain` (EVM-typed accounts, no assumption) and `sent_restricted_any_account`
   (any account, under the input assumption `RegsEvmTyped`). -/

/-- **sent_restricted_any_account_violated**: in `exOps` validator 2 (stake 1000000) is in the
current snapshot 2 with an account on chain 1 (chain type "cosmos"), and the valset sent to chain 1
for snapshot 2 has no entry for it. -/
theorem sent_restricted_any_account_violated :
    ¬ ∀ ops : List Op, ∀ p ∈ (run St.init ops).sent, ∀ sn ∈ (run St.init ops).snaps,
        sn.id = p.2.id → ∀ v ∈ sn.vals, (∃ a ∈ v.accts, a.chain = p.1) →
          ∃ a ∈ v.accts, a.chain = p.1 ∧ a.addr ∈ p.2.members.map (·.1) := by
  intro h
  have := h exOps (1, ⟨2, [(101, 2863311530)]⟩) (by decide)
    ⟨2, [⟨1, 2000000, [⟨0, 1, 101, []⟩]⟩, ⟨2, 1000000, [⟨2, 1, 102, [7]⟩]⟩], 3000000, 20, []⟩
    (by decide) rfl ⟨2, 1000000, [⟨2, 1, 102, [7]⟩]⟩ (by decide) ⟨⟨2, 1, 102, [7]⟩, by decide, rfl⟩
  revert this
  decide

/-- **snapshot_evm_account_reading_violated**: with the EVM-typed notion of account (the one of
the valset) clause 1 fails on the same history: snapshot 2 of `exOps` was built while chain 1 was
active and lists validator 2, which has no EVM-typed account on chain 1. -/
theorem snapshot_evm_account_reading_violated :
    ¬ ∀ (pre : List Op) (now : Nat) (picks : List Nat) (sn : Snapshot),
        (build (run St.init pre) now picks).2 = some sn →
          ∀ v ∈ sn.vals, ∀ c ∈ activeChains (run St.init pre),
            ∃ a ∈ v.accts, isEvm a.ctype = true ∧ a.chain = c := by
  intro h
  have := h (exOps.take 7) 20 [1]
    ⟨2, [⟨1, 2000000, [⟨0, 1, 101, []⟩]⟩, ⟨2, 1000000, [⟨2, 1, 102, [7]⟩]⟩], 3000000, 20, []⟩
    (by decide) ⟨2, 1000000, [⟨2, 1, 102, [7]⟩]⟩ (by decide) 1 (by decide)
  revert this
  decide

/-- **sent_restricted_any_account** (clause 3 with the notion of account of clause 1, under the
INPUT ASSUMPTION `RegsEvmTyped`: every registered account is EVM-typed — true for what pigeon
sends, not enforced by /repo). Over all histories, for every position of the log of sent messages,
with `pre`, `op`, `cur` as in `sent_total_pos` (`cur` = the snapshot current right after the
sending operation): all accounts recorded in `cur` are EVM-typed; the sent valset has exactly as
many entries as `cur` has validators with ANY account on the chain; each such validator has its
entry (first account on the chain, floored power with the recorded total); and every entry belongs
to such a validator. -/
theorem sent_restricted_any_account (ops : List Op) (hreg : RegsEvmTyped ops) (i : Nat)
    (p : Nat × Valset) (h : (run St.init ops).sent[i]? = some p) :
    ∃ pre op post cur, ops = pre ++ op :: post ∧
      (run St.init pre).sent.length ≤ i ∧
      (run St.init (pre ++ [op])).sent[i]? = some p ∧
      SentAtCur (run St.init pre) op p cur ∧
      (∀ v ∈ cur.vals, ∀ x ∈ v.accts, isEvm x.ctype = true) ∧
      p.2.members.length =
        (cur.vals.filter (fun v => v.accts.any (fun a => a.chain == p.1))).length ∧
      (∀ v ∈ cur.vals, (∃ a ∈ v.accts, a.chain = p.1) →
        ∃ a, (v.accts.filter (fun a => a.chain == p.1)).head? = some a ∧
          (a.addr, power v.share cur.total) ∈ p.2.members) ∧
      (∀ m ∈ p.2.members, ∃ v ∈ cur.vals, ∃ a,
        (v.accts.filter (fun a => a.chain == p.1)).head? = some a ∧ a.chain = p.1 ∧
          m = (a.addr, power v.share cur.total)) := by
  obtain ⟨pre, op, post, cur, hops, h1, h2, hsa, hmem, _, htot, _⟩ := sent_total_pos ops i p h
  have hreg' : RegsEvmTyped (pre ++ [op]) := by
    have e : ops = (pre ++ [op]) ++ post := by rw [hops]; simp
    rw [e] at hreg; exact hreg.prefix
  have hev := (stored_accts_evm (pre ++ [op]) hreg').2 cur hmem
  obtain ⟨r1, r2, r3⟩ := restricted_any_account cur p.1 hev
  rw [← htot, ← hsa.2.1] at r2 r3
  rw [← hsa.2.1] at r1
  exact ⟨pre, op, post, cur, hops, h1, h2, hsa, hev, r1, r2, r3⟩

/-- **sent_by_build_lists_all** (under `RegsEvmTyped`): a valset sent by `PublishSnapshotToAllChains`
right after a build is sent for a chain that was active when the snapshot was built, so by clause 1
EVERY validator of the snapshot has an account there and the restriction removes nobody: the valset
has one entry per snapshot validator. (A just-in-time update can be for a chain activated after the
build; there the restriction is a real one.) -/
theorem sent_by_build_lists_all (ops : List Op) (hreg : RegsEvmTyped ops) (i : Nat)
    (p : Nat × Valset) (h : (run St.init ops).sent[i]? = some p) :
    ∃ pre op post cur, ops = pre ++ op :: post ∧ SentAtCur (run St.init pre) op p cur ∧
      ((∃ now picks, op = .build now picks) →
        (∀ v ∈ cur.vals, ∃ a ∈ v.accts, a.chain = p.1) ∧
        p.2.members.length = cur.vals.length) := by
  obtain ⟨pre, op, post, cur, hops, _, _, hsa, _, hlen, _, _⟩ :=
    sent_restricted_any_account ops hreg i p h
  refine ⟨pre, op, post, cur, hops, hsa, ?_⟩
  rintro ⟨now, picks, rfl⟩
  have hi := inv_reachable pre
  generalize run St.init pre = s at hsa hi
  obtain ⟨_, _, _, ⟨ci, hci, href, hact⟩, _, hor⟩ := hsa
  have hb : (build s now picks).2 = some cur := by
    rcases hor with ⟨now', picks', e, hb⟩ | ⟨pick, e, _⟩
    · cases e; exact hb
    · cases e
  obtain ⟨hpr, _, _, hx⟩ := build_some hb
  have hch : (step s (.build now picks)).chains = s.chains := (build_good now picks hi hpr).chains
  rw [hch] at hci
  have hact' : p.1 ∈ activeChains s := (mem_activeChains s p.1).mpr ⟨ci, hci, hact, href⟩
  have hall : ∀ v ∈ cur.vals, ∃ a ∈ v.accts, a.chain = p.1 := by
    intro v hv
    have hv' : v ∈ (createSnapshot s now).vals := by rw [hx] at hv; exact hv
    obtain ⟨sv, _, hel, rfl⟩ := mem_createSnapshot hv'
    exact ((eligible_iff s sv).mp hel).2.2 p.1 hact'
  refine ⟨hall, ?_⟩
  rw [hlen]
  congr 1
  apply List.filter_eq_self.mpr
  intro v hv
  obtain ⟨a, ha, hc⟩ := hall v hv
  exact List.any_eq_true.mpr ⟨a, ha, by simp [hc]⟩

/-- **powers_floor for STORED snapshots** (all histories; replaces the former statement about the
unstored `createSnapshot`): for every record `sn` of the store of a reachable state and every chain,
every entry of `transform sn chain` (what `GetValsetByID` / a later publication computes) belongs to
a validator of `sn`, and its power is computed with the snapshot's RECORDED total as divisor —
the two-sided floor when that total is positive, 0 when it is 0. -/
theorem powers_floor_stored (ops : List Op) (sn : Snapshot) (hsn : sn ∈ (run St.init ops).snaps)
    (chain : Nat) (m : Nat × Nat) (hm : m ∈ (transform sn chain).members) :
    ∃ v ∈ sn.vals, ∃ a ∈ v.accts, isEvm a.ctype = true ∧ a.chain = chain ∧
      (v.accts.filter (fun a => isEvm a.ctype && a.chain == chain)).head? = some a ∧
      m.1 = a.addr ∧ m.2 = power v.share sn.total ∧ v.share ≤ sn.total ∧
      (sn.total = 0 → m.2 = 0) ∧
      (0 < sn.total → m.2 = v.share * 2 ^ 32 / sn.total ∧
        m.2 * sn.total ≤ v.share * 2 ^ 32 ∧ v.share * 2 ^ 32 < (m.2 + 1) * sn.total) := by
  have htot : sn.total = (sn.vals.map (·.share)).sum := (inv_reachable ops).totals sn hsn
  obtain ⟨v, hv, a, ha, h1, h2, h3, h4, h5, h6, h7⟩ := powers_floor sn chain m hm
  rw [← htot] at h5 h6 h7
  refine ⟨v, hv, a, ha, h1, h2, h3, h4, h5, ?_, h6, h7⟩
  rw [htot]
  exact mem_le_sum _ _ (List.mem_map.mpr ⟨v, hv, rfl⟩)

/-! ### Part 5 — rejected operations -/

/-- **rejected_is_noop**: every operation that is rejected — registration (more than 100
accounts / validator not bonded-and-unjailed / address collision), adding a chain that exists,
activating or removing an unknown chain, `SetSnapshotOnChain` for an unknown id, a just-in-time
update without chain / current snapshot / published snapshot / relayer — a build whose snapshot
is not worthy and a build that runs into the division by zero of `isNewSnapshotWorthy`
(`buildPanics`: the Go panic drops the caller's cache context) leave the WHOLE state unchanged; a
build returns nothing exactly in those two cases. -/
theorem rejected_is_noop (s : St) :
    (∀ v a, (register s v a).2 = .rejected → (register s v a).1 = s) ∧
    (∀ c, (support s c).2 = .rejected → (support s c).1 = s) ∧
    (∀ c, (activate s c).2 = .rejected → (activate s c).1 = s) ∧
    (∀ c, (remove s c).2 = .rejected → (remove s c).1 = s) ∧
    (∀ id c, (setOnChain s id c).2 = .rejected → (setOnChain s id c).1 = s) ∧
    (∀ id c, (setOnChain s id c).2 = .rejected ↔ findSnapshot s id = none) ∧
    (∀ c pick, (jit s c pick).2 = .rejected → (jit s c pick).1 = s) ∧
    (∀ now picks, (build s now picks).2 = none → (build s now picks).1 = s) ∧
    (∀ now picks, (build s now picks).2 = none ↔
      (buildPanics s now = true ∨ worthy (current s) (createSnapshot s now) = false)) ∧
    (∀ now picks, buildPanics s now = true → build s now picks = (s, none)) := by
  refine ⟨?_, ?_, ?_, ?_, ?_, ?_, ?_, ?_, ?_, ?_⟩
  · intro v a h
    unfold register at h ⊢
    split
    · rfl
    · split
      · rfl
      · split
        · rfl
        · rename_i h1 h2 h3
          simp [h1, h2, h3] at h
  · intro c h
    unfold support at h ⊢
    split
    · rfl
    · rename_i h1; simp [h1] at h
  · intro c h
    unfold activate at h ⊢
    split
    · rfl
    · rename_i h1; simp [h1] at h
  · intro c h
    unfold remove at h ⊢
    split
    · rfl
    · rename_i h1; simp [h1] at h
  · intro id c h
    unfold setOnChain at h ⊢
    split
    · rfl
    · rename_i h1; simp [h1] at h
  · intro id c
    unfold setOnChain
    split
    · rename_i h1; simp [h1]
    · rename_i h1; simp [h1]
  · intro c pick h
    unfold jit at h ⊢
    split
    · rfl
    · rfl
    · rfl
    · split
      · rfl
      · split
        · rfl
        · split
          · rfl
          · split
            · rfl
            · rename_i h1 h2 h3 h4 h5 h6 h7
              simp [h1, h2, h3, h4, h5, h6, h7] at h
  · intro now picks h
    cases hw : proceeds s now
    · rw [build_stuck picks hw]
    · rw [build_proceeds picks hw] at h; simp at h
  · intro now picks
    cases hw : proceeds s now
    · rw [build_stuck picks hw]
      unfold proceeds at hw
      cases hp : buildPanics s now <;> cases hwo : worthy (current s) (createSnapshot s now) <;>
        simp [hp, hwo] at hw ⊢
    · rw [build_proceeds picks hw]
      obtain ⟨hp, hwo⟩ := (proceeds_iff s now).mp hw
      simp [hp, hwo]
  · intro now picks h
    exact build_stuck picks (by unfold proceeds; simp [h])

/-! ## Non-vacuity -/

/-- the second build stores snapshot 2 = exactly validators 1 and 2 (3 is unbonding and could not
even register, 4 is jailed), shares = tokens, total = their sum -/
example : (run St.init exOps).snaps.map (fun sn => (sn.id, sn.vals.map (fun v => (v.id, v.share)), sn.total)) =
    [(1, [(1, 2000000), (2, 1000000)], 3000000), (2, [(1, 2000000), (2, 1000000)], 3000000)] := by decide

example : (current (run St.init exOps)).map (·.id) = some 2 := by decide

/-- `StakingWF` holds for `exOps` -/
example : StakingWF exOps := by
  intro l hl
  have : l = exStaking := by simpa [exOps] using hl
  subst this; decide

/-- **negation witness for "two thirds"**: this history SENDS a valset to chain 1 whose powers sum
to exactly 2863311530, and `3 · 2863311530 < 2 · 2^32`. -/
example : (run St.init exOps).sent = [(1, ⟨2, [(101, 2863311530)]⟩)] := by decide

example : ∃ p ∈ (run St.init exOps).sent, 3 * powerSum p.2 < 2 * 2 ^ 32 :=
  ⟨(1, ⟨2, [(101, 2863311530)]⟩), by decide, by decide⟩

/-- with stakes 2:1 − ε nothing is sent -/
example : (run St.init [.setStaking [⟨1, .bonded, false, 1999999⟩, ⟨2, .bonded, false, 1000000⟩],
    .support 1, .activate 1, .register 1 [⟨0, 1, 101, []⟩], .register 2 [⟨2, 1, 102, []⟩],
    .build 20 [1]]).sent = [] := by decide

/-- a bonded validator with stake 0 (total 0; this history violates `StakingWF`): the snapshot is
stored, all powers are 0 by the explicit branch, nothing is sent -/
example : ((run St.init [.setStaking [⟨1, .bonded, false, 0⟩], .support 1, .activate 1,
    .register 1 [⟨0, 1, 11, []⟩], .build 1 [1]]).snaps.map
      (fun sn => (sn.id, sn.total, (transform sn 1).members)),
    (run St.init [.setStaking [⟨1, .bonded, false, 0⟩], .support 1, .activate 1,
    .register 1 [⟨0, 1, 11, []⟩], .build 1 [1]]).sent) = ([(1, 0, [(11, 0)])], []) := by decide

/-- … and the NEXT build of that history is the division by zero of `isNewSnapshotWorthy`
(`build_panics_without_assumption`); with a positive stake the same second build reaches the
percentage loop, does not panic and is simply not worthy -/
example : buildPanics (run St.init [.setStaking [⟨1, .bonded, false, 0⟩], .build 1 []]) 2 = true ∧
    buildPanics (run St.init [.setStaking [⟨1, .bonded, false, 7⟩], .build 1 []]) 2 = false ∧
    (build (run St.init [.setStaking [⟨1, .bonded, false, 7⟩], .build 1 []]) 2 []).2 = none ∧
    quoPanics ⟨1, [⟨1, 7, []⟩], 7, 1, []⟩ ⟨0, [⟨1, 0, []⟩], 0, 2, []⟩ = true ∧
    quoPanics ⟨1, [], 0, 1, []⟩ ⟨0, [], 0, 2, []⟩ = false := by decide

/-- a history in which every registered account is EVM-typed (`RegsEvmTyped`) and the staking
inputs are well formed (`StakingWF`): snapshot 1 is sent to chain 1 by the build (all three
validators listed), snapshot 2 is sent to chain 2 — activated after the build — by a just-in-time
update, restricted to the two validators that have an account there -/
def evmOps : List Op :=
  [.setStaking [⟨1, .bonded, false, 5⟩, ⟨2, .bonded, false, 1⟩, ⟨3, .bonded, false, 1⟩],
   .support 1, .activate 1,
   .register 1 [⟨0, 1, 11, []⟩], .register 2 [⟨1, 1, 12, []⟩], .register 3 [⟨0, 1, 13, []⟩],
   .build 10 [1], .onChain 1 2, .support 2,
   .register 1 [⟨0, 1, 11, []⟩, ⟨1, 2, 21, []⟩], .register 2 [⟨1, 1, 12, []⟩, ⟨0, 2, 22, []⟩],
   .build 11 [], .activate 2, .jit 2 true]

example : RegsEvmTyped evmOps := by
  intro v a h x hx
  simp only [evmOps, List.mem_cons, Op.register.injEq, reduceCtorEq, false_or, List.not_mem_nil,
    or_false] at h
  rcases h with ⟨_, rfl⟩ | ⟨_, rfl⟩ | ⟨_, rfl⟩ | ⟨_, rfl⟩ | ⟨_, rfl⟩ <;> revert x <;> decide

example : StakingWF evmOps := by
  intro l hl
  have : l = [⟨1, .bonded, false, 5⟩, ⟨2, .bonded, false, 1⟩, ⟨3, .bonded, false, 1⟩] := by
    simpa [evmOps] using hl
  subst this; decide

example : (run St.init evmOps).sent =
      [(1, ⟨1, [(11, 3067833782), (13, 613566756), (12, 613566756)]⟩),
       (2, ⟨2, [(21, 3067833782), (22, 613566756)]⟩)] ∧
    (run St.init evmOps).snaps.map (fun sn => (sn.id, sn.vals.length, sn.total, sn.chains)) =
      [(1, 3, 7, [2]), (2, 3, 7, [])] ∧
    buildPanics (run St.init evmOps) 12 = false := by decide

/-- the just-in-time path is reachable: snapshot 1 goes live on chain 1, snapshot 2 is built while
no relayer can be assigned, the just-in-time update then sends the valset of snapshot 2 = the
current snapshot (not of snapshot 1, the published one) -/
def jitOps : List Op :=
  [.setStaking [⟨1, .bonded, false, 5⟩], .support 1, .activate 1, .register 1 [⟨0, 1, 11, []⟩],
   .build 10 [], .onChain 1 1, .setStaking [⟨1, .bonded, false, 5⟩, ⟨2, .bonded, false, 1⟩],
   .register 2 [⟨2, 1, 12, []⟩], .build 3000000 [], .jit 1 true]

example : (run St.init (jitOps.take 9)).sent = [] ∧
    (run St.init jitOps).sent = [(1, ⟨2, [(11, 3579139413)]⟩)] ∧
    (current (run St.init jitOps)).map (·.id) = some 2 ∧
    (run St.init jitOps).snaps.map (fun sn => (sn.id, sn.chains, sn.vals.length)) =
      [(1, [1], 1), (2, [], 2)] := by decide

/-- the class of history in which the gate of the just-in-time update DECIDES something: chain 1
is active with validators 1..3 on it (snapshot 2, live on chain 1), the chain is removed, snapshot 3
lists all seven validators, the chain is added again and activated. The current snapshot restricted
to chain 1 is a proper, NON-EMPTY part of it carrying 3/7 of the stake. -/
def jitLowOps : List Op :=
  [.setStaking [⟨1, .bonded, false, 30⟩, ⟨2, .bonded, false, 30⟩, ⟨3, .bonded, false, 30⟩, ⟨4, .bonded, false, 30⟩,
     ⟨5, .bonded, false, 30⟩, ⟨6, .bonded, false, 30⟩, ⟨7, .bonded, false, 30⟩],
   .build 1 [], .support 1, .activate 1,
   .register 1 [⟨0, 1, 101, []⟩], .register 2 [⟨0, 1, 102, []⟩], .register 3 [⟨0, 1, 103, []⟩],
   .build 2 [1], .onChain 2 1, .remove 1, .build 3 [], .support 1, .activate 1]

/-- … the hypotheses of `jit_below_quorum_not_sent` are met non-trivially (chain active, snapshot 2
live, snapshot 3 current, three entries summing to 1840700268 < 2863311530), no entry point sends
anything, and — positive control — once the other four validators registered and snapshot 4 exists
each entry point sends it (the end blocker only while no UpdateValset message is queued). -/
example :
    (findChain (run St.init jitLowOps) 1).map (·.active) = some true ∧
    (current (run St.init jitLowOps)).map (fun sn => (sn.id, sn.vals.length)) = some (3, 7) ∧
    (latestOnChain (run St.init jitLowOps) 1).map (·.id) = some 2 ∧
    (visibleQueue (run St.init jitLowOps)).map (fun p => (p.1, p.2.id)) = [(1, 2)] ∧
    ((current (run St.init jitLowOps)).map (fun sn => (transform sn 1).members)) =
      some [(103, 613566756), (102, 613566756), (101, 613566756)] ∧
    ((current (run St.init jitLowOps)).map (fun sn => powerSum (transform sn 1))) = some 1840700268 ∧
    (xrun (run St.init jitLowOps) [.op (.jit 1 true), .jitBus 1 true, .jitEndBlock 1 true]).sent =
      (run St.init jitLowOps).sent ∧
    (run St.init jitLowOps).sent.map (fun p => (p.1, p.2.id)) = [(1, 2)] := by decide

example :
    let ctl : List Op := jitLowOps ++ [.register 4 [⟨0, 1, 104, []⟩], .register 5 [⟨0, 1, 105, []⟩],
      .register 6 [⟨0, 1, 106, []⟩], .register 7 [⟨0, 1, 107, []⟩], .build 4 []]
    ((xstep (run St.init ctl) (.op (.jit 1 true))).sent.map (fun p => (p.1, p.2.id, powerSum p.2)) =
      [(1, 2, 4294967295), (1, 4, 4294967292)]) ∧
    (xstep (run St.init ctl) (.jitBus 1 true)).sent = (xstep (run St.init ctl) (.op (.jit 1 true))).sent ∧
    -- the end blocker leaves a queue alone in which an UpdateValset message (here: of snapshot 2) waits …
    (xstep (run St.init ctl) (.jitEndBlock 1 true)).sent = (run St.init ctl).sent ∧
    -- … and sends when there is none (chain 1 removed and added again hides nothing: same queue; so
    -- use a state whose queue for chain 1 is empty: chain 2, activated late, snapshot 1 live)
    (xrun St.init [.op (.setStaking [⟨1, .bonded, false, 5⟩, ⟨2, .bonded, false, 1⟩]), .op (.build 1 []),
        .op (.support 2), .op (.register 1 [⟨0, 2, 201, []⟩]), .op (.build 2 []), .op (.onChain 1 2),
        .op (.activate 2), .jitEndBlock 2 true]).sent = [(2, ⟨2, [(201, 3579139413)]⟩)] := by decide

/-- on-chain activation extends the chain list and nothing else; a later build adds snapshot 3 -/
example : (run St.init (exOps ++ [.onChain 2 1, .onChain 2 3, .onChain 9 1,
      .setStaking [⟨1, .bonded, false, 2000000⟩], .build 30 [1]])).snaps.map
        (fun sn => (sn.id, sn.chains, sn.vals.length)) = [(1, [], 2), (2, [1, 3], 2), (3, [], 1)] := by decide

/-- long-history clause, concretely: snapshot 2 is recorded as live on chain 1, a third snapshot is
built; every issued id (1, 2, 3) is found, 0 and 4 are not, and the live record of chain 1 is still 2 -/
example : (latestOnChain (run St.init (exOps ++ [.onChain 2 1,
      .setStaking [⟨1, .bonded, false, 2000000⟩], .build 30 [1]])) 1).map (·.id) = some 2 ∧
    (List.range 5).map (fun i => (findSnapshot (run St.init (exOps ++ [.onChain 2 1,
      .setStaking [⟨1, .bonded, false, 2000000⟩], .build 30 [1]])) i).isSome) =
      [false, true, true, true, false] := by decide

/-- `chainsAdded` on that history: the chains added to snapshot 2 after its build -/
example : chainsAdded 2 [.onChain 2 1, .onChain 2 3, .onChain 9 1,
      .setStaking [⟨1, .bonded, false, 2000000⟩], .build 30 [1]] = [1, 3] := by decide

/-- the float64 counterexample of the pinned tree: the floor is …688 (float64 gave …689) -/
example : power 8372225 8388609 = 4286578688 := by decide

example : power 3187511 (3187511 + 1006798) = 3264007372 := by decide

/-- stakes of 2^62 each (total 2^63, where `Int64()` panicked) -/
example : (transform ⟨7, [⟨1, 2 ^ 62, [⟨0, 1, 11, []⟩]⟩, ⟨2, 2 ^ 62, [⟨0, 1, 12, []⟩]⟩], 2 ^ 63, 0, []⟩ 1).members =
    [(12, 2 ^ 31), (11, 2 ^ 31)] := by decide

/-- equal shares come out in REVERSE store order (`sort.SliceStable` with `GTE` as "less") -/
example : (transform ⟨7, [⟨1, 5, [⟨0, 1, 11, []⟩]⟩, ⟨2, 9, [⟨0, 1, 12, []⟩]⟩, ⟨3, 5, [⟨1, 1, 13, []⟩]⟩, ⟨4, 5, [⟨2, 1, 14, []⟩]⟩], 24, 0, []⟩ 1).members.map (·.1) =
    [12, 13, 11] := by decide

/-- registration accepts two EVM accounts on one chain (nothing in `SetExternalChainInfoState`
forbids it); such a validator is listed ONCE, under its first account -/
example : (register (run St.init [.setStaking exStaking]) 1 [⟨0, 1, 11, []⟩, ⟨1, 1, 12, []⟩]).2 = .ok := by decide

example : (run St.init [.setStaking [⟨1, .bonded, false, 5⟩, ⟨2, .bonded, false, 5⟩], .support 1, .activate 1,
    .register 1 [⟨0, 1, 11, []⟩, ⟨1, 1, 12, []⟩], .register 2 [⟨2, 1, 14, []⟩, ⟨0, 1, 13, []⟩],
    .build 20 [1]]).sent = [(1, ⟨1, [(13, 2 ^ 31), (11, 2 ^ 31)]⟩)] := by decide

/-- rejected operations through `run`: an unbonding validator cannot register, an unknown snapshot
id cannot go on chain, a duplicate chain is refused -/
example : (register (run St.init exOps) 3 [⟨0, 1, 103, []⟩]).2 = .rejected ∧
    (setOnChain (run St.init exOps) 9 1).2 = .rejected ∧
    (support (run St.init exOps) 1).2 = .rejected ∧
    (build (run St.init exOps) 21 [1]).2 = none := by decide

end Paloma.Valset
