/-
C10 — validator-set snapshots and the validator set sent to a remote chain.
Model: `Model/Valset.lean`. Histories are arbitrary lists of `Op` (staking changes, account
registrations, chain support / activation / removal, snapshot builds with an arbitrary relayer
oracle, on-chain activations, just-in-time updates) from the empty state.
-/
import PalomaModel.Model.Valset

namespace Paloma.Valset
open List

/-! ## helper lemmas -/
section Lemmas

/-! ### arithmetic of powers -/

theorem power_add_le (a b total : Nat) : power a total + power b total ≤ power (a + b) total := by
  unfold power
  rcases Nat.eq_zero_or_pos total with h | h
  · subst h; simp
  · rw [Nat.le_div_iff_mul_le h, Nat.add_mul, Nat.add_mul a b]
    exact Nat.add_le_add (Nat.div_mul_le_self _ _) (Nat.div_mul_le_self _ _)

/-- `Σ ⌊aᵢ·2^32/T⌋ ≤ ⌊(Σ aᵢ)·2^32/T⌋` -/
theorem sum_power_le (l : List Nat) (total : Nat) :
    (l.map (fun a => power a total)).sum ≤ power l.sum total := by
  induction l with
  | nil => simp [power]
  | cons a as ih =>
    simp only [List.map_cons, List.sum_cons]
    exact Nat.le_trans (Nat.add_le_add_left ih _) (power_add_le a as.sum total)

theorem power_le_max (a total : Nat) (h : a ≤ total) : power a total ≤ maxPower := by
  unfold power
  exact Nat.div_le_of_le_mul (Nat.mul_le_mul_right _ h)

theorem power_mono (a b total : Nat) (h : a ≤ b) : power a total ≤ power b total := by
  unfold power
  exact Nat.div_le_div_right (Nat.mul_le_mul_right _ h)

/-! ### the descending sort -/

theorem mem_insDesc {x y : Val} {l : List Val} : y ∈ insDesc x l ↔ y = x ∨ y ∈ l := by
  induction l with
  | nil => simp [insDesc]
  | cons z zs ih =>
    simp only [insDesc]
    split
    · simp only [List.mem_cons, ih]
      constructor
      · rintro (h | h | h) <;> simp [h]
      · rintro (h | h | h) <;> simp [h]
    · simp [List.mem_cons]

theorem insDesc_perm (x : Val) (l : List Val) : (insDesc x l).Perm (x :: l) := by
  induction l with
  | nil => simp [insDesc]
  | cons z zs ih =>
    simp only [insDesc]
    split
    · exact (List.Perm.cons z ih).trans (List.Perm.swap x z zs)
    · exact List.Perm.refl _

theorem foldl_insDesc_perm (l acc : List Val) :
    (l.foldl (fun acc x => insDesc x acc) acc).Perm (l ++ acc) := by
  induction l generalizing acc with
  | nil => simp
  | cons x xs ih =>
    simp only [List.foldl_cons, List.cons_append]
    exact (ih (insDesc x acc)).trans
      (((insDesc_perm x acc).append_left xs).trans List.perm_middle)

theorem sortDesc_perm (l : List Val) : (sortDesc l).Perm l := by
  have := foldl_insDesc_perm l []
  simpa [sortDesc] using this

theorem mem_sortDesc {v : Val} {l : List Val} : v ∈ sortDesc l ↔ v ∈ l :=
  (sortDesc_perm l).mem_iff

theorem sumShares_sortDesc (l : List Val) : sumShares (sortDesc l) = sumShares l := by
  unfold sumShares
  exact ((sortDesc_perm l).map _).sum_nat

/-- shares are non-increasing along the list -/
def Desc (l : List Val) : Prop := l.Pairwise (fun a b => a.share ≥ b.share)

theorem insDesc_desc (x : Val) (l : List Val) (h : Desc l) : Desc (insDesc x l) := by
  induction l with
  | nil => simp [insDesc, Desc]
  | cons z zs ih =>
    simp only [insDesc]
    have hz := List.pairwise_cons.mp h
    split
    · rename_i hgt
      refine List.pairwise_cons.mpr ⟨?_, ih hz.2⟩
      intro y hy
      rcases mem_insDesc.mp hy with rfl | hy
      · omega
      · exact hz.1 y hy
    · rename_i hle
      refine List.pairwise_cons.mpr ⟨?_, h⟩
      intro y hy
      rcases List.mem_cons.mp hy with rfl | hy
      · omega
      · have := hz.1 y hy
        omega

theorem foldl_insDesc_desc (l acc : List Val) (h : Desc acc) :
    Desc (l.foldl (fun acc x => insDesc x acc) acc) := by
  induction l generalizing acc with
  | nil => simpa using h
  | cons x xs ih => exact ih _ (insDesc_desc x acc h)

theorem sortDesc_desc (l : List Val) : Desc (sortDesc l) :=
  foldl_insDesc_desc l [] (by simp [Desc])

/-! ### the valset of one chain -/

theorem chosen_length_le (c : Nat) (v : Val) : (chosen c v).length ≤ 1 := by
  unfold chosen
  simp only [List.length_take]
  omega

theorem mem_chosen {c : Nat} {v : Val} {a : Acct} :
    a ∈ chosen c v ↔ (matching c v).head? = some a := by
  unfold chosen
  cases matching c v with
  | nil => simp
  | cons x xs => simp [eq_comm]

theorem mem_matching {c : Nat} {v : Val} {a : Acct} :
    a ∈ matching c v ↔ a ∈ v.accts ∧ isEvm a.ctype = true ∧ a.chain = c := by
  unfold matching
  simp [List.mem_filter]

theorem mem_membersOf {c total : Nat} {v : Val} {m : Nat × Nat} :
    m ∈ membersOf c total v ↔
      ∃ a, (matching c v).head? = some a ∧ m = (a.addr, power v.share total) := by
  unfold membersOf
  simp only [List.mem_map, mem_chosen]
  constructor
  · rintro ⟨a, ha, rfl⟩; exact ⟨a, ha, rfl⟩
  · rintro ⟨a, ha, rfl⟩; exact ⟨a, ha, rfl⟩

theorem head_matching {c : Nat} {v : Val} {a : Acct} (h : (matching c v).head? = some a) :
    a ∈ v.accts ∧ isEvm a.ctype = true ∧ a.chain = c :=
  mem_matching.mp (List.mem_of_head? h)

theorem transform_members_perm (snap : Snapshot) (c : Nat) :
    (transform snap c).members.Perm (snap.vals.flatMap (membersOf c (sumShares snap.vals))) := by
  unfold transform
  simp only [sumShares_sortDesc]
  exact (sortDesc_perm snap.vals).flatMap_right _

/-- the valset depends on the snapshot's id and validators only (not on `chains`, `total`, time) -/
theorem transform_congr (a b : Snapshot) (c : Nat) (hid : b.id = a.id) (hv : b.vals = a.vals) :
    transform b c = transform a c := by
  unfold transform
  rw [hid, hv]

theorem sum_map_snd_membersOf (c total : Nat) (v : Val) :
    ((membersOf c total v).map (·.2)).sum = (chosen c v).length * power v.share total := by
  unfold membersOf
  generalize chosen c v = l
  induction l with
  | nil => simp
  | cons a as ih =>
    simp only [List.map_cons, List.sum_cons, List.length_cons, Nat.succ_mul] at ih ⊢
    omega

theorem sum_flatMap_members (c total : Nat) (l : List Val) :
    ((l.flatMap (membersOf c total)).map (·.2)).sum =
      (l.map (fun v => (chosen c v).length * power v.share total)).sum := by
  induction l with
  | nil => simp
  | cons v vs ih =>
    simp only [List.flatMap_cons, List.map_append, List.sum_append, List.map_cons, List.sum_cons, ih,
      sum_map_snd_membersOf]

theorem powerSum_transform (snap : Snapshot) (c : Nat) :
    powerSum (transform snap c) =
      (snap.vals.map (fun v => (chosen c v).length * power v.share (sumShares snap.vals))).sum := by
  unfold powerSum
  rw [((transform_members_perm snap c).map _).sum_nat]
  exact sum_flatMap_members _ _ _

theorem enough_ge {v : Valset} (h : enough v = true) : thresholdForConsensus ≤ powerSum v := by
  unfold enough at h
  have := Nat.mod_le (powerSum v) (2 ^ 64)
  have h' : thresholdForConsensus ≤ powerSum v % 2 ^ 64 := by simpa using h
  omega

/-! ### snapshots -/

theorem eligible_iff (s : St) (sv : SVal) :
    eligible s sv = true ↔
      sv.status = .bonded ∧ sv.jailed = false ∧
        ∀ c ∈ activeChains s, ∃ a ∈ acctsOf s sv.id, a.chain = c := by
  unfold eligible supportsAll
  simp only [Bool.and_eq_true, beq_iff_eq, Bool.not_eq_true', List.all_eq_true, List.any_eq_true]
  constructor
  · rintro ⟨⟨h1, h2⟩, h3⟩
    exact ⟨h1, h2, fun c hc => by obtain ⟨a, ha, he⟩ := h3 c hc; exact ⟨a, ha, he⟩⟩
  · rintro ⟨h1, h2, h3⟩
    exact ⟨⟨h1, h2⟩, fun c hc => by obtain ⟨a, ha, he⟩ := h3 c hc; exact ⟨a, ha, he⟩⟩

theorem mem_activeChains (s : St) (c : Nat) :
    c ∈ activeChains s ↔ ∃ ci ∈ s.chains, ci.active = true ∧ ci.ref = c := by
  unfold activeChains
  simp only [List.mem_map, List.mem_filter]
  constructor
  · rintro ⟨ci, ⟨h1, h2⟩, rfl⟩; exact ⟨ci, h1, h2, rfl⟩
  · rintro ⟨ci, h1, h2, rfl⟩; exact ⟨ci, ⟨h1, h2⟩, rfl⟩

/-- a stored snapshot `b` is `a` with possibly more chains appended -/
def Extends (a b : Snapshot) : Prop :=
  b.id = a.id ∧ b.vals = a.vals ∧ b.total = a.total ∧ b.createdAt = a.createdAt ∧ a.chains <+: b.chains

theorem Extends.refl (a : Snapshot) : Extends a a := ⟨rfl, rfl, rfl, rfl, List.prefix_refl _⟩

theorem Extends.trans {a b c : Snapshot} (h1 : Extends a b) (h2 : Extends b c) : Extends a c :=
  ⟨h2.1.trans h1.1, h2.2.1.trans h1.2.1, h2.2.2.1.trans h1.2.2.1, h2.2.2.2.1.trans h1.2.2.2.1,
    h1.2.2.2.2.trans h2.2.2.2.2⟩

/-- the store `l'` extends the store `l`: same positions, each record extended, maybe new ones -/
def SnapsExtend (l l' : List Snapshot) : Prop :=
  l.length ≤ l'.length ∧ ∀ i (h : i < l.length) (h' : i < l'.length), Extends l[i] l'[i]

theorem SnapsExtend.refl (l : List Snapshot) : SnapsExtend l l :=
  ⟨Nat.le_refl _, fun _ _ _ => Extends.refl _⟩

theorem SnapsExtend.trans {a b c : List Snapshot} (h1 : SnapsExtend a b) (h2 : SnapsExtend b c) :
    SnapsExtend a c :=
  ⟨Nat.le_trans h1.1 h2.1, fun i h h' =>
    (h1.2 i h (Nat.lt_of_lt_of_le h h1.1)).trans (h2.2 i (Nat.lt_of_lt_of_le h h1.1) h')⟩

theorem snapsExtend_append (l : List Snapshot) (x : Snapshot) : SnapsExtend l (l ++ [x]) := by
  refine ⟨by simp, fun i h h' => ?_⟩
  rw [List.getElem_append_left h]
  exact Extends.refl _

theorem snapsExtend_onChain (l : List Snapshot) (id c : Nat) :
    SnapsExtend l (l.map (fun sn => if sn.id == id then { sn with chains := sn.chains ++ [c] } else sn)) := by
  refine ⟨by simp, fun i h h' => ?_⟩
  rw [List.getElem_map]
  split
  · exact ⟨rfl, rfl, rfl, rfl, List.prefix_append _ _⟩
  · exact Extends.refl _

/-! ### publishing only touches the queue and the ghost log -/

/-- what a sent message must satisfy with respect to the snapshot store -/
def SentOk (snaps : List Snapshot) (p : Nat × Valset) : Prop :=
  thresholdForConsensus ≤ powerSum p.2 ∧ ∃ sn ∈ snaps, p.2 = transform sn p.1

/-- `s` differs from `s0` in queue and log only, and both are fine with respect to `s0.snaps` -/
structure Good (s0 s : St) : Prop where
  snaps : s.snaps = s0.snaps
  lastId : s.lastId = s0.lastId
  chains : s.chains = s0.chains
  staking : s.staking = s0.staking
  accts : s.accts = s0.accts
  sentOk : ∀ p ∈ s.sent, SentOk s0.snaps p
  queueSub : ∀ p ∈ s.queue, p ∈ s.sent

theorem send_good {s0 s : St} (c : Nat) (v : Valset) (h : Good s0 s) (hv : SentOk s0.snaps (c, v)) :
    Good s0 (send s c v) := by
  unfold send
  split
  · exact h
  · refine ⟨h.snaps, h.lastId, h.chains, h.staking, h.accts, ?_, ?_⟩
    · intro p hp
      rcases List.mem_append.mp hp with hp | hp
      · exact h.sentOk p hp
      · have : p = (c, v) := by simpa using hp
        subst this; exact hv
    · intro p hp
      rcases List.mem_append.mp hp with hp | hp
      · exact List.mem_append_left _ (h.queueSub p (List.mem_filter.mp hp).1)
      · exact List.mem_append_right _ hp

theorem publishValset_good {s0 s : St} (ci : ChainInfo) (v : Valset) (pick : Bool) (h : Good s0 s)
    (hv : ∃ sn ∈ s0.snaps, v = transform sn ci.ref) : Good s0 (publishValset s ci v pick) := by
  unfold publishValset
  split
  · exact h
  · split
    · exact h
    · rename_i he
      split
      · exact h
      · exact send_good _ _ h ⟨enough_ge (by simpa using he), hv⟩

theorem publishOne_good {s0 s : St} (snap : Snapshot) (now : Nat) (picks : List Nat) (ci : ChainInfo)
    (h : Good s0 s) (hs : snap ∈ s0.snaps) : Good s0 (publishOne snap now picks s ci) := by
  unfold publishOne
  split
  · exact h
  · exact publishValset_good _ _ _ h ⟨snap, hs, rfl⟩

theorem foldl_publishOne_good {s0 : St} (snap : Snapshot) (now : Nat) (picks : List Nat)
    (l : List ChainInfo) (s : St) (h : Good s0 s) (hs : snap ∈ s0.snaps) :
    Good s0 (l.foldl (publishOne snap now picks) s) := by
  induction l generalizing s with
  | nil => simpa using h
  | cons ci cis ih => exact ih _ (publishOne_good snap now picks ci h hs)

theorem publishAll_good {s0 : St} (snap : Snapshot) (now : Nat) (picks : List Nat)
    (h : Good s0 s0) (hs : snap ∈ s0.snaps) : Good s0 (publishAll s0 snap now picks) :=
  foldl_publishOne_good snap now picks _ _ h hs

/-! ### the invariant -/

structure Inv (s : St) : Prop where
  /-- the i-th stored snapshot has id i+1 -/
  ids : ∀ i (h : i < s.snaps.length), s.snaps[i].id = i + 1
  last : s.lastId = s.snaps.length
  sentOk : ∀ p ∈ s.sent, SentOk s.snaps p
  queueSub : ∀ p ∈ s.queue, p ∈ s.sent

theorem Inv.good {s : St} (h : Inv s) : Good s s :=
  ⟨rfl, rfl, rfl, rfl, rfl, h.sentOk, h.queueSub⟩

theorem inv_init : Inv St.init := by
  constructor <;> simp [St.init]

theorem inv_of_good {s0 s : St} (h0 : Inv s0) (h : Good s0 s) : Inv s := by
  refine ⟨?_, ?_, ?_, h.queueSub⟩
  · rw [h.snaps]; exact h0.ids
  · rw [h.snaps, h.lastId]; exact h0.last
  · rw [h.snaps]; exact h.sentOk

theorem find_by_pos_off (l : List Snapshot) (off : Nat)
    (hids : ∀ i (h : i < l.length), l[i].id = i + 1 + off) (i : Nat) (h : i < l.length) :
    l.find? (fun sn => sn.id == i + 1 + off) = some l[i] := by
  induction l generalizing off i with
  | nil => simp at h
  | cons y ys ih =>
    have hy0 : y.id = 1 + off := by
      have := hids 0 (by simp)
      simpa using this
    cases i with
    | zero => simp [hy0]
    | succ k =>
      have hne : (y.id == k + 1 + 1 + off) = false := by
        simp only [hy0, beq_eq_false_iff_ne, ne_eq]; omega
      simp only [List.find?_cons, hne, List.getElem_cons_succ]
      have := ih (off + 1) (fun j hj => by
        have := hids (j + 1) (by simpa using hj)
        simp only [List.getElem_cons_succ] at this
        omega) k (by simpa using h)
      have e : k + 1 + (off + 1) = k + 1 + 1 + off := by omega
      rw [e] at this
      exact this

theorem find_by_pos {l : List Snapshot} (hids : ∀ i (h : i < l.length), l[i].id = i + 1)
    (i : Nat) (h : i < l.length) : l.find? (fun sn => sn.id == i + 1) = some l[i] := by
  have := find_by_pos_off l 0 (fun i h => by simpa using hids i h) i h
  simpa using this

theorem find_none_of_ids {l : List Snapshot} (hids : ∀ i (h : i < l.length), l[i].id = i + 1)
    (id : Nat) (h : id = 0 ∨ id > l.length) : l.find? (fun sn => sn.id == id) = none := by
  rw [List.find?_eq_none]
  intro x hx
  obtain ⟨i, hi, rfl⟩ := List.mem_iff_getElem.mp hx
  have := hids i hi
  simp only [beq_iff_eq]
  omega

theorem inv_setOnChain {s : St} (id c : Nat) (h : Inv s) : Inv (setOnChain s id c).1 := by
  unfold setOnChain
  split
  · exact h
  · refine ⟨?_, ?_, ?_, h.queueSub⟩
    · intro i hi
      simp only [List.getElem_map]
      have := h.ids i (by simpa using hi)
      split <;> simpa using this
    · simpa using h.last
    · intro p hp
      obtain ⟨hq, sn, hsn, he⟩ := h.sentOk p hp
      refine ⟨hq, ?_⟩
      by_cases hid : (sn.id == id) = true
      · exact ⟨{ sn with chains := sn.chains ++ [c] }, List.mem_map.mpr ⟨sn, hsn, by simp [hid]⟩,
          by rw [he]; exact (transform_congr _ _ _ rfl rfl).symm⟩
      · exact ⟨sn, List.mem_map.mpr ⟨sn, hsn, by simp [hid]⟩, he⟩

theorem inv_store {s : St} (snap : Snapshot) (h : Inv s) : Inv (storeAsCurrent s snap) := by
  unfold storeAsCurrent
  refine ⟨?_, ?_, ?_, h.queueSub⟩
  · intro i hi
    simp only [List.length_append, List.length_singleton] at hi
    by_cases hlt : i < s.snaps.length
    · simp only [List.getElem_append_left hlt]; exact h.ids i hlt
    · have : i = s.snaps.length := by omega
      subst this
      simp [h.last]
  · simp [h.last]
  · intro p hp
    obtain ⟨hq, sn, hsn, he⟩ := h.sentOk p hp
    exact ⟨hq, sn, List.mem_append_left _ hsn, he⟩

theorem stamped_mem_store (s : St) (snap : Snapshot) :
    { snap with id := s.lastId + 1 } ∈ (storeAsCurrent s snap).snaps := by
  simp [storeAsCurrent]

theorem build_good {s : St} (now : Nat) (picks : List Nat) (h : Inv s)
    (hw : (!worthy (current s) (createSnapshot s now)) = false) :
    Good (storeAsCurrent s (createSnapshot s now)) (build s now picks).1 := by
  unfold build
  simp only [hw, Bool.false_eq_true, if_false]
  exact publishAll_good _ now picks (inv_store _ h).good (stamped_mem_store s _)

theorem inv_build {s : St} (now : Nat) (picks : List Nat) (h : Inv s) : Inv (build s now picks).1 := by
  cases hw : (!worthy (current s) (createSnapshot s now))
  · exact inv_of_good (inv_store _ h) (build_good now picks h hw)
  · unfold build
    simp only [hw, if_true]
    exact h

theorem current_mem {s : St} {c : Snapshot} (h : current s = some c) : c ∈ s.snaps :=
  List.mem_of_find?_eq_some h

theorem jit_good {s : St} (c : Nat) (pick : Bool) (h : Inv s) : Good s (jit s c pick).1 := by
  unfold jit
  split
  · exact h.good
  · exact h.good
  · exact h.good
  · rename_i ci cur pub _ hcur _
    split
    · exact h.good
    · split
      · exact h.good
      · split
        · exact h.good
        · rename_i he
          split
          · exact h.good
          · exact send_good _ _ h.good ⟨enough_ge (by simpa using he), cur, current_mem hcur, rfl⟩

theorem inv_jit {s : St} (c : Nat) (pick : Bool) (h : Inv s) : Inv (jit s c pick).1 :=
  inv_of_good h (jit_good c pick h)

theorem inv_frame {s s' : St} (h : Inv s) (h1 : s'.snaps = s.snaps) (h2 : s'.lastId = s.lastId)
    (h3 : s'.sent = s.sent) (h4 : s'.queue = s.queue) : Inv s' := by
  refine ⟨?_, ?_, ?_, ?_⟩
  · rw [h1]; exact h.ids
  · rw [h1, h2]; exact h.last
  · rw [h1, h3]; exact h.sentOk
  · rw [h3, h4]; exact h.queueSub

theorem inv_step {s : St} (op : Op) (h : Inv s) : Inv (step s op) := by
  cases op with
  | setStaking l => exact inv_frame h rfl rfl rfl rfl
  | register v a =>
    simp only [step, register]
    split
    · exact h
    · split
      · exact h
      · split
        · exact h
        · exact inv_frame h rfl rfl rfl rfl
  | support c =>
    simp only [step, support]
    split
    · exact h
    · exact inv_frame h rfl rfl rfl rfl
  | activate c =>
    simp only [step, activate]
    split
    · exact h
    · exact inv_frame h rfl rfl rfl rfl
  | remove c =>
    simp only [step, remove]
    split
    · exact h
    · exact inv_frame h rfl rfl rfl rfl
  | build now picks => exact inv_build now picks h
  | onChain id c => exact inv_setOnChain id c h
  | jit c pick => exact inv_jit c pick h

theorem inv_run {s : St} (ops : List Op) (h : Inv s) : Inv (run s ops) := by
  induction ops generalizing s with
  | nil => exact h
  | cons op ops ih => exact ih (inv_step op h)

theorem inv_reachable (ops : List Op) : Inv (run St.init ops) := inv_run ops inv_init

/-! ### the store only grows -/

theorem good_snapsExtend {s0 s : St} (h : Good s0 s) : SnapsExtend s0.snaps s.snaps := by
  rw [h.snaps]; exact SnapsExtend.refl _

theorem step_snapsExtend {s : St} (op : Op) (h : Inv s) : SnapsExtend s.snaps (step s op).snaps := by
  cases op with
  | setStaking l => exact SnapsExtend.refl _
  | register v a =>
    simp only [step, register]
    split
    · exact SnapsExtend.refl _
    · split
      · exact SnapsExtend.refl _
      · split <;> exact SnapsExtend.refl _
  | support c =>
    simp only [step, support]
    split <;> exact SnapsExtend.refl _
  | activate c =>
    simp only [step, activate]
    split <;> exact SnapsExtend.refl _
  | remove c =>
    simp only [step, remove]
    split <;> exact SnapsExtend.refl _
  | build now picks =>
    simp only [step]
    cases hw : (!worthy (current s) (createSnapshot s now))
    · rw [(build_good now picks h hw).snaps]
      exact snapsExtend_append _ _
    · unfold build
      simp only [hw, if_true]
      exact SnapsExtend.refl _
  | onChain id c =>
    simp only [step, setOnChain]
    split
    · exact SnapsExtend.refl _
    · exact snapsExtend_onChain _ _ _
  | jit c pick =>
    simp only [step, (jit_good c pick h).snaps]
    exact SnapsExtend.refl _

theorem run_snapsExtend {s : St} (ops : List Op) (h : Inv s) : SnapsExtend s.snaps (run s ops).snaps := by
  induction ops generalizing s with
  | nil => exact SnapsExtend.refl _
  | cons op ops ih => exact (step_snapsExtend op h).trans (ih (inv_step op h))

end Lemmas

/-! ## Property theorems (C10) -/

/-- **snapshot_exact** ("every snapshot lists exactly the bonded, unjailed validators that have an
account on every active remote chain, with each share equal to the validator's bonded stake and the
total equal to their sum"). For every staking state, registration state and set of chains the
snapshot built by `createSnapshot` lists, in store order and each exactly once, the staking
validators that are bonded, not jailed and have an account on every active chain; the share is
the validator's tokens, the recorded accounts are its registered accounts, the total is the sum
of the shares and the fresh snapshot is live on no chain. -/
theorem snapshot_exact (s : St) (now : Nat) :
    (createSnapshot s now).vals =
        (s.staking.filter (eligible s)).map
          (fun sv => { id := sv.id, share := sv.tokens, accts := acctsOf s sv.id }) ∧
    (∀ sv, eligible s sv = true ↔
        sv.status = .bonded ∧ sv.jailed = false ∧
          ∀ c ∈ activeChains s, ∃ a ∈ acctsOf s sv.id, a.chain = c) ∧
    (∀ v, v ∈ (createSnapshot s now).vals ↔
        ∃ sv ∈ s.staking, sv.status = .bonded ∧ sv.jailed = false ∧
          (∀ c ∈ activeChains s, ∃ a ∈ acctsOf s sv.id, a.chain = c) ∧
          v = { id := sv.id, share := sv.tokens, accts := acctsOf s sv.id }) ∧
    (createSnapshot s now).total = ((createSnapshot s now).vals.map (·.share)).sum ∧
    (createSnapshot s now).chains = [] := by
  refine ⟨rfl, eligible_iff s, ?_, rfl, rfl⟩
  intro v
  simp only [createSnapshot, List.mem_map, List.mem_filter]
  constructor
  · rintro ⟨sv, ⟨hm, he⟩, rfl⟩
    obtain ⟨h1, h2, h3⟩ := (eligible_iff s sv).mp he
    exact ⟨sv, hm, h1, h2, h3, rfl⟩
  · rintro ⟨sv, hm, h1, h2, h3, rfl⟩
    exact ⟨sv, ⟨hm, (eligible_iff s sv).mpr ⟨h1, h2, h3⟩⟩, rfl⟩

/-- **snapshot_exact, stored.** What `TriggerSnapshotBuild` stores (when it stores anything) is
exactly that snapshot under the next id: it becomes the current snapshot and can be read back by
its id. (Over any reachable pre-state.) -/
theorem build_stores_exact (ops : List Op) (now : Nat) (picks : List Nat) (sn : Snapshot)
    (h : (build (run St.init ops) now picks).2 = some sn) :
    sn = { createSnapshot (run St.init ops) now with id := (run St.init ops).lastId + 1 } ∧
    current (build (run St.init ops) now picks).1 = some sn ∧
    findSnapshot (build (run St.init ops) now picks).1 sn.id = some sn := by
  have hi := inv_reachable ops
  generalize run St.init ops = s at h hi ⊢
  cases hw : (!worthy (current s) (createSnapshot s now))
  · have hg := build_good now picks hi hw
    have hs : sn = { createSnapshot s now with id := s.lastId + 1 } := by
      unfold build at h
      simp only [hw, Bool.false_eq_true, if_false] at h
      exact (Option.some.inj h).symm
    have hinv := inv_store (createSnapshot s now) hi
    have hlen : (storeAsCurrent s (createSnapshot s now)).snaps.length = s.snaps.length + 1 := by
      simp [storeAsCurrent]
    have hf := find_by_pos hinv.ids s.snaps.length (by omega)
    have hget : (storeAsCurrent s (createSnapshot s now)).snaps[s.snaps.length]'(by omega) = sn := by
      simp [storeAsCurrent, hs]
    rw [hget] at hf
    have hid : sn.id = s.snaps.length + 1 := by rw [hs]; simp [hi.last]
    refine ⟨hs, ?_, ?_⟩
    · unfold current findSnapshot
      rw [hg.snaps, hg.lastId]
      have : (storeAsCurrent s (createSnapshot s now)).lastId = s.snaps.length + 1 := by
        simp [storeAsCurrent, hi.last]
      rw [this]; exact hf
    · unfold findSnapshot
      rw [hg.snaps, hid]; exact hf
  · unfold build at h
    simp [hw] at h

/-- **ids_strictly_increase.** In every reachable state the stored snapshots carry the ids
`1, 2, …, n` in storage order (so ids strictly increase and never repeat), the id counter equals
`n`, and a build that stores a snapshot gives it an id greater than every stored id. -/
theorem ids_strictly_increase (ops : List Op) :
    ((run St.init ops).snaps.map (·.id)).Pairwise (· < ·) ∧
    (∀ i (h : i < (run St.init ops).snaps.length), (run St.init ops).snaps[i].id = i + 1) ∧
    (run St.init ops).lastId = (run St.init ops).snaps.length ∧
    (∀ now picks sn, (build (run St.init ops) now picks).2 = some sn →
        ∀ old ∈ (run St.init ops).snaps, old.id < sn.id) := by
  have hi := inv_reachable ops
  generalize run St.init ops = s at hi ⊢
  refine ⟨?_, hi.ids, hi.last, ?_⟩
  · rw [List.pairwise_map, List.pairwise_iff_getElem]
    intro i j hi' hj hij
    rw [hi.ids i hi', hi.ids j hj]; omega
  · intro now picks sn h old hold
    obtain ⟨i, hlt, rfl⟩ := List.mem_iff_getElem.mp hold
    have hs : sn.id = s.lastId + 1 := by
      unfold build at h
      split at h
      · simp at h
      · rw [← Option.some.inj h]
    rw [hs, hi.ids i hlt, hi.last]; omega

/-- **current_is_max** ("the current snapshot is the one with the highest id"). In every reachable
state: no snapshot stored ⇒ no current snapshot; otherwise the current snapshot exists, is the
stored record with the highest id (the last one stored), and every stored id is at most its id. -/
theorem current_is_max (ops : List Op) :
    ((run St.init ops).snaps = [] → current (run St.init ops) = none) ∧
    (∀ h : (run St.init ops).snaps ≠ [],
        current (run St.init ops) = some ((run St.init ops).snaps.getLast h)) ∧
    (∀ c, current (run St.init ops) = some c →
        c ∈ (run St.init ops).snaps ∧ ∀ sn ∈ (run St.init ops).snaps, sn.id ≤ c.id) := by
  have hi := inv_reachable ops
  generalize run St.init ops = s at hi ⊢
  have hlast : ∀ h : s.snaps ≠ [], current s = some (s.snaps.getLast h) := by
    intro h
    have hpos : 0 < s.snaps.length := List.length_pos_iff.mpr h
    have hf := find_by_pos hi.ids (s.snaps.length - 1) (by omega)
    unfold current findSnapshot
    rw [hi.last]
    have e : s.snaps.length - 1 + 1 = s.snaps.length := by omega
    rw [e] at hf
    rw [hf, List.getLast_eq_getElem]
  refine ⟨?_, hlast, ?_⟩
  · intro h
    unfold current findSnapshot
    rw [h]; rfl
  · intro c hc
    refine ⟨current_mem hc, ?_⟩
    intro sn hsn
    have hne : s.snaps ≠ [] := List.ne_nil_of_mem hsn
    have hpos : 0 < s.snaps.length := List.length_pos_iff.mpr hne
    have := hlast hne
    rw [this] at hc
    have hc' := (Option.some.inj hc).symm
    obtain ⟨i, hlt, rfl⟩ := List.mem_iff_getElem.mp hsn
    rw [hc', List.getLast_eq_getElem, hi.ids i hlt, hi.ids _ (by omega)]
    omega

/-- **stored_immutable** ("a stored snapshot never changes except that chains can be added to
the list of chains where it is live"). Take any reachable state and any snapshot `sn` stored in
it; after ANY further sequence of operations, looking the id up (`FindSnapshotByID`) yields a
record with the same id, validators, shares, accounts, total and creation time whose chain list
has `sn.chains` as a prefix. -/
theorem stored_immutable (ops0 ops : List Op) (sn : Snapshot) (h : sn ∈ (run St.init ops0).snaps) :
    ∃ sn', findSnapshot (run (run St.init ops0) ops) sn.id = some sn' ∧
      sn'.id = sn.id ∧ sn'.vals = sn.vals ∧ sn'.total = sn.total ∧ sn'.createdAt = sn.createdAt ∧
      sn.chains <+: sn'.chains := by
  have hi := inv_reachable ops0
  generalize run St.init ops0 = s at h hi ⊢
  have hi' := inv_run ops hi
  have hext := run_snapsExtend ops hi
  obtain ⟨i, hlt, rfl⟩ := List.mem_iff_getElem.mp h
  have hlt' : i < (run s ops).snaps.length := Nat.lt_of_lt_of_le hlt hext.1
  refine ⟨(run s ops).snaps[i], ?_, hext.2 i hlt hlt'⟩
  unfold findSnapshot
  rw [hi.ids i hlt]
  exact find_by_pos hi'.ids i hlt'

/-- **stored_immutable, store level.** No operation ever removes or reorders stored snapshots. -/
theorem store_only_grows (ops0 ops : List Op) :
    (run St.init ops0).snaps.length ≤ (run (run St.init ops0) ops).snaps.length :=
  (run_snapsExtend ops (inv_reachable ops0)).1

/-- **powers_floor** ("each with its stake fraction scaled to 2^32 and rounded down as power").
Every entry of the valset for `chain` is the remote address of the first EVM account on `chain`
of a snapshot validator, and its power is exactly `⌊share · 2^32 / Σ shares⌋`. -/
theorem powers_floor (snap : Snapshot) (chain : Nat) (m : Nat × Nat)
    (h : m ∈ (transform snap chain).members) :
    ∃ v ∈ snap.vals, ∃ a ∈ v.accts, isEvm a.ctype = true ∧ a.chain = chain ∧
      (v.accts.filter (fun a => isEvm a.ctype && a.chain == chain)).head? = some a ∧
      m.1 = a.addr ∧ m.2 = v.share * 2 ^ 32 / (snap.vals.map (·.share)).sum := by
  have hm := (transform_members_perm snap chain).mem_iff.mp h
  obtain ⟨v, hv, hmv⟩ := List.mem_flatMap.mp hm
  obtain ⟨a, ha, rfl⟩ := mem_membersOf.mp hmv
  obtain ⟨h1, h2, h3⟩ := head_matching ha
  exact ⟨v, hv, a, h1, h2, h3, ha, rfl, rfl⟩

/-- **powers_floor for stored snapshots**: the divisor is the snapshot's recorded total. -/
theorem powers_floor_created (s : St) (now chain : Nat) (m : Nat × Nat)
    (h : m ∈ (transform (createSnapshot s now) chain).members) :
    ∃ v ∈ (createSnapshot s now).vals, ∃ a ∈ v.accts, isEvm a.ctype = true ∧ a.chain = chain ∧
      m.1 = a.addr ∧ m.2 = v.share * 2 ^ 32 / (createSnapshot s now).total := by
  obtain ⟨v, hv, a, ha, h1, h2, _, h3, h4⟩ := powers_floor _ _ _ h
  exact ⟨v, hv, a, ha, h1, h2, h3, h4⟩

/-- **restricted_to_chain** ("that snapshot restricted to validators with an account there").
The valset for `chain` is, up to order, the list obtained by walking the snapshot validators and
emitting ONE entry — address of the first EVM account on `chain`, floored power — for every
validator that has such an account and nothing for the others; so it has exactly as many entries
as there are validators with an account there; the entries are ordered by non-increasing power;
the valset carries the snapshot's id. -/
theorem restricted_to_chain (snap : Snapshot) (chain : Nat) :
    (transform snap chain).id = snap.id ∧
    (transform snap chain).members.Perm
      (snap.vals.flatMap (fun v =>
        ((v.accts.filter (fun a => isEvm a.ctype && a.chain == chain)).take 1).map
          (fun a => (a.addr, v.share * 2 ^ 32 / (snap.vals.map (·.share)).sum)))) ∧
    (transform snap chain).members.length =
      (snap.vals.filter (fun v => v.accts.any (fun a => isEvm a.ctype && a.chain == chain))).length ∧
    (∀ addr, addr ∈ (transform snap chain).members.map (·.1) ↔
      ∃ v ∈ snap.vals, ∃ a,
        (v.accts.filter (fun a => isEvm a.ctype && a.chain == chain)).head? = some a ∧ a.addr = addr) ∧
    ((transform snap chain).members.map (·.2)).Pairwise (· ≥ ·) := by
  refine ⟨rfl, transform_members_perm snap chain, ?_, ?_, ?_⟩
  · rw [(transform_members_perm snap chain).length_eq]
    generalize sumShares snap.vals = total
    induction snap.vals with
    | nil => simp
    | cons v vs ih =>
      simp only [List.flatMap_cons, List.length_append, ih, List.filter_cons]
      have hl : (membersOf chain total v).length =
          if v.accts.any (fun a => isEvm a.ctype && a.chain == chain) then 1 else 0 := by
        unfold membersOf chosen matching
        simp only [List.length_map, List.length_take]
        cases hf : v.accts.filter (fun a => isEvm a.ctype && a.chain == chain) with
        | nil =>
          have : v.accts.any (fun a => isEvm a.ctype && a.chain == chain) = false := by
            rw [List.any_eq_false]
            intro a ha hp
            have : a ∈ v.accts.filter (fun a => isEvm a.ctype && a.chain == chain) :=
              List.mem_filter.mpr ⟨ha, hp⟩
            rw [hf] at this; simp at this
          simp [this]
        | cons x xs =>
          have hx : x ∈ v.accts.filter (fun a => isEvm a.ctype && a.chain == chain) := by
            rw [hf]; simp
          have : v.accts.any (fun a => isEvm a.ctype && a.chain == chain) = true :=
            List.any_eq_true.mpr ⟨x, (List.mem_filter.mp hx).1, (List.mem_filter.mp hx).2⟩
          simp [this]
      rw [hl]
      split <;> simp <;> omega
  · intro addr
    simp only [List.mem_map]
    constructor
    · rintro ⟨m, hm, rfl⟩
      obtain ⟨v, hv, a, _, _, _, hh, h3, _⟩ := powers_floor snap chain m hm
      exact ⟨v, hv, a, hh, h3.symm⟩
    · rintro ⟨v, hv, a, hh, rfl⟩
      refine ⟨(a.addr, power v.share (sumShares snap.vals)), ?_, rfl⟩
      apply (transform_members_perm snap chain).mem_iff.mpr
      exact List.mem_flatMap.mpr ⟨v, hv, mem_membersOf.mpr ⟨a, hh, rfl⟩⟩
  · -- order: the validators are walked by non-increasing share and power is monotone in the share
    unfold transform
    simp only
    generalize sumShares (sortDesc snap.vals) = total
    have hd := sortDesc_desc snap.vals
    generalize sortDesc snap.vals = l at hd
    induction l with
    | nil => simp
    | cons v vs ih =>
      have hv := List.pairwise_cons.mp hd
      simp only [List.flatMap_cons, List.map_append]
      rw [List.pairwise_append]
      refine ⟨?_, ih hv.2, ?_⟩
      · unfold membersOf
        simp only [List.map_map]
        rw [List.pairwise_map]
        exact List.pairwise_iff_getElem.mpr (fun _ _ _ _ _ => Nat.le_refl _)
      · intro p hp q hq
        obtain ⟨m, hm, rfl⟩ := List.mem_map.mp hp
        obtain ⟨m', hm', rfl⟩ := List.mem_map.mp hq
        obtain ⟨a, _, rfl⟩ := mem_membersOf.mp hm
        obtain ⟨w, hw, hmw⟩ := List.mem_flatMap.mp hm'
        obtain ⟨b, _, rfl⟩ := mem_membersOf.mp hmw
        exact power_mono _ _ _ (hv.1 w hw)

/-- **powers_sum_le** ("so powers sum to at most 2^32"). For EVERY snapshot and chain the powers
of the valset sum to at most `2^32` (also when the total stake is 0: all powers are then 0, and
also when validators registered several accounts on the chain: each is listed once). -/
theorem powers_sum_le (snap : Snapshot) (chain : Nat) :
    ((transform snap chain).members.map (·.2)).sum ≤ 2 ^ 32 := by
  have := powerSum_transform snap chain
  unfold powerSum at this
  rw [this]
  have h1 : ∀ (l : List Val) (total : Nat),
      (l.map (fun v => (chosen chain v).length * power v.share total)).sum ≤
        (l.map (fun v => power v.share total)).sum := by
    intro l total
    induction l with
    | nil => simp
    | cons v vs ih =>
      simp only [List.map_cons, List.sum_cons]
      have hv : (chosen chain v).length ≤ 1 := chosen_length_le chain v
      have : (chosen chain v).length * power v.share total ≤ power v.share total := by
        have := Nat.mul_le_mul_right (power v.share total) hv
        simpa using this
      omega
  have h1 := h1 snap.vals (sumShares snap.vals)
  have h2 := sum_power_le (snap.vals.map (·.share)) (sumShares snap.vals)
  rw [List.map_map] at h2
  have h3 : power (snap.vals.map (·.share)).sum (sumShares snap.vals) ≤ maxPower :=
    power_le_max _ _ (Nat.le_refl _)
  have e : (snap.vals.map ((fun a => power a (sumShares snap.vals)) ∘ (·.share))) =
      snap.vals.map (fun v => power v.share (sumShares snap.vals)) := rfl
  rw [e] at h2
  exact Nat.le_trans h1 (Nat.le_trans h2 h3)

/-- **powers_sum_le, arithmetic core**: for any shares that sum to at most the divisor, the
floored powers sum to at most `2^32`. -/
theorem powers_sum_le_of_shares (shares : List Nat) (total : Nat) (h : shares.sum ≤ total) :
    (shares.map (fun a => a * 2 ^ 32 / total)).sum ≤ 2 ^ 32 :=
  Nat.le_trans (sum_power_le shares total) (power_le_max _ _ h)

/-- **powers_sum_le over histories.** Every valset ever sent, in every history, has powers
summing to at most `2^32` (and at least the quorum constant, see below). -/
theorem sent_sum_le (ops : List Op) :
    ∀ p ∈ (run St.init ops).sent, (p.2.members.map (·.2)).sum ≤ 2 ^ 32 := by
  intro p hp
  obtain ⟨_, sn, _, he⟩ := (inv_reachable ops).sentOk p hp
  rw [he]
  exact powers_sum_le sn p.1

/-- the valset as the PINNED tree built it (before repo fix 8962e1ca): one entry per matching
account, so a validator with two EVM accounts on the chain was listed — and counted — twice -/
def transformPinned (snap : Snapshot) (chain : Nat) : Valset :=
  { id := snap.id,
    members := (sortDesc snap.vals).flatMap (fun v =>
      (matching chain v).map (fun a => (a.addr, power v.share (sumShares (sortDesc snap.vals))))) }

/-- **negation witness for the pinned tree**: with that construction the powers of a one-validator
snapshot sum to `2^33 > 2^32`; the fixed construction lists the validator once. -/
theorem pinned_double_counts :
    powerSum (transformPinned ⟨7, [⟨1, 5, [⟨0, 1, 11, []⟩, ⟨1, 1, 12, []⟩]⟩], 5, 0, []⟩ 1) = 2 ^ 33 ∧
    (transform ⟨7, [⟨1, 5, [⟨0, 1, 11, []⟩, ⟨1, 1, 12, []⟩]⟩], 5, 0, []⟩ 1).members = [(11, 2 ^ 32)] := by
  decide

/-- where both constructions agree: no validator has two EVM accounts on the chain -/
theorem transformPinned_eq (snap : Snapshot) (chain : Nat)
    (h : ∀ v ∈ snap.vals, (matching chain v).length ≤ 1) : transformPinned snap chain = transform snap chain := by
  unfold transformPinned transform
  have key : ∀ (l : List Val) (total : Nat), (∀ v ∈ l, (matching chain v).length ≤ 1) →
      l.flatMap (fun v => (matching chain v).map (fun a => (a.addr, power v.share total))) =
        l.flatMap (membersOf chain total) := by
    intro l total hl
    induction l with
    | nil => rfl
    | cons v vs ih =>
      simp only [List.flatMap_cons]
      rw [ih (fun w hw => hl w (by simp [hw]))]
      unfold membersOf chosen
      rw [List.take_of_length_le (hl v (by simp))]
  rw [key _ _ (fun v hv => h v (mem_sortDesc.mp hv))]

/-- **sent_only_with_quorum** ("it is only sent when those powers sum to at least two thirds of
2^32" — with the implementation's constant). Over all histories: every UpdateValset message ever
put into a queue (`sent`), and hence every message pending in a queue, carries powers that sum to
at least `thresholdForConsensus = 2863311530`, and is the valset of a stored snapshot for the
chain whose queue it is in. -/
theorem sent_only_with_quorum (ops : List Op) :
    (∀ p ∈ (run St.init ops).sent,
        2863311530 ≤ (p.2.members.map (·.2)).sum ∧
        ∃ sn ∈ (run St.init ops).snaps, p.2 = transform sn p.1) ∧
    (∀ p ∈ (run St.init ops).queue, p ∈ (run St.init ops).sent) :=
  ⟨(inv_reachable ops).sentOk, (inv_reachable ops).queueSub⟩

/-- the quorum test itself: passing it means `Σ powers ≥ 2863311530` -/
theorem enough_iff (v : Valset) : enough v = true ↔ 2863311530 ≤ (v.members.map (·.2)).sum % 2 ^ 64 := by
  unfold enough powerSum thresholdForConsensus
  simp

/-- **the constant is NOT two thirds of 2^32**: a power sum of exactly `2863311530` passes the
test although `3 · sum < 2 · 2^32`. -/
theorem threshold_below_two_thirds : ¬ (3 * thresholdForConsensus ≥ 2 * 2 ^ 32) := by decide

/-- one more unit would be two thirds -/
theorem threshold_succ_is_two_thirds : 3 * (thresholdForConsensus + 1) ≥ 2 * 2 ^ 32 := by decide

theorem threshold_is_floor : thresholdForConsensus = 2 * 2 ^ 32 / 3 := by decide

/-- consequence for sent valsets: at most two thirds of a unit short of `2/3 · 2^32` -/
theorem sent_quorum_gap (ops : List Op) (p : Nat × Valset) (h : p ∈ (run St.init ops).sent) :
    3 * (p.2.members.map (·.2)).sum + 2 ≥ 2 * 2 ^ 32 := by
  have := ((sent_only_with_quorum ops).1 p h).1
  omega

/-! ## Non-vacuity -/

/-- two bonded validators with stakes 2:1, a jailed unbonding one; chain 1 is added, activated,
validator 1 registers an EVM account there, validator 2 an account of another chain type -/
def exStaking : List SVal :=
  [⟨1, .bonded, false, 2000000⟩, ⟨2, .bonded, false, 1000000⟩, ⟨3, .unbonding, true, 5⟩, ⟨4, .bonded, true, 7⟩]

def exOps : List Op :=
  [.setStaking exStaking, .build 10 [], .support 1, .activate 1,
   .register 1 [⟨0, 1, 101, []⟩], .register 2 [⟨2, 1, 102, [7]⟩], .register 3 [⟨0, 1, 103, []⟩],
   .build 20 [1]]

/-- the second build stores snapshot 2 = exactly validators 1 and 2 (3 is unbonding and could not
even register, 4 is jailed), shares = tokens, total = their sum -/
example : (run St.init exOps).snaps.map (fun sn => (sn.id, sn.vals.map (fun v => (v.id, v.share)), sn.total)) =
    [(1, [(1, 2000000), (2, 1000000)], 3000000), (2, [(1, 2000000), (2, 1000000)], 3000000)] := by decide

example : (current (run St.init exOps)).map (·.id) = some 2 := by decide

/-- **negation witness for "two thirds"**: this history SENDS a valset to chain 1 whose powers sum
to exactly 2863311530, and `3 · 2863311530 < 2 · 2^32`. -/
example : (run St.init exOps).sent = [(1, ⟨2, [(101, 2863311530)]⟩)] := by decide

example : ∃ p ∈ (run St.init exOps).sent, 3 * powerSum p.2 < 2 * 2 ^ 32 :=
  ⟨(1, ⟨2, [(101, 2863311530)]⟩), by decide, by decide⟩

/-- with stakes 2:1 − ε nothing is sent -/
example : (run St.init [.setStaking [⟨1, .bonded, false, 1999999⟩, ⟨2, .bonded, false, 1000000⟩],
    .support 1, .activate 1, .register 1 [⟨0, 1, 101, []⟩], .register 2 [⟨2, 1, 102, []⟩],
    .build 20 [1]]).sent = [] := by decide

/-- on-chain activation extends the chain list and nothing else; a later build adds snapshot 3 -/
example : (run St.init (exOps ++ [.onChain 2 1, .onChain 2 3, .onChain 9 1,
      .setStaking [⟨1, .bonded, false, 2000000⟩], .build 30 [1]])).snaps.map
        (fun sn => (sn.id, sn.chains, sn.vals.length)) = [(1, [], 2), (2, [1, 3], 2), (3, [], 1)] := by decide

/-- the float64 counterexample of the pinned tree: the floor is …688 (float64 gave …689) -/
example : power 8372225 8388609 = 4286578688 := by decide

example : power 3187511 (3187511 + 1006798) = 3264007372 := by decide

/-- stakes of 2^62 each (total 2^63, where `Int64()` panicked) -/
example : (transform ⟨7, [⟨1, 2 ^ 62, [⟨0, 1, 11, []⟩]⟩, ⟨2, 2 ^ 62, [⟨0, 1, 12, []⟩]⟩], 2 ^ 63, 0, []⟩ 1).members =
    [(12, 2 ^ 31), (11, 2 ^ 31)] := by decide

/-- equal shares come out in REVERSE store order (`sort.SliceStable` with `GTE` as "less") -/
example : (transform ⟨7, [⟨1, 5, [⟨0, 1, 11, []⟩]⟩, ⟨2, 9, [⟨0, 1, 12, []⟩]⟩, ⟨3, 5, [⟨1, 1, 13, []⟩]⟩, ⟨4, 5, [⟨2, 1, 14, []⟩]⟩], 24, 0, []⟩ 1).members.map (·.1) =
    [12, 13, 11] := by decide

/-- registration accepts two EVM accounts on one chain (nothing in `SetExternalChainInfoState`
forbids it); such a validator is listed ONCE, under its first account -/
example : (register (run St.init [.setStaking exStaking]) 1 [⟨0, 1, 11, []⟩, ⟨1, 1, 12, []⟩]).2 = .ok := by decide

example : (run St.init [.setStaking [⟨1, .bonded, false, 5⟩, ⟨2, .bonded, false, 5⟩], .support 1, .activate 1,
    .register 1 [⟨0, 1, 11, []⟩, ⟨1, 1, 12, []⟩], .register 2 [⟨2, 1, 14, []⟩, ⟨0, 1, 13, []⟩],
    .build 20 [1]]).sent = [(1, ⟨1, [(13, 2 ^ 31), (11, 2 ^ 31)]⟩)] := by decide

end Paloma.Valset
