/-
C09, the clause "the only deliberate stop is the version gate that halts a node running software older than the
upgrade governance has completed": what the gate halts, for every pair of version strings.
Model: Model/VersionGate.lean; tie: harness/c09_gate_test.go drives the real `CheckChainVersion` (a keeper value with a
stub upgrade keeper) on generated version pairs and the same lines go through the driver (`C09G gate …`).
-/
import PalomaModel.Model.VersionGate

namespace Paloma.VersionGate
open Paloma.KeepAlive

section Lemmas

theorem lexLt_irrefl (a : List Nat) : lexLt a a = false := by
  induction a with
  | nil => rfl
  | cons x xs ih => simp [lexLt, ih]

theorem lexLt_asymm : ∀ (a b : List Nat), lexLt a b = true → lexLt b a = false
  | _, [], h => by simp [lexLt] at h
  | [], _ :: _, _ => by simp [lexLt]
  | x :: xs, y :: ys, h => by
    simp only [lexLt] at h ⊢
    by_cases h1 : x < y
    · have : ¬ y < x := by omega
      simp [this, h1]
    · by_cases h2 : y < x
      · simp [h1, h2] at h
      · simp only [h1, h2, ↓reduceIte] at h ⊢
        exact lexLt_asymm xs ys h

end Lemmas

/-! ## Property theorems -/

/-- before any upgrade has completed the gate never stops a node -/
theorem no_completed_upgrade_never_halts (app gov : Ver) (h : Nat) (hn : gov = [] ∨ h = 0) :
    halts app gov h = false := by
  unfold halts
  rcases hn with hn | hn <;> simp [hn]

/-- **the gate halts only** a node outside the completed upgrade's major.minor line or running an older version
    of that line (older in the sense of `semver.Compare`: numeric fields by value, pre-releases before the release) -/
theorem halts_only_if (app gov : Ver) (h : Nat) (hh : halts app gov h = true) :
    mmKey app ≠ mmKey (withV gov) ∨ vlt app (withV gov) = true := by
  unfold halts at hh
  by_cases h0 : (gov.isEmpty || h == 0) = true
  · simp [h0] at hh
  · by_cases hm : mmKey app = mmKey (withV gov)
    · simp [h0, hm] at hh
      exact Or.inr hh
    · exact Or.inl hm

/-- **a node running the completed upgrade itself, or anything newer on the same major.minor line, is never halted**:
    same line and not older ⇒ runs.  (In particular a newer patch release — `v2.4.10` after `v2.4.9` — runs: the
    comparison is numeric, see the examples.) -/
theorem same_line_not_older_runs (app gov : Ver) (h : Nat)
    (hm : mmKey app = mmKey (withV gov)) (hge : vlt app (withV gov) = false) : halts app gov h = false := by
  unfold halts
  by_cases h0 : (gov.isEmpty || h == 0) = true
  · simp [h0]
  · simp [h0, hm, hge]

/-- the node that runs exactly the completed upgrade's version is never halted -/
theorem exact_version_runs (gov : Ver) (h : Nat) : halts (withV gov) gov h = false :=
  same_line_not_older_runs _ _ _ rfl (by simp [vlt, lexLt_irrefl])

/-- strictly newer on the same line ⇒ runs (asymmetry of the version order) -/
theorem newer_on_same_line_runs (app gov : Ver) (h : Nat)
    (hm : mmKey app = mmKey (withV gov)) (hgt : vlt (withV gov) app = true) : halts app gov h = false :=
  same_line_not_older_runs _ _ _ hm (lexLt_asymm _ _ hgt)

/-- and the gate does halt what it is there for: an older version of the line, once an upgrade has completed -/
theorem older_halts (app gov : Ver) (h : Nat) (hg : gov ≠ []) (hh : h ≠ 0) (hlt : vlt app (withV gov) = true) :
    halts app gov h = true := by
  unfold halts
  have h0 : (gov.isEmpty || h == 0) = false := by
    cases gov with
    | nil => exact absurd rfl hg
    | cons _ _ => simp [hh]
  by_cases hm : mmKey app = mmKey (withV gov) <;> simp [h0, hm, hlt]

/-! ### non-vacuity: concrete version strings (ASCII) -/
def s (x : String) : Ver := x.toUTF8.toList

example : halts (s "v2.4.10") (s "v2.4.9") 100 = false := by decide +kernel      -- numeric, not lexicographic
example : halts (s "v2.4.100") (s "2.4.20") 100 = false := by decide +kernel     -- upgrade name without the leading v
example : halts (s "v2.4.9") (s "v2.4.10") 100 = true := by decide +kernel       -- older patch: halted
example : halts (s "v2.4.0-rc1") (s "v2.4.0") 100 = true := by decide +kernel    -- a pre-release is older than its release
example : halts (s "v2.5.0") (s "v2.4.0") 100 = true := by decide +kernel        -- outside the major.minor line
example : halts (s "v2.4.9") (s "v2.4.10") 0 = false := by decide +kernel        -- no completed upgrade
example : mmKey (s "v2.4.10") = mmKey (withV (s "2.4.9")) ∧ vlt (withV (s "2.4.9")) (s "v2.4.10") = true := by decide +kernel

end Paloma.VersionGate
