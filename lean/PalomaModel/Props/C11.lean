/-
C11 — votes are pooled only for claims identical in every effect-bearing field.
`Model/ClaimHash.lean` is the pre-image of `ClaimHash`; the attestation key is
(chain prefix, nonce, H(pre-image)). Which fields each claim type hashes, and that they cover the
effect-bearing fields, is the generated table `Gen/Claims.lean` (checked below by `decide`).
-/
import PalomaModel.Model.ClaimHash
import PalomaModel.Gen.Claims
import PalomaModel.Gen.Auth

namespace Paloma.ClaimHash
open List

/-! ## helper lemmas -/
section Lemmas

def ofDigits (l : List Nat) : Nat := l.foldl (fun acc d => 10 * acc + (d - 48)) 0

theorem ofDigits_append (l : List Nat) (d : Nat) : ofDigits (l ++ [d]) = 10 * ofDigits l + (d - 48) := by
  simp [ofDigits, List.foldl_append]

theorem ofDigits_dec (n : Nat) : ofDigits (decDigits n) = n := by
  induction n using Nat.strongRecOn with
  | _ n ih =>
    rw [decDigits]
    split
    · simp [ofDigits]
    · rw [ofDigits_append, ih (n / 10) (by omega)]; omega

theorem decDigits_inj {a b : Nat} (h : decDigits a = decDigits b) : a = b := by
  have := congrArg ofDigits h
  simpa [ofDigits_dec] using this

theorem decDigits_ge (n : Nat) : ∀ d ∈ decDigits n, 48 ≤ d := by
  induction n using Nat.strongRecOn with
  | _ n ih =>
    rw [decDigits]
    split
    · intro d hd; simp at hd; omega
    · intro d hd
      rcases List.mem_append.mp hd with hd | hd
      · exact ih (n / 10) (by omega) d hd
      · simp at hd; omega

theorem decDigits_ne_nil (n : Nat) : decDigits n ≠ [] := by
  rw [decDigits]; split <;> simp

theorem hexd_ge (n : Nat) : 48 ≤ hexd n := by unfold hexd; split <;> omega

theorem hexd_inj {a b : Nat} (h : hexd a = hexd b) : a = b := by
  unfold hexd at h; split at h <;> split at h <;> omega

theorem encStr_ge (b : List Nat) : ∀ d ∈ encStr b, 48 ≤ d := by
  induction b with
  | nil => intro d hd; simp [encStr] at hd
  | cons x xs ih =>
    intro d hd
    simp only [encStr, List.mem_cons] at hd
    rcases hd with rfl | rfl | hd
    · exact hexd_ge _
    · exact hexd_ge _
    · exact ih d hd

theorem encStr_inj {a b : List Nat} (h : encStr a = encStr b) : a = b := by
  induction a generalizing b with
  | nil => cases b with
    | nil => rfl
    | cons y ys => simp [encStr] at h
  | cons x xs ih =>
    cases b with
    | nil => simp [encStr] at h
    | cons y ys =>
      simp only [encStr, List.cons.injEq] at h
      have h1 := hexd_inj h.1
      have h2 := hexd_inj h.2.1
      have : x = y := by omega
      rw [this, ih h.2.2]

/-- no encoded field contains the separator -/
theorem enc_noSlash (f : Field) : slash ∉ enc f := by
  intro h
  cases f with
  | num n => have := decDigits_ge n _ h; simp [slash] at this
  | amt i =>
    simp only [enc] at h
    split at h
    · rcases List.mem_cons.mp h with h | h
      · simp [slash] at h
      · have := decDigits_ge _ _ h; simp [slash] at this
    · have := decDigits_ge _ _ h; simp [slash] at this
  | nilAmt => simp [enc, slash] at h
  | str b => have := encStr_ge b _ h; simp [slash] at this

theorem neg_vs_pos (a b : Nat) (h : 45 :: decDigits a = decDigits b) : False := by
  have hne := decDigits_ne_nil b
  cases hb : decDigits b with
  | nil => exact hne hb
  | cons d ds =>
    rw [hb] at h
    have := (List.cons.inj h).1
    have hge := decDigits_ge b d (by rw [hb]; simp)
    omega

theorem dec_vs_nil (a : Nat) (h : decDigits a = [60, 110, 105, 108, 62]) : False := by
  have := decDigits_ge a 62
  have hlast := congrArg List.getLast? h
  rw [decDigits] at hlast
  split at hlast <;> simp at hlast <;> omega

/-- per-field injectivity within one format position -/
theorem enc_inj {f g : Field} (hk : sameKind f g = true) (h : enc f = enc g) : f = g := by
  match f, g, hk, h with
  | .num a, .num b, _, h =>
    simp only [enc] at h; rw [decDigits_inj h]
  | .str a, .str b, _, h =>
    simp only [enc] at h; rw [encStr_inj h]
  | .nilAmt, .nilAmt, _, _ => rfl
  | .amt i, .nilAmt, _, h =>
    exfalso
    simp only [enc] at h
    split at h
    · have := (List.cons.inj h).1; omega
    · exact dec_vs_nil _ h
  | .nilAmt, .amt j, _, h =>
    exfalso
    simp only [enc] at h
    split at h
    · have := (List.cons.inj h).1; omega
    · exact dec_vs_nil _ h.symm
  | .amt i, .amt j, _, h =>
    simp only [enc] at h
    split at h <;> split at h
    · have := decDigits_inj (List.cons.inj h).2
      congr 1; omega
    · exact (neg_vs_pos _ _ h).elim
    · exact (neg_vs_pos _ _ h.symm).elim
    · have := decDigits_inj h
      congr 1; omega

/-- splitting at the first separator is unique -/
theorem prefix_unique {x y r s : List Nat} (hx : slash ∉ x) (hy : slash ∉ y)
    (h : x ++ slash :: r = y ++ slash :: s) : x = y ∧ r = s := by
  induction x generalizing y with
  | nil =>
    cases y with
    | nil => simpa using h
    | cons b ys =>
      simp only [List.nil_append, List.cons_append, List.cons.injEq] at h
      exact absurd (by rw [← h.1]; simp) hy
  | cons a xs ih =>
    cases y with
    | nil =>
      simp only [List.nil_append, List.cons_append, List.cons.injEq] at h
      exact absurd (by rw [h.1]; simp) hx
    | cons b ys =>
      simp only [List.cons_append, List.cons.injEq] at h
      have := ih (y := ys) (fun hm => hx (List.mem_cons_of_mem _ hm)) (fun hm => hy (List.mem_cons_of_mem _ hm)) h.2
      exact ⟨by rw [h.1, this.1], this.2⟩

theorem join_noSlash_single {x : List Nat} : join [x] = x := rfl

theorem join_inj (xs ys : List (List Nat)) (hx : ∀ x ∈ xs, slash ∉ x) (hy : ∀ y ∈ ys, slash ∉ y)
    (hlen : xs.length = ys.length) (h : join xs = join ys) : xs = ys := by
  induction xs generalizing ys with
  | nil => cases ys with
    | nil => rfl
    | cons y ys => simp at hlen
  | cons x xs ih =>
    cases ys with
    | nil => simp at hlen
    | cons y ys =>
      cases xs with
      | nil =>
        cases ys with
        | nil => simp only [join] at h; rw [h]
        | cons z zs => simp at hlen
      | cons x2 xs2 =>
        cases ys with
        | nil => simp at hlen
        | cons y2 ys2 =>
          simp only [join] at h
          have hp := prefix_unique (hx x (by simp)) (hy y (by simp)) h
          have := ih (y2 :: ys2) (fun a ha => hx a (List.mem_cons_of_mem _ ha))
            (fun a ha => hy a (List.mem_cons_of_mem _ ha)) (by simpa using hlen) hp.2
          rw [hp.1, this]

theorem sameShape_length : ∀ (fs gs : List Field), sameShape fs gs = true → fs.length = gs.length
  | [], [], _ => rfl
  | _ :: fs, _ :: gs, h => by
    simp only [sameShape, Bool.and_eq_true] at h
    simp [sameShape_length fs gs h.2]
  | [], _ :: _, h => by simp [sameShape] at h
  | _ :: _, [], h => by simp [sameShape] at h

theorem map_enc_inj : ∀ (fs gs : List Field), sameShape fs gs = true → fs.map enc = gs.map enc → fs = gs
  | [], [], _, _ => rfl
  | f :: fs, g :: gs, hs, h => by
    simp only [sameShape, Bool.and_eq_true] at hs
    simp only [List.map_cons, List.cons.injEq] at h
    rw [enc_inj hs.1 h.1, map_enc_inj fs gs hs.2 h.2]
  | [], _ :: _, hs, _ => by simp [sameShape] at hs
  | _ :: _, [], hs, _ => by simp [sameShape] at hs

theorem count_noSlash {x : List Nat} (h : slash ∉ x) : x.count slash = 0 :=
  List.count_eq_zero.mpr h

/-- a joined pre-image of `n ≥ 1` separator-free parts contains exactly `n - 1` separators -/
theorem count_join : ∀ (xs : List (List Nat)), (∀ x ∈ xs, slash ∉ x) → xs ≠ [] →
    (join xs).count slash + 1 = xs.length
  | [], _, hne => absurd rfl hne
  | [x], h, _ => by simp [join, count_noSlash (h x (by simp))]
  | x :: y :: rest, h, _ => by
    have ih := count_join (y :: rest) (fun a ha => h a (List.mem_cons_of_mem _ ha)) (by simp)
    simp only [join, List.count_append, List.count_cons_self, count_noSlash (h x (by simp)), List.length_cons] at ih ⊢
    omega

theorem nodup_map_inj {α β : Type} (f : α → β) : ∀ (l : List α), (l.map f).Nodup →
    ∀ a ∈ l, ∀ b ∈ l, f a = f b → a = b
  | [], _, a, ha, _, _, _ => by simp at ha
  | x :: xs, hn, a, ha, b, hb, hab => by
    simp only [List.map_cons, List.nodup_cons, List.mem_map, not_exists, not_and] at hn
    rcases List.mem_cons.mp ha with rfl | ha' <;> rcases List.mem_cons.mp hb with rfl | hb'
    · rfl
    · exact absurd hab.symm (hn.1 b hb')
    · exact absurd hab (hn.1 a ha')
    · exact nodup_map_inj f xs hn.2 a ha' b hb' hab

end Lemmas

/-! ## Property theorems (C11) -/

/-- **preimage_injective.** Within one claim format (same field kinds in the same positions),
equal pre-images mean equal field values: no separator ambiguity, no lossy rendering. -/
theorem preimage_injective (fs gs : List Field) (hs : sameShape fs gs = true)
    (h : preimage fs = preimage gs) : fs = gs := by
  unfold preimage at h
  apply map_enc_inj fs gs hs
  apply join_inj
  · intro x hx; rcases List.mem_map.mp hx with ⟨f, _, rfl⟩; exact enc_noSlash f
  · intro x hx; rcases List.mem_map.mp hx with ⟨f, _, rfl⟩; exact enc_noSlash f
  · simp [sameShape_length fs gs hs]
  · exact h

/-- **same_key_same_fields.** ASSUMPTION (named, pointwise): the hash does not collide on the two
pre-images in question (`hnc`; no global injectivity is assumed — no 256-bit hash has it). Then two
claims of one type whose attestation keys (nonce, H(pre-image)) coincide agree on every hashed field. -/
theorem same_key_same_fields (H : List Nat → Nat) (fs gs : List Field) (hs : sameShape fs gs = true)
    (hnc : H (preimage fs) = H (preimage gs) → preimage fs = preimage gs)
    (h : H (preimage fs) = H (preimage gs)) : fs = gs :=
  preimage_injective fs gs hs (hnc h)

/-- **different_fields_different_key_or_collision.** The contrapositive without any assumption on the
hash: claims of one type that differ in a hashed field either get different keys or exhibit a concrete
hash collision between their two (different) pre-images. -/
theorem different_fields_different_key_or_collision (H : List Nat → Nat) (fs gs : List Field)
    (hs : sameShape fs gs = true) (hne : fs ≠ gs) :
    H (preimage fs) ≠ H (preimage gs) ∨ (preimage fs ≠ preimage gs ∧ H (preimage fs) = H (preimage gs)) := by
  by_cases h : H (preimage fs) = H (preimage gs)
  · right
    exact ⟨fun hp => hne (preimage_injective fs gs hs hp), h⟩
  · left; exact h

/-! ### the generated table (`Gen/Claims.lean`, regenerated from the source on every run) -/

open Paloma.Gen.Claims in
/-- fields that need not be hashed, with the reason:
    `Orchestrator`, `Metadata` — the voter's own identity and transaction metadata;
    `EventNonce` — never read except for `≠ 0` in ValidateBasic;
    `ChainReferenceId` — part of the attestation key as the store prefix (`GetStore(ctx, chainReferenceID)`). -/
def notHashedOk : List String := ["Orchestrator", "Metadata", "EventNonce", "ChainReferenceId"]

/-- claim types that cannot be submitted (no Msg service method; decoding of old state only) -/
def legacyTypes : List String := ["MsgBatchSendToEthClaim"]

/-- accessor / method names that show up as `claim.X` in handlers but are not fields -/
def handlerNonFields : List String :=
  ["ClaimHash", "GetSkywayNonce", "GetType", "GetChainReferenceId", "GetEthBlockHeight", "GetCompassID", "GetClaimer", "String"]

def argField (a : String) : String := if a == "Amount.String()" then "Amount" else a

def verbOk (ty verb arg : String) : Bool :=
  (ty == "uint64" && verb == "%d" && arg != "Amount.String()") ||
  (ty == "string" && verb == "%x") ||
  (ty == "cosmossdk_io_math.Int" && verb == "%s" && arg == "Amount.String()")

def lookupTy (fields : List (String × String)) (f : String) : Option String :=
  (fields.find? (fun p => p.1 == f)).map (·.2)

/-- what `preimage_injective` needs of a claim type, plus coverage of the effect-bearing fields -/
def claimOk (c : Paloma.Gen.Claims.ClaimDesc) : Bool :=
  c.verbs.length == c.args.length &&
  -- separators: nothing before the first verb, "/" between verbs, nothing after the last
  c.seps == [""] ++ List.replicate (c.verbs.length - 1) "/" ++ [""] &&
  -- every argument is a struct field rendered with the injective verb for its type
  ((c.args.zip c.verbs).all fun (a, v) =>
    match lookupTy c.fields (argField a) with
    | some ty => verbOk ty v a
    | none => false) &&
  -- no field hashed twice under different renderings (keeps the shape canonical)
  decide ((c.args.map argField).Nodup) &&
  -- coverage: every struct field is hashed unless it is on the justified allow-list
  (c.fields.all fun f => notHashedOk.contains f.1 || (c.args.map argField).contains f.1) &&
  -- every claim field the attestation handler reads is hashed (or on the allow-list)
  (c.handlerReads.all fun r =>
    handlerNonFields.contains r || notHashedOk.contains r || (c.args.map argField).contains r)

/-- **hashed_covers_effect_fields.** For every submittable claim type in the CURRENT source:
the hash pre-image has the separator-safe shape `preimage_injective` is about, and it contains
every field of the claim other than the voter's identity, transaction metadata, the unused
event nonce and the chain id (which is the key's store prefix) — in particular every field the
attestation handler reads. A new claim type, a new field, or a field dropped from the hash
makes this `decide` fail. -/
theorem hashed_covers_effect_fields :
    ((Paloma.Gen.Claims.claims.filter fun c => !legacyTypes.contains c.name).all claimOk) = true := by decide

/-- **preimage_fixes_arity.** The number of `/`-separated parts of a pre-image is determined by
its bytes (no rendered field contains the separator), so claims whose formats have a different
number of parts can never share a pre-image. -/
theorem preimage_fixes_arity (fs gs : List Field) (hf : fs ≠ []) (hg : gs ≠ [])
    (h : preimage fs = preimage gs) : fs.length = gs.length := by
  unfold preimage at h
  have a := count_join (fs.map enc)
    (by intro x hx; rcases List.mem_map.mp hx with ⟨f, _, rfl⟩; exact enc_noSlash f) (by simpa using hf)
  have b := count_join (gs.map enc)
    (by intro x hx; rcases List.mem_map.mp hx with ⟨f, _, rfl⟩; exact enc_noSlash f) (by simpa using hg)
  rw [h] at a
  simp only [List.length_map] at a b
  omega

/-- the submittable claim types of the CURRENT source, as (name, number of hashed parts) -/
def arities : List (String × Nat) :=
  (Paloma.Gen.Claims.claims.filter fun c => !legacyTypes.contains c.name).map fun c => (c.name, c.verbs.length)

/-- **claim_types_have_distinct_arity.** (decide over the regenerated table) every submittable
claim type hashes at least one part and no two of them hash the same number of parts. -/
theorem claim_types_have_distinct_arity :
    (arities.all fun a => decide (1 ≤ a.2)) = true ∧ (arities.map (·.2)).Nodup := by decide

/-- **claim_types_never_pool.** Claims of two different submittable types never share a pre-image
(hence, with a collision-free hash, never an attestation key): the claim type itself — which
selects the handler and so is effect-bearing — is pinned by the hash although it is not written
into it. -/
theorem claim_types_never_pool (a b : String × Nat) (ha : a ∈ arities) (hb : b ∈ arities) (hne : a.1 ≠ b.1)
    (fs gs : List Field) (hfa : fs.length = a.2) (hgb : gs.length = b.2) : preimage fs ≠ preimage gs := by
  intro h
  have h1 := claim_types_have_distinct_arity.1
  have h2 := claim_types_have_distinct_arity.2
  rw [List.all_eq_true] at h1
  have pa := h1 a ha; have pb := h1 b hb
  simp only [decide_eq_true_eq] at pa pb
  have hl := preimage_fixes_arity fs gs (by intro e; rw [e] at hfa; simp at hfa; omega)
    (by intro e; rw [e] at hgb; simp at hgb; omega) h
  have hab : a.2 = b.2 := by omega
  -- equal arities in a duplicate-free arity list mean the same table row
  have : a = b := by
    exact nodup_map_inj (·.2) arities h2 a ha b hb hab
  exact hne (by rw [this])

/-- **legacy_claim_types_cannot_be_submitted.** (decide over the regenerated message-server table
`Gen/Auth`) the claim types excluded above as "decoding of old state only" are the request type of no
Msg service method, and every claim type that is checked IS the request type of one. -/
theorem legacy_claim_types_cannot_be_submitted :
    (legacyTypes.all fun n => Paloma.Gen.Auth.handlers.all fun h => h.request != n) = true ∧
    ((Paloma.Gen.Claims.claims.filter fun c => !legacyTypes.contains c.name).all fun c =>
      Paloma.Gen.Auth.handlers.any fun h => h.request == c.name) = true := by decide

/-- the three claim types the oracle handles are all present in the table -/
theorem claim_types_present :
    (["MsgSendToPalomaClaim", "MsgBatchSendToRemoteClaim", "MsgLightNodeSaleClaim"].all fun n =>
      Paloma.Gen.Claims.claims.any fun c => c.name == n) = true := by decide

/-- the pre-repair ambiguity, for the record: with raw `%s` strings ("a/b","c") and ("a","b/c")
    rendered the same; with `%x` they do not. -/
theorem hex_separates_slash :
    preimage [.str [97, 47, 98], .str [99]] ≠ preimage [.str [97], .str [98, 47, 99]] := by decide

/-! ### non-vacuity -/
example : preimage [.num 7, .num 100, .str [48, 120], .amt 25, .str []] =
    [55, 47, 49, 48, 48, 47, 51, 48, 55, 56, 47, 50, 53, 47] := by
  simp [preimage, join, enc, encStr, hexd, decDigits, slash]
example : sameShape [.num 1, .amt 5, .str [1]] [.num 2, .nilAmt, .str []] = true := by decide
/-- `claim_types_never_pool` speaks about three real rows -/
example : arities = [("MsgBatchSendToRemoteClaim", 5), ("MsgLightNodeSaleClaim", 6), ("MsgSendToPalomaClaim", 7)] := by decide

end Paloma.ClaimHash
