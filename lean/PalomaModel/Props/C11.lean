/-
C11 — votes are pooled only for claims identical in every effect-bearing field.
`Model/ClaimHash.lean` is the pre-image of `ClaimHash`; the attestation key is
(chain prefix, nonce, H(pre-image)). Which fields each claim type hashes, and that they cover the
effect-bearing fields, is the generated table `Gen/Claims.lean` (checked below by `decide`).

How the pieces fit:
  * `preimage_injective` (all field values): within one shape the pre-image determines every field;
  * `hashed_covers_effect_fields` / `hashed_fields_as_in_property` (`decide` over the regenerated table): the
    format of every submittable claim type IS a shape in that sense (format literal = separators and verbs
    as modelled, every verb the injective one for its field's Go type) and its arguments are exactly the
    fields the property lists; every other field of the struct is the voter's identity, transaction
    metadata, the chain id (store prefix of the key) or a field no handler reads;
  * `same_key_same_claim` / `same_attestation_key_same_effect` (the property's two sentences, composite): two
    well-typed claims of ANY two submittable types with the same attestation key are the same claim — same
    type, same value of every hashed field — unless the hash collides on exactly their two pre-images; hence
    whatever applying a claim does (any function of type and hashed fields) is the same for both.
  * `flatKey_injective` / `votes_pooled_only_for_identical_claim_and_chain` (the chain clause): the chain id is not
    hashed; it is the variable-length prefix of the key in the module's one flat store. The fixed-length tail
    makes the concatenation unambiguous, and over ANY history of submissions to `attest` (the model of
    `Keeper.Attest`, chain ids varying freely) a vote is pooled only with a stored body of the same chain id, type
    and hashed fields.
`Props/C02.lean` imports this file and lifts the last statement to oracle histories
(`honest_votes_counted_only_for_identical_claim`).
External ASSUMPTION, always stated pointwise: the hash does not collide on the two pre-images in question.
-/
import PalomaModel.Model.ClaimHash
import PalomaModel.Gen.Claims
import PalomaModel.Gen.Auth

namespace Paloma.ClaimHash
open List

/-! ## helper lemmas -/
section Lemmas

def ofDigits (l : List Nat) : Nat := l.foldl (fun acc d => 10 * acc + (d - 48)) 0

theorem ofDigits_append (l : List Nat) (d : Nat) : ofDigits (l ++ [d]) = 10 * ofDigits l + (d - 48) := by
  simp [ofDigits, List.foldl_append]

theorem ofDigits_dec (n : Nat) : ofDigits (decDigits n) = n := by
  induction n using Nat.strongRecOn with
  | _ n ih =>
    rw [decDigits]
    split
    · simp [ofDigits]
    · rw [ofDigits_append, ih (n / 10) (by omega)]; omega

theorem decDigits_inj {a b : Nat} (h : decDigits a = decDigits b) : a = b := by
  have := congrArg ofDigits h
  simpa [ofDigits_dec] using this

theorem decDigits_ge (n : Nat) : ∀ d ∈ decDigits n, 48 ≤ d := by
  induction n using Nat.strongRecOn with
  | _ n ih =>
    rw [decDigits]
    split
    · intro d hd; simp at hd; omega
    · intro d hd
      rcases List.mem_append.mp hd with hd | hd
      · exact ih (n / 10) (by omega) d hd
      · simp at hd; omega

theorem decDigits_ne_nil (n : Nat) : decDigits n ≠ [] := by
  rw [decDigits]; split <;> simp

theorem hexd_ge (n : Nat) : 48 ≤ hexd n := by unfold hexd; split <;> omega

theorem hexd_inj {a b : Nat} (h : hexd a = hexd b) : a = b := by
  unfold hexd at h; split at h <;> split at h <;> omega

theorem encStr_ge (b : List Nat) : ∀ d ∈ encStr b, 48 ≤ d := by
  induction b with
  | nil => intro d hd; simp [encStr] at hd
  | cons x xs ih =>
    intro d hd
    simp only [encStr, List.mem_cons] at hd
    rcases hd with rfl | rfl | hd
    · exact hexd_ge _
    · exact hexd_ge _
    · exact ih d hd

theorem encStr_inj {a b : List Nat} (h : encStr a = encStr b) : a = b := by
  induction a generalizing b with
  | nil => cases b with
    | nil => rfl
    | cons y ys => simp [encStr] at h
  | cons x xs ih =>
    cases b with
    | nil => simp [encStr] at h
    | cons y ys =>
      simp only [encStr, List.cons.injEq] at h
      have h1 := hexd_inj h.1
      have h2 := hexd_inj h.2.1
      have : x = y := by omega
      rw [this, ih h.2.2]

/-- no encoded field contains the separator -/
theorem enc_noSlash (f : Field) : slash ∉ enc f := by
  intro h
  cases f with
  | num n => have := decDigits_ge n _ h; simp [slash] at this
  | amt i =>
    simp only [enc] at h
    split at h
    · rcases List.mem_cons.mp h with h | h
      · simp [slash] at h
      · have := decDigits_ge _ _ h; simp [slash] at this
    · have := decDigits_ge _ _ h; simp [slash] at this
  | nilAmt => simp [enc, slash] at h
  | str b => have := encStr_ge b _ h; simp [slash] at this

theorem neg_vs_pos (a b : Nat) (h : 45 :: decDigits a = decDigits b) : False := by
  have hne := decDigits_ne_nil b
  cases hb : decDigits b with
  | nil => exact hne hb
  | cons d ds =>
    rw [hb] at h
    have := (List.cons.inj h).1
    have hge := decDigits_ge b d (by rw [hb]; simp)
    omega

theorem dec_vs_nil (a : Nat) (h : decDigits a = [60, 110, 105, 108, 62]) : False := by
  have := decDigits_ge a 62
  have hlast := congrArg List.getLast? h
  rw [decDigits] at hlast
  split at hlast <;> simp at hlast <;> omega

/-- per-field injectivity within one format position -/
theorem enc_inj {f g : Field} (hk : sameKind f g = true) (h : enc f = enc g) : f = g := by
  match f, g, hk, h with
  | .num a, .num b, _, h =>
    simp only [enc] at h; rw [decDigits_inj h]
  | .str a, .str b, _, h =>
    simp only [enc] at h; rw [encStr_inj h]
  | .nilAmt, .nilAmt, _, _ => rfl
  | .amt i, .nilAmt, _, h =>
    exfalso
    simp only [enc] at h
    split at h
    · have := (List.cons.inj h).1; omega
    · exact dec_vs_nil _ h
  | .nilAmt, .amt j, _, h =>
    exfalso
    simp only [enc] at h
    split at h
    · have := (List.cons.inj h).1; omega
    · exact dec_vs_nil _ h.symm
  | .amt i, .amt j, _, h =>
    simp only [enc] at h
    split at h <;> split at h
    · have := decDigits_inj (List.cons.inj h).2
      congr 1; omega
    · exact (neg_vs_pos _ _ h).elim
    · exact (neg_vs_pos _ _ h.symm).elim
    · have := decDigits_inj h
      congr 1; omega

/-- splitting at the first separator is unique -/
theorem prefix_unique {x y r s : List Nat} (hx : slash ∉ x) (hy : slash ∉ y)
    (h : x ++ slash :: r = y ++ slash :: s) : x = y ∧ r = s := by
  induction x generalizing y with
  | nil =>
    cases y with
    | nil => simpa using h
    | cons b ys =>
      simp only [List.nil_append, List.cons_append, List.cons.injEq] at h
      exact absurd (by rw [← h.1]; simp) hy
  | cons a xs ih =>
    cases y with
    | nil =>
      simp only [List.nil_append, List.cons_append, List.cons.injEq] at h
      exact absurd (by rw [h.1]; simp) hx
    | cons b ys =>
      simp only [List.cons_append, List.cons.injEq] at h
      have := ih (y := ys) (fun hm => hx (List.mem_cons_of_mem _ hm)) (fun hm => hy (List.mem_cons_of_mem _ hm)) h.2
      exact ⟨by rw [h.1, this.1], this.2⟩

theorem join_noSlash_single {x : List Nat} : join [x] = x := rfl

theorem join_inj (xs ys : List (List Nat)) (hx : ∀ x ∈ xs, slash ∉ x) (hy : ∀ y ∈ ys, slash ∉ y)
    (hlen : xs.length = ys.length) (h : join xs = join ys) : xs = ys := by
  induction xs generalizing ys with
  | nil => cases ys with
    | nil => rfl
    | cons y ys => simp at hlen
  | cons x xs ih =>
    cases ys with
    | nil => simp at hlen
    | cons y ys =>
      cases xs with
      | nil =>
        cases ys with
        | nil => simp only [join] at h; rw [h]
        | cons z zs => simp at hlen
      | cons x2 xs2 =>
        cases ys with
        | nil => simp at hlen
        | cons y2 ys2 =>
          simp only [join] at h
          have hp := prefix_unique (hx x (by simp)) (hy y (by simp)) h
          have := ih (y2 :: ys2) (fun a ha => hx a (List.mem_cons_of_mem _ ha))
            (fun a ha => hy a (List.mem_cons_of_mem _ ha)) (by simpa using hlen) hp.2
          rw [hp.1, this]

theorem sameShape_length : ∀ (fs gs : List Field), sameShape fs gs = true → fs.length = gs.length
  | [], [], _ => rfl
  | _ :: fs, _ :: gs, h => by
    simp only [sameShape, Bool.and_eq_true] at h
    simp [sameShape_length fs gs h.2]
  | [], _ :: _, h => by simp [sameShape] at h
  | _ :: _, [], h => by simp [sameShape] at h

theorem map_enc_inj : ∀ (fs gs : List Field), sameShape fs gs = true → fs.map enc = gs.map enc → fs = gs
  | [], [], _, _ => rfl
  | f :: fs, g :: gs, hs, h => by
    simp only [sameShape, Bool.and_eq_true] at hs
    simp only [List.map_cons, List.cons.injEq] at h
    rw [enc_inj hs.1 h.1, map_enc_inj fs gs hs.2 h.2]
  | [], _ :: _, hs, _ => by simp [sameShape] at hs
  | _ :: _, [], hs, _ => by simp [sameShape] at hs

theorem count_noSlash {x : List Nat} (h : slash ∉ x) : x.count slash = 0 :=
  List.count_eq_zero.mpr h

/-- a joined pre-image of `n ≥ 1` separator-free parts contains exactly `n - 1` separators -/
theorem count_join : ∀ (xs : List (List Nat)), (∀ x ∈ xs, slash ∉ x) → xs ≠ [] →
    (join xs).count slash + 1 = xs.length
  | [], _, hne => absurd rfl hne
  | [x], h, _ => by simp [join, count_noSlash (h x (by simp))]
  | x :: y :: rest, h, _ => by
    have ih := count_join (y :: rest) (fun a ha => h a (List.mem_cons_of_mem _ ha)) (by simp)
    simp only [join, List.count_append, List.count_cons_self, count_noSlash (h x (by simp)), List.length_cons] at ih ⊢
    omega

theorem nodup_map_inj {α β : Type} (f : α → β) : ∀ (l : List α), (l.map f).Nodup →
    ∀ a ∈ l, ∀ b ∈ l, f a = f b → a = b
  | [], _, a, ha, _, _, _ => by simp at ha
  | x :: xs, hn, a, ha, b, hb, hab => by
    simp only [List.map_cons, List.nodup_cons, List.mem_map, not_exists, not_and] at hn
    rcases List.mem_cons.mp ha with rfl | ha' <;> rcases List.mem_cons.mp hb with rfl | hb'
    · rfl
    · exact absurd hab.symm (hn.1 b hb')
    · exact absurd hab (hn.1 a ha')
    · exact nodup_map_inj f xs hn.2 a ha' b hb' hab

theorem kindOf_sameKind {f g : Field} (h : kindOf f = kindOf g) : sameKind f g = true := by
  cases f <;> cases g <;> simp [kindOf] at h <;> rfl

theorem hasShape_length : ∀ (ks : List Kind) (fs : List Field), hasShape ks fs = true → fs.length = ks.length
  | [], [], _ => rfl
  | _ :: ks, _ :: fs, h => by
    simp only [hasShape, Bool.and_eq_true] at h
    simp [hasShape_length ks fs h.2]
  | [], _ :: _, h => by simp [hasShape] at h
  | _ :: _, [], h => by simp [hasShape] at h

/-- two instances of one shape have the same kinds in the same positions -/
theorem hasShape_sameShape : ∀ (ks : List Kind) (fs gs : List Field), hasShape ks fs = true →
    hasShape ks gs = true → sameShape fs gs = true
  | [], [], [], _, _ => rfl
  | k :: ks, f :: fs, g :: gs, hf, hg => by
    simp only [hasShape, Bool.and_eq_true, beq_iff_eq] at hf hg
    simp only [sameShape, Bool.and_eq_true]
    exact ⟨kindOf_sameKind (hf.1.trans hg.1.symm), hasShape_sameShape ks fs gs hf.2 hg.2⟩
  | [], _ :: _, _, hf, _ => by simp [hasShape] at hf
  | [], [], _ :: _, _, hg => by simp [hasShape] at hg
  | _ :: _, [], _, hf, _ => by simp [hasShape] at hf
  | _ :: _, _ :: _, [], _, hg => by simp [hasShape] at hg

/-- replacing one field by another value of the same kind keeps the shape -/
theorem hasShape_set : ∀ (ks : List Kind) (fs : List Field) (i : Nat) (g : Field) (hi : i < fs.length),
    hasShape ks fs = true → kindOf g = kindOf fs[i] → hasShape ks (fs.set i g) = true
  | [], [], _, _, hi, _, _ => by simp at hi
  | [], _ :: _, _, _, _, h, _ => by simp [hasShape] at h
  | _ :: _, [], _, _, hi, _, _ => by simp at hi
  | k :: ks, f :: fs, 0, g, _, h, hk => by
    simp only [hasShape, Bool.and_eq_true, beq_iff_eq, List.set_cons_zero, List.getElem_cons_zero] at h hk ⊢
    exact ⟨hk.trans h.1, h.2⟩
  | k :: ks, f :: fs, i + 1, g, hi, h, hk => by
    simp only [hasShape, Bool.and_eq_true, beq_iff_eq, List.set_cons_succ, List.getElem_cons_succ] at h hk ⊢
    exact ⟨h.1, hasShape_set ks fs i g (by simpa using hi) h.2 hk⟩

theorem hasShape_cons_num {ks : List Kind} {fs : List Field} (h : hasShape (.num :: ks) fs = true) :
    ∃ n rest, fs = .num n :: rest ∧ hasShape ks rest = true := by
  cases fs with
  | nil => simp [hasShape] at h
  | cons f rest =>
    simp only [hasShape, Bool.and_eq_true, beq_iff_eq] at h
    cases f with
    | num n => exact ⟨n, rest, rfl, h.2⟩
    | amt i => simp [kindOf] at h
    | nilAmt => simp [kindOf] at h
    | str b => simp [kindOf] at h

theorem hasShape_snoc_str : ∀ (ks : List Kind) (fs : List Field), hasShape (ks ++ [.str]) fs = true →
    ∃ mid b, fs = mid ++ [.str b]
  | [], fs, h => by
    cases fs with
    | nil => simp [hasShape] at h
    | cons f rest =>
      cases rest with
      | nil =>
        simp only [List.nil_append, hasShape, Bool.and_eq_true, beq_iff_eq] at h
        cases f with
        | str b => exact ⟨[], b, rfl⟩
        | num n => simp [kindOf] at h
        | amt i => simp [kindOf] at h
        | nilAmt => simp [kindOf] at h
      | cons g r => simp [hasShape] at h
  | k :: ks, fs, h => by
    cases fs with
    | nil => simp [hasShape] at h
    | cons f rest =>
      simp only [List.cons_append, hasShape, Bool.and_eq_true] at h
      obtain ⟨mid, b, hr⟩ := hasShape_snoc_str ks rest h.2
      exact ⟨f :: mid, b, by rw [hr]; rfl⟩

theorem shapeOfVerbs_length : ∀ (vs : List String) (ks : List Kind), shapeOfVerbs vs = some ks →
    ks.length = vs.length
  | [], ks, h => by simp [shapeOfVerbs] at h; subst h; rfl
  | v :: vs, ks, h => by
    simp only [shapeOfVerbs] at h
    cases hk : verbKind v with
    | none => simp [hk] at h
    | some k =>
      cases hs : shapeOfVerbs vs with
      | none => simp [hk, hs] at h
      | some ks' =>
        simp only [hk, hs, Option.some.injEq] at h
        subst h
        simp [shapeOfVerbs_length vs ks' hs]

theorem be8_inj {a b : Nat} (ha : a < 18446744073709551616) (hb : b < 18446744073709551616)
    (h : be8 a = be8 b) : a = b := by
  simp only [be8, List.cons.injEq, and_true] at h
  omega

theorem be8_length (n : Nat) : (be8 n).length = 8 := by simp [be8]

theorem lookup_some {k : List Nat} : ∀ {l : List KAtt} {b : KAtt}, lookup k l = some b → b ∈ l ∧ b.key = k
  | [], _, h => by simp [lookup] at h
  | c :: cs, b, h => by
    simp only [lookup] at h
    split at h
    · rename_i hk
      have : c = b := by simpa using h
      subst this
      exact ⟨by simp, hk⟩
    · have := lookup_some (l := cs) h
      exact ⟨List.mem_cons_of_mem _ this.1, this.2⟩

theorem mem_upsert {a x : KAtt} : ∀ {l : List KAtt}, x ∈ upsert a l → x = a ∨ x ∈ l
  | [], h => by simp [upsert] at h; exact Or.inl h
  | c :: cs, h => by
    simp only [upsert] at h
    split at h
    · rcases List.mem_cons.mp h with h | h
      · exact Or.inl h
      · exact Or.inr (List.mem_cons_of_mem _ h)
    · rcases List.mem_cons.mp h with h | h
      · exact Or.inr (by rw [h]; simp)
      · rcases mem_upsert (l := cs) h with h | h
        · exact Or.inl h
        · exact Or.inr (List.mem_cons_of_mem _ h)

theorem mem_addVote {votes : List Nat} {v x : Nat} (h : x ∈ addVote votes v) : x ∈ votes ∨ x = v := by
  unfold addVote at h
  split at h
  · exact Or.inl h
  · rcases List.mem_append.mp h with h | h
    · exact Or.inl h
    · exact Or.inr (by simpa using h)

/-- the invariant of the attestation store: every attestation's body (chain id, type, hashed fields) is an
accepted vote's claim and the attestation lives under THAT claim's key; every pooled vote belongs to an
accepted vote whose key is the attestation's key -/
def KInv (H : List Nat → List Nat) (s : KState) : Prop :=
  ∀ a ∈ s.atts,
    (∃ o ∈ s.log, a.bodyChain = o.chain ∧ a.bodyTy = o.ty ∧ a.body = o.fields ∧ a.key = keyOf H o) ∧
    ∀ v ∈ a.votes, ∃ o ∈ s.log, o.val = v ∧ keyOf H o = a.key

theorem attest_log (H : List Nat → List Nat) (s : KState) (v o : KVote) (h : o ∈ (attest H s v).1.log) :
    o = v ∨ o ∈ s.log := by
  unfold attest at h
  split at h
  · exact Or.inr h
  · split at h
    · exact List.mem_cons.mp h
    · split at h
      · exact Or.inr h
      · exact List.mem_cons.mp h

theorem attest_inv (H : List Nat → List Nat) (s : KState) (v : KVote) (hs : KInv H s) : KInv H (attest H s v).1 := by
  unfold attest
  split
  · exact hs
  · split
    · -- a new attestation, body = the submitted claim
      intro x hx
      rcases mem_upsert hx with hx | hx
      · subst hx
        refine ⟨⟨v, by simp, rfl, rfl, rfl, rfl⟩, ?_⟩
        intro w hw
        have : w = v.val := by simpa using hw
        exact ⟨v, by simp, this.symm, rfl⟩
      · obtain ⟨⟨o, ho, hb⟩, hv⟩ := hs x hx
        refine ⟨⟨o, List.mem_cons_of_mem _ ho, hb⟩, ?_⟩
        intro w hw
        obtain ⟨o', ho', h'⟩ := hv w hw
        exact ⟨o', List.mem_cons_of_mem _ ho', h'⟩
    · rename_i a hl
      split
      · exact hs
      · -- the vote joins the attestation found under its key
        have ha := lookup_some hl
        intro x hx
        rcases mem_upsert hx with hx | hx
        · subst hx
          obtain ⟨⟨o, ho, hb⟩, hv⟩ := hs a ha.1
          refine ⟨⟨o, List.mem_cons_of_mem _ ho, hb⟩, ?_⟩
          intro w hw
          rcases mem_addVote hw with hw | hw
          · obtain ⟨o', ho', h'⟩ := hv w hw
            exact ⟨o', List.mem_cons_of_mem _ ho', h'⟩
          · exact ⟨v, by simp, hw.symm, ha.2.symm⟩
        · obtain ⟨⟨o, ho, hb⟩, hv⟩ := hs x hx
          refine ⟨⟨o, List.mem_cons_of_mem _ ho, hb⟩, ?_⟩
          intro w hw
          obtain ⟨o', ho', h'⟩ := hv w hw
          exact ⟨o', List.mem_cons_of_mem _ ho', h'⟩

theorem runVotes_inv (H : List Nat → List Nat) : ∀ (ops : List KVote) (s : KState), KInv H s →
    KInv H (runVotes H s ops).1
  | [], s, hs => by simpa [runVotes] using hs
  | v :: vs, s, hs => by
    simp only [runVotes]
    exact runVotes_inv H vs _ (attest_inv H s v hs)

theorem runVotes_log (H : List Nat → List Nat) : ∀ (ops : List KVote) (s : KState) (o : KVote),
    o ∈ (runVotes H s ops).1.log → o ∈ ops ∨ o ∈ s.log
  | [], s, o, h => by simp only [runVotes] at h; exact Or.inr h
  | v :: vs, s, o, h => by
    simp only [runVotes] at h
    rcases runVotes_log H vs _ o h with h | h
    · exact Or.inl (List.mem_cons_of_mem _ h)
    · rcases attest_log H s v o h with h | h
      · exact Or.inl (by rw [h]; simp)
      · exact Or.inr h

end Lemmas

/-! ## Property theorems (C11) -/

/-- **preimage_injective.** Within one claim format (same field kinds in the same positions),
equal pre-images mean equal field values: no separator ambiguity, no lossy rendering. -/
theorem preimage_injective (fs gs : List Field) (hs : sameShape fs gs = true)
    (h : preimage fs = preimage gs) : fs = gs := by
  unfold preimage at h
  apply map_enc_inj fs gs hs
  apply join_inj
  · intro x hx; rcases List.mem_map.mp hx with ⟨f, _, rfl⟩; exact enc_noSlash f
  · intro x hx; rcases List.mem_map.mp hx with ⟨f, _, rfl⟩; exact enc_noSlash f
  · simp [sameShape_length fs gs hs]
  · exact h

/-- **same_key_same_fields.** ASSUMPTION (named, pointwise): the hash does not collide on the two
pre-images in question (`hnc`; no global injectivity is assumed — no 256-bit hash has it). Then two
claims of one type whose attestation keys (nonce, H(pre-image)) coincide agree on every hashed field. -/
theorem same_key_same_fields (H : List Nat → Nat) (fs gs : List Field) (hs : sameShape fs gs = true)
    (hnc : H (preimage fs) = H (preimage gs) → preimage fs = preimage gs)
    (h : H (preimage fs) = H (preimage gs)) : fs = gs :=
  preimage_injective fs gs hs (hnc h)

/-- **different_fields_different_key_or_collision.** The contrapositive without any assumption on the
hash: claims of one type that differ in a hashed field either get different keys or exhibit a concrete
hash collision between their two (different) pre-images. -/
theorem different_fields_different_key_or_collision (H : List Nat → Nat) (fs gs : List Field)
    (hs : sameShape fs gs = true) (hne : fs ≠ gs) :
    H (preimage fs) ≠ H (preimage gs) ∨ (preimage fs ≠ preimage gs ∧ H (preimage fs) = H (preimage gs)) := by
  by_cases h : H (preimage fs) = H (preimage gs)
  · right
    exact ⟨fun hp => hne (preimage_injective fs gs hs hp), h⟩
  · left; exact h

/-! ### the generated table (`Gen/Claims.lean`, regenerated from the source on every run) -/

/-- the voter's own identity and the transaction metadata: excluded by the property's quantifier; the handler
may read them (they are whoever submitted the stored claim first) -/
def identityFields : List String := ["Orchestrator", "Metadata"]

/-- bound by the attestation key outside the hash: the chain id is the store prefix of the key
(`GetStore(ctx, chainReferenceID)`), see `same_attestation_key_same_effect` -/
def keyedFields : List String := ["ChainReferenceId"]

/-- not hashed because NO handler reads it (`≠ 0` in ValidateBasic is its only use). The reason is enforced:
`claimOk` fails for a claim type whose handler reads such a field, directly or through an accessor. -/
def unreadFields : List String := ["EventNonce"]

/-- fields that need not be hashed -/
def notHashedOk : List String := identityFields ++ keyedFields ++ unreadFields

/-- claim types that cannot be submitted (no Msg service method; decoding of old state only) -/
def legacyTypes : List String := ["MsgBatchSendToEthClaim"]

/-- hand-written accessors that show up as `claim.X()` in handlers, with the struct field they return
(`none`: a function of the claim type or of the hash itself — `ClaimHash`, `GetType` — or the debug rendering
`String`). Generated getters `Get<Field>` are resolved against the struct's field list by `readsOf`. -/
def accessorField : List (String × Option String) :=
  [("ClaimHash", none), ("GetType", none), ("String", none),
   ("GetSkywayNonce", some "SkywayNonce"), ("GetChainReferenceId", some "ChainReferenceId"),
   ("GetEthBlockHeight", some "EthBlockHeight"), ("GetCompassID", some "CompassId"),
   ("GetClaimer", some "Orchestrator")]

/-- the struct fields a handler selector `claim.r` reads -/
def readsOf (fields : List (String × String)) (r : String) : List String :=
  match accessorField.find? (fun p => p.1 == r) with
  | some (_, some f) => [f]
  | some (_, none) => []
  | none =>
    match fields.find? (fun f => "Get" ++ f.1 == r) with
    | some f => [f.1]
    | none => [r]

def argField (a : String) : String := if a == "Amount.String()" then "Amount" else a

def verbOk (ty verb arg : String) : Bool :=
  (ty == "uint64" && verb == "%d" && arg != "Amount.String()") ||
  (ty == "string" && verb == "%x") ||
  (ty == "cosmossdk_io_math.Int" && verb == "%s" && arg == "Amount.String()")

def lookupTy (fields : List (String × String)) (f : String) : Option String :=
  (fields.find? (fun p => p.1 == f)).map (·.2)

/-- the format literal a list of separators and verbs stands for -/
def rebuildFormat : List String → List String → String
  | s :: ss, v :: vs => s ++ v ++ rebuildFormat ss vs
  | ss, _ => String.join ss

/-- the shape of a claim type (kinds of its hashed parts, in order), computed from the generated verbs -/
def shapeOf (c : Paloma.Gen.Claims.ClaimDesc) : Option (List Kind) := shapeOfVerbs c.verbs

/-- what `preimage_injective` needs of a claim type, plus coverage of the effect-bearing fields -/
def claimOk (c : Paloma.Gen.Claims.ClaimDesc) : Bool :=
  c.verbs.length == c.args.length &&
  -- the format literal in the source IS what the separators and verbs say (nothing else is in it)
  c.format == rebuildFormat c.seps c.verbs &&
  -- separators: nothing before the first verb, "/" between verbs, nothing after the last
  c.seps == [""] ++ List.replicate (c.verbs.length - 1) "/" ++ [""] &&
  -- every verb is one of the three modelled renderings: the type has a shape
  (shapeOf c).isSome &&
  -- every argument is a struct field rendered with the injective verb for its type
  ((c.args.zip c.verbs).all fun (a, v) =>
    match lookupTy c.fields (argField a) with
    | some ty => verbOk ty v a
    | none => false) &&
  -- no field hashed twice under different renderings (keeps the shape canonical)
  decide ((c.args.map argField).Nodup) &&
  -- coverage: every struct field is hashed unless it is on the justified allow-list
  (c.fields.all fun f => notHashedOk.contains f.1 || (c.args.map argField).contains f.1) &&
  -- every claim field the attestation handler reads (directly or through an accessor) is hashed, or is the
  -- voter's identity / metadata, or the chain id; in particular a field allowed as "never read" is not read
  (c.handlerReads.all fun r => (readsOf c.fields r).all fun f =>
    identityFields.contains f || keyedFields.contains f || (c.args.map argField).contains f)

/-- the submittable claim types of the CURRENT source -/
def submittable : List Paloma.Gen.Claims.ClaimDesc :=
  Paloma.Gen.Claims.claims.filter fun c => !legacyTypes.contains c.name

/-- **hashed_covers_effect_fields.** For every submittable claim type in the CURRENT source:
the hash pre-image has the separator-safe shape `preimage_injective` is about — the format literal is
exactly the generated separators and verbs, every verb is the injective rendering of its field's Go type —
and it contains every field of the claim other than the voter's identity, transaction metadata, the chain
id (which is the key's store prefix) and the event nonce, which no handler reads (checked, not assumed) — in
particular every field the attestation handler reads. A new claim type, a new field, a field dropped from
the hash, a changed format literal or a handler that starts reading an un-hashed field makes this `decide`
fail. -/
theorem hashed_covers_effect_fields : (submittable.all claimOk) = true := by decide

/-- **hashed_fields_as_in_property.** The hashed arguments of the three submittable claim types, by name, are
the fields the property enumerates: nonce, remote block height, token, amount, sender, receiver, batch
nonce, buyer address, originating contract and bridge deployment id (the chain is the key's prefix). Nonce
and remote height come first and the deployment id last in every type (used by `Props/C02.lean`). -/
theorem hashed_fields_as_in_property :
    submittable.map (fun c => (c.name, c.args.map argField)) =
      [("MsgBatchSendToRemoteClaim", ["SkywayNonce", "EthBlockHeight", "BatchNonce", "TokenContract", "CompassId"]),
       ("MsgLightNodeSaleClaim", ["SkywayNonce", "EthBlockHeight", "ClientAddress", "Amount", "SmartContractAddress", "CompassId"]),
       ("MsgSendToPalomaClaim", ["SkywayNonce", "EthBlockHeight", "TokenContract", "Amount", "EthereumSender", "PalomaReceiver", "CompassId"])] ∧
    submittable.map shapeOf =
      [some [.num, .num, .num, .str, .str], some [.num, .num, .str, .amt, .str, .str],
       some [.num, .num, .str, .amt, .str, .str, .str]] := by decide

/-- **shapes_have_oracle_form.** (decide over the regenerated table) the format of every submittable claim type
starts with two `%d` parts and ends with a `%x` part — by `hashed_fields_as_in_property` the skyway nonce, the
remote block height and the compass id. `Props/C02.lean` relies on this layout. -/
theorem shapes_have_oracle_form :
    (submittable.all fun d => match shapeOf d with
      | some (.num :: .num :: rest) => rest.getLast? == some .str
      | _ => false) = true := by decide

/-- the checks of `claimOk` are not vacuous: each of these fake descriptors differs from a real row in one
respect and is refused — a format literal that is not what verbs and separators say; a handler that reads
the un-hashed `EventNonce` (directly, or through its generated getter); an effect-bearing field dropped from
the hash; a raw `%s` string -/
def fakeRow (format : String) (verbs args reads : List String) : Paloma.Gen.Claims.ClaimDesc :=
  { name := "Fake", fields := [("EventNonce", "uint64"), ("TokenContract", "string"), ("SkywayNonce", "uint64"), ("Orchestrator", "string")],
    format := format, verbs := verbs, seps := ["", "/", ""], args := args, handlerReads := reads }

/-- **preimage_fixes_arity.** The number of `/`-separated parts of a pre-image is determined by
its bytes (no rendered field contains the separator), so claims whose formats have a different
number of parts can never share a pre-image. -/
theorem preimage_fixes_arity (fs gs : List Field) (hf : fs ≠ []) (hg : gs ≠ [])
    (h : preimage fs = preimage gs) : fs.length = gs.length := by
  unfold preimage at h
  have a := count_join (fs.map enc)
    (by intro x hx; rcases List.mem_map.mp hx with ⟨f, _, rfl⟩; exact enc_noSlash f) (by simpa using hf)
  have b := count_join (gs.map enc)
    (by intro x hx; rcases List.mem_map.mp hx with ⟨f, _, rfl⟩; exact enc_noSlash f) (by simpa using hg)
  rw [h] at a
  simp only [List.length_map] at a b
  omega

/-- the submittable claim types of the CURRENT source, as (name, number of hashed parts) -/
def arities : List (String × Nat) := submittable.map fun c => (c.name, c.verbs.length)

/-- **claim_types_have_distinct_arity.** (decide over the regenerated table) every submittable
claim type hashes at least one part and no two of them hash the same number of parts. -/
theorem claim_types_have_distinct_arity :
    (arities.all fun a => decide (1 ≤ a.2)) = true ∧ (arities.map (·.2)).Nodup := by decide

/-- **claim_types_never_pool.** Claims of two different submittable types never share a pre-image
(hence, with a collision-free hash, never an attestation key): the claim type itself — which
selects the handler and so is effect-bearing — is pinned by the hash although it is not written
into it. SCOPE: the submittable types of the regenerated table (completeness of the extractor's table is
trusted). Attestations that did not come through a Msg service method are outside: `InitGenesis` stores
whatever attestations the genesis file lists, unvalidated, including the legacy `MsgBatchSendToEthClaim`,
whose raw `%s` token string may contain the separator (see the last example of this file). -/
theorem claim_types_never_pool (a b : String × Nat) (ha : a ∈ arities) (hb : b ∈ arities) (hne : a.1 ≠ b.1)
    (fs gs : List Field) (hfa : fs.length = a.2) (hgb : gs.length = b.2) : preimage fs ≠ preimage gs := by
  intro h
  have h1 := claim_types_have_distinct_arity.1
  have h2 := claim_types_have_distinct_arity.2
  rw [List.all_eq_true] at h1
  have pa := h1 a ha; have pb := h1 b hb
  simp only [decide_eq_true_eq] at pa pb
  have hl := preimage_fixes_arity fs gs (by intro e; rw [e] at hfa; simp at hfa; omega)
    (by intro e; rw [e] at hgb; simp at hgb; omega) h
  have hab : a.2 = b.2 := by omega
  -- equal arities in a duplicate-free arity list mean the same table row
  have : a = b := by
    exact nodup_map_inj (·.2) arities h2 a ha b hb hab
  exact hne (by rw [this])

/-- **legacy_claim_types_cannot_be_submitted.** (decide over the regenerated message-server table
`Gen/Auth`) the claim types excluded above as "decoding of old state only" are the request type of no
Msg service method, and every claim type that is checked IS the request type of one. -/
theorem legacy_claim_types_cannot_be_submitted :
    (legacyTypes.all fun n => Paloma.Gen.Auth.handlers.all fun h => h.request != n) = true ∧
    (submittable.all fun c => Paloma.Gen.Auth.handlers.any fun h => h.request == c.name) = true := by decide

/-- the three claim types the oracle handles are all present in the table -/
theorem claim_types_present :
    (["MsgSendToPalomaClaim", "MsgBatchSendToRemoteClaim", "MsgLightNodeSaleClaim"].all fun n =>
      Paloma.Gen.Claims.claims.any fun c => c.name == n) = true := by decide

/-- the pre-repair ambiguity, for the record: with raw `%s` strings ("a/b","c") and ("a","b/c")
    rendered the same; with `%x` they do not. -/
theorem hex_separates_slash :
    preimage [.str [97, 47, 98], .str [99]] ≠ preimage [.str [97], .str [98, 47, 99]] := by decide

/-! ### typed claims: the property's two sentences -/

/-- a claim as far as the oracle is concerned: its type (which selects the handler) and the values of the
hashed fields, in format order -/
structure Claim where
  ty : String
  fields : List Field
deriving DecidableEq, Repr

/-- `c` is an instance of a submittable claim type of the CURRENT source: its fields have the kinds of that
type's format verbs, position by position -/
def Claim.wellTyped (c : Claim) : Bool :=
  submittable.any fun d => d.name == c.ty &&
    (match shapeOf d with
     | some ks => hasShape ks c.fields
     | none => false)

/-- **types_separated_by_arity.** (decide over the regenerated table) every submittable claim type hashes at
least one part, and two rows whose formats have the same number of parts are the same type with the same
verbs. Together with `preimage_fixes_arity`: the claim type — which selects the handler and so is
effect-bearing — is pinned by the pre-image although it is not written into it. -/
theorem types_separated_by_arity :
    (submittable.all fun a => decide (1 ≤ a.verbs.length) &&
      submittable.all fun b => a.verbs.length != b.verbs.length || (a.verbs == b.verbs && a.name == b.name)) = true := by
  decide

/-- **wellTyped_preimage_injective** (no assumption on any hash). Two well-typed claims — of the same or of
different submittable types — with the same pre-image bytes are the same claim: same type and the same value
in every hashed field. -/
theorem wellTyped_preimage_injective (c c' : Claim) (hc : c.wellTyped = true) (hc' : c'.wellTyped = true)
    (hp : preimage c.fields = preimage c'.fields) : c = c' := by
  unfold Claim.wellTyped at hc hc'
  obtain ⟨d, hd, hdc⟩ := List.any_eq_true.mp hc
  obtain ⟨d', hd', hdc'⟩ := List.any_eq_true.mp hc'
  simp only [Bool.and_eq_true, beq_iff_eq] at hdc hdc'
  obtain ⟨hn, hs⟩ := hdc
  obtain ⟨hn', hs'⟩ := hdc'
  cases hk : shapeOf d with
  | none => simp [hk] at hs
  | some ks =>
    cases hk' : shapeOf d' with
    | none => simp [hk'] at hs'
    | some ks' =>
      simp only [hk] at hs
      simp only [hk'] at hs'
      have hl := hasShape_length ks c.fields hs
      have hl' := hasShape_length ks' c'.fields hs'
      have hv := shapeOfVerbs_length d.verbs ks hk
      have hv' := shapeOfVerbs_length d'.verbs ks' hk'
      have ht := types_separated_by_arity
      rw [List.all_eq_true] at ht
      have htd := ht d hd
      have htd' := ht d' hd'
      simp only [Bool.and_eq_true, decide_eq_true_eq, List.all_eq_true] at htd htd'
      have hne : c.fields ≠ [] := by intro e; rw [e] at hl; simp at hl; omega
      have hne' : c'.fields ≠ [] := by intro e; rw [e] at hl'; simp at hl'; omega
      have harity := preimage_fixes_arity c.fields c'.fields hne hne' hp
      have hdd := htd.2 d' hd'
      have hlen : d.verbs.length = d'.verbs.length := by omega
      simp only [hlen, bne_self_eq_false, Bool.false_or, Bool.and_eq_true, beq_iff_eq] at hdd
      have hks : ks = ks' := by
        unfold shapeOf at hk hk'
        rw [hdd.1, hk'] at hk
        exact (Option.some.inj hk).symm
      subst hks
      have hf := preimage_injective c.fields c'.fields (hasShape_sameShape ks _ _ hs hs') hp
      cases c; cases c'
      simp only at hn hn' hf
      simp only [Claim.mk.injEq]
      exact ⟨by rw [← hn, ← hn', hdd.2], hf⟩

/-- **same_key_same_claim** (the property's first sentence, across claim types). ASSUMPTION (named,
pointwise): the hash does not collide on the two pre-images in question (`hnc`). Then two well-typed claims
whose hashes coincide are tallied as the same event only if they ARE the same claim: same type, and the same
nonce, remote height, token, amount, sender, receiver, batch nonce, buyer address, originating contract and
deployment id — whichever of these the type has (`hashed_fields_as_in_property`). -/
theorem same_key_same_claim (H : List Nat → Nat) (c c' : Claim) (hc : c.wellTyped = true)
    (hc' : c'.wellTyped = true)
    (hnc : H (preimage c.fields) = H (preimage c'.fields) → preimage c.fields = preimage c'.fields)
    (h : H (preimage c.fields) = H (preimage c'.fields)) : c = c' :=
  wellTyped_preimage_injective c c' hc hc' (hnc h)

/-- **different_claims_different_key_or_collision** (no assumption on the hash). Two different well-typed
claims either get different hashes or exhibit a concrete collision of the hash on their two (different)
pre-images. -/
theorem different_claims_different_key_or_collision (H : List Nat → Nat) (c c' : Claim)
    (hc : c.wellTyped = true) (hc' : c'.wellTyped = true) (hne : c ≠ c') :
    H (preimage c.fields) ≠ H (preimage c'.fields) ∨
    (preimage c.fields ≠ preimage c'.fields ∧ H (preimage c.fields) = H (preimage c'.fields)) := by
  by_cases h : H (preimage c.fields) = H (preimage c'.fields)
  · right; exact ⟨fun hp => hne (wellTyped_preimage_injective c c' hc hc' hp), h⟩
  · left; exact h

/-- **every_field_influences_key** (the property's quantifier, literally: "for every claim type, every field
of it other than the voter's own identity and transaction metadata, and all pairs of values for that
field"). Take any well-typed claim of any submittable type, any position `i` of its hashed fields — by
`hashed_fields_as_in_property` these are nonce, remote height, token, amount, sender, receiver, batch nonce,
buyer address, originating contract, deployment id, whichever the type has — and any other value `g` of that
field's kind. The changed claim is again a well-typed claim of the type, and it is NOT tallied with the
original: its hash differs, or the two (different) pre-images are a concrete collision of the hash. -/
theorem every_field_influences_key (H : List Nat → Nat) (c : Claim) (hc : c.wellTyped = true) (i : Nat)
    (hi : i < c.fields.length) (g : Field) (hk : kindOf g = kindOf c.fields[i]) (hne : g ≠ c.fields[i]) :
    Claim.wellTyped { c with fields := c.fields.set i g } = true ∧
    (H (preimage c.fields) ≠ H (preimage (c.fields.set i g)) ∨
     (preimage c.fields ≠ preimage (c.fields.set i g) ∧
      H (preimage c.fields) = H (preimage (c.fields.set i g)))) := by
  have hwt : Claim.wellTyped { c with fields := c.fields.set i g } = true := by
    unfold Claim.wellTyped at hc ⊢
    obtain ⟨d, hd, hdc⟩ := List.any_eq_true.mp hc
    refine List.any_eq_true.mpr ⟨d, hd, ?_⟩
    simp only [Bool.and_eq_true, beq_iff_eq] at hdc ⊢
    refine ⟨hdc.1, ?_⟩
    cases hs : shapeOf d with
    | none => simp [hs] at hdc
    | some ks =>
      have h2 := hdc.2
      simp only [hs] at h2 ⊢
      exact hasShape_set ks c.fields i g hi h2 hk
  refine ⟨hwt, ?_⟩
  have hdiff : c ≠ { c with fields := c.fields.set i g } := by
    intro e
    have e2 : c.fields = c.fields.set i g := congrArg Claim.fields e
    have e3 : c.fields[i] = (c.fields.set i g)[i]'(by simpa using hi) := by
      congr 1
    rw [List.getElem_set_self] at e3
    exact hne e3.symm
  exact different_claims_different_key_or_collision H c _ hc hwt hdiff

/-- the attestation key of a claim: the chain's store prefix, the nonce, the hash of the pre-image
(`GetStore(ctx, chainReferenceID)`, `GetAttestationKey(nonce, hash)`) -/
def attKey (H : List Nat → Nat) (chain : List Nat) (nonce : Nat) (c : Claim) : List Nat × Nat × Nat :=
  (chain, nonce, H (preimage c.fields))

/-- **same_attestation_key_same_effect** (the property's second sentence at the level of one key: "a
validator can therefore never get honest votes counted towards a claim whose effect differs from what the
honest validators saw"). Whatever accepting and applying a claim does — ANY function `effect` of the chain,
the claim type and the hashed fields, which by `hashed_covers_effect_fields` are all the handler reads besides
the first submitter's identity and metadata — two well-typed claims stored under the same attestation key
have the same effect, because they are the same claim on the same chain. Pointwise no-collision as above.
(`Props/C02.lean`, `honest_votes_counted_only_for_identical_claim`, lifts this to oracle histories.) -/
theorem same_attestation_key_same_effect {α : Type} (H : List Nat → Nat) (effect : List Nat → Claim → α)
    (chain chain' : List Nat) (n n' : Nat) (c c' : Claim) (hc : c.wellTyped = true) (hc' : c'.wellTyped = true)
    (hnc : H (preimage c.fields) = H (preimage c'.fields) → preimage c.fields = preimage c'.fields)
    (hk : attKey H chain n c = attKey H chain' n' c') :
    chain = chain' ∧ n = n' ∧ c = c' ∧ effect chain c = effect chain' c' := by
  simp only [attKey, Prod.mk.injEq] at hk
  obtain ⟨h1, h2, h3⟩ := hk
  have := same_key_same_claim H c c' hc hc' hnc h3
  subst this; subst h1
  exact ⟨rfl, h2, rfl, rfl⟩

/-! ### the chain clause: the key in the flat store, and the attestation store over whole histories -/

/-- **flatKey_injective** (the chain clause at byte level). The module has ONE flat store; the chain id is a
variable-length prefix glued in front of `OracleAttestationKey ++ nonce ++ hash`. Because that tail has a fixed
length (16 + 8 + digest size) the concatenation is unambiguous: two attestation keys are the same bytes only
for the same chain id — byte for byte, nothing trimmed, folded or normalised —, the same nonce and the same
hash. (uint64 nonces; a digest of fixed size.) -/
theorem flatKey_injective (chain chain' : List Nat) (n n' : Nat) (h h' : List Nat)
    (hn : n < 18446744073709551616) (hn' : n' < 18446744073709551616) (hl : h.length = h'.length)
    (hk : flatKey chain n h = flatKey chain' n' h') : chain = chain' ∧ n = n' ∧ h = h' := by
  unfold flatKey at hk
  have hlen := congrArg List.length hk
  simp only [List.length_append, be8_length] at hlen
  have h1 := List.append_inj hk (by omega)
  have h2 := List.append_cancel_left h1.2
  have h3 := List.append_inj h2 (by simp [be8_length])
  exact ⟨h1.1, be8_inj hn hn' h3.1, h3.2⟩

/-- **different_chain_different_key**: the contrapositive for the chain alone, no hypothesis on the hash values
other than their common size: the same claim (or any two claims) on two chain ids that differ in any byte —
surrounding white space, letter case, a trailing NUL included — never share an attestation key. -/
theorem different_chain_different_key (chain chain' : List Nat) (n n' : Nat) (h h' : List Nat)
    (hl : h.length = h'.length) (hne : chain ≠ chain') : flatKey chain n h ≠ flatKey chain' n' h' := by
  intro hk
  unfold flatKey at hk
  have hlen := congrArg List.length hk
  simp only [List.length_append, be8_length] at hlen
  exact hne (List.append_inj hk (by omega)).1

/-- **votes_pooled_only_for_identical_claim_and_chain** (both sentences of the property over whole histories
of the attestation store, the chain included). Run ANY sequence of claim submissions — any validators, any
chain ids, any claim types and field values, any order, accepted or rejected — through `Attest`. In the
resulting store, every validator whose vote is pooled in an attestation had a vote ACCEPTED (`log`) for a
claim that agrees with the body stored in that attestation — the body that will be executed — in the chain id,
the claim type and every hashed field. ASSUMPTIONS, named and pointwise: the digest has a fixed size (`hlen`),
nonces are uint64, the submitted claims are well-typed claims of the current source, and the hash does not
collide on the pre-images of the claims of this history (`hnc`). -/
theorem votes_pooled_only_for_identical_claim_and_chain (H : List Nat → List Nat) (ops : List KVote)
    (hlen : ∀ x y, (H x).length = (H y).length)
    (hnonce : ∀ o ∈ ops, o.nonce < 18446744073709551616)
    (hwt : ∀ o ∈ ops, Claim.wellTyped ⟨o.ty, o.fields⟩ = true)
    (hnc : ∀ o ∈ ops, ∀ o' ∈ ops, H (preimage o.fields) = H (preimage o'.fields) →
      preimage o.fields = preimage o'.fields) :
    ∀ a ∈ (runVotes H KState.init ops).1.atts, ∀ v ∈ a.votes,
      ∃ o ∈ (runVotes H KState.init ops).1.log, o ∈ ops ∧ o.val = v ∧
        o.chain = a.bodyChain ∧ o.ty = a.bodyTy ∧ o.fields = a.body := by
  intro a ha v hv
  have hinv := runVotes_inv H ops KState.init (by intro a ha; simp [KState.init] at ha)
  have hlog : ∀ o ∈ (runVotes H KState.init ops).1.log, o ∈ ops := by
    intro o ho
    rcases runVotes_log H ops KState.init o ho with h | h
    · exact h
    · simp [KState.init] at h
  obtain ⟨⟨b, hb, hbc, hbt, hbf, hbk⟩, hvotes⟩ := hinv a ha
  obtain ⟨o, ho, hov, hok⟩ := hvotes v hv
  refine ⟨o, ho, hlog o ho, hov, ?_⟩
  have hkk : keyOf H o = keyOf H b := by rw [hok, hbk]
  unfold keyOf at hkk
  have hinj := flatKey_injective _ _ _ _ _ _ (hnonce o (hlog o ho)) (hnonce b (hlog b hb)) (hlen _ _) hkk
  have hcl := same_key_same_claim (fun x => (H x).foldl (fun acc d => acc * 256 + d) 0) ⟨o.ty, o.fields⟩ ⟨b.ty, b.fields⟩
    (hwt o (hlog o ho)) (hwt b (hlog b hb)) (fun _ => hnc o (hlog o ho) b (hlog b hb) hinj.2.2)
    (by simp only [hinj.2.2])
  simp only [Claim.mk.injEq] at hcl
  exact ⟨by rw [hbc, hinj.1], by rw [hbt, hcl.1], by rw [hbf, hcl.2]⟩

/-- **cursor_is_per_chain**: the "last nonce voted" cursor the contiguity check of `Attest` reads belongs to
(chain id, validator): a submission for another chain id or by another validator never changes it. -/
theorem cursor_is_per_chain (H : List Nat → List Nat) (s : KState) (v : KVote) (chain : List Nat) (val : Nat)
    (hne : ¬ (v.chain = chain ∧ v.val = val)) :
    cursorOf (attest H s v).1.cursor chain val = cursorOf s.cursor chain val := by
  unfold attest
  split
  · rfl
  · split
    · simp only [cursorOf, hne, if_false]
    · split
      · rfl
      · simp only [cursorOf, hne, if_false]

/-! ### non-vacuity -/
/-- outside the property's scope, for the record: the legacy `MsgBatchSendToEthClaim` renders its token
contract with a raw `%s`; with the (never validated, genesis-only) token string "aa/01" its four-part
pre-image `1/2/3/aa/01` is byte for byte the five-part pre-image of a `MsgBatchSendToRemoteClaim` with token
bytes `[0xaa]` and compass id bytes `[0x01]`. Such a claim cannot be submitted
(`legacy_claim_types_cannot_be_submitted`), carries the empty compass id (so it is left out of every tally once
a deployment is on record) and can only enter the store through a genesis file. -/
example : preimage [.num 1, .num 2, .num 3, .str [170], .str [1]] =
    decDigits 1 ++ [47] ++ decDigits 2 ++ [47] ++ decDigits 3 ++ [47] ++ [97, 97, 47, 48, 49] := by
  simp [preimage, join, enc, encStr, hexd, decDigits, slash]
/-- the fake rows: only the first is accepted -/
example : claimOk (fakeRow "%x/%d" ["%x", "%d"] ["TokenContract", "SkywayNonce"] ["TokenContract"]) = true := by decide
example : claimOk (fakeRow "garbage %v" ["%x", "%d"] ["TokenContract", "SkywayNonce"] ["TokenContract"]) = false := by decide
example : claimOk (fakeRow "%x/%d" ["%x", "%d"] ["TokenContract", "SkywayNonce"] ["EventNonce"]) = false := by decide
example : claimOk (fakeRow "%x/%d" ["%x", "%d"] ["TokenContract", "SkywayNonce"] ["GetEventNonce"]) = false := by decide
example : claimOk (fakeRow "%d/%d" ["%d", "%d"] ["EventNonce", "SkywayNonce"] ["TokenContract"]) = false := by decide
example : claimOk (fakeRow "%s/%d" ["%s", "%d"] ["TokenContract", "SkywayNonce"] []) = false := by decide
/-- well-typed claims of the three real types, and ill-typed ones (wrong kind in a position, wrong arity,
legacy type) -/
example : Claim.wellTyped ⟨"MsgSendToPalomaClaim", [.num 7, .num 100, .str [48, 120], .amt 25, .str [1], .str [2], .str [99]]⟩ = true := by decide
example : Claim.wellTyped ⟨"MsgLightNodeSaleClaim", [.num 7, .num 100, .str [48], .nilAmt, .str [1], .str [99]]⟩ = true := by decide
example : Claim.wellTyped ⟨"MsgBatchSendToRemoteClaim", [.num 7, .num 100, .num 3, .str [1], .str [99]]⟩ = true := by decide
example : Claim.wellTyped ⟨"MsgBatchSendToRemoteClaim", [.num 7, .num 100, .str [3], .str [1], .str [99]]⟩ = false := by decide
example : Claim.wellTyped ⟨"MsgBatchSendToRemoteClaim", [.num 7, .num 100, .num 3, .str [1]]⟩ = false := by decide
example : Claim.wellTyped ⟨"MsgBatchSendToEthClaim", [.num 7, .num 100, .num 3, .str [1]]⟩ = false := by decide
example : preimage [.num 7, .num 100, .str [48, 120], .amt 25, .str []] =
    [55, 47, 49, 48, 48, 47, 51, 48, 55, 56, 47, 50, 53, 47] := by
  simp [preimage, join, enc, encStr, hexd, decDigits, slash]
example : sameShape [.num 1, .amt 5, .str [1]] [.num 2, .nilAmt, .str []] = true := by decide
/-- `claim_types_never_pool` speaks about three real rows -/
example : arities = [("MsgBatchSendToRemoteClaim", 5), ("MsgLightNodeSaleClaim", 6), ("MsgSendToPalomaClaim", 7)] := by decide

/-- the attestation store on a history over two chain ids that differ in a trailing blank ("a " = [97, 32] and
"a" = [97]): validator 1 reports a claim for "a " first, validators 2 and 3 report the otherwise identical claim
for "a". Two attestations; the votes of 2 and 3 are pooled with each other and not with 1's; a second vote of
1 for "a " at the same nonce is refused while its first vote for "a" is accepted (cursors are per chain). The
constant digest is collision free on this history because all four claims have the same hashed fields. -/
example :
    (runVotes (fun _ => []) KState.init
      [⟨1, [97, 32], "MsgBatchSendToRemoteClaim", [.num 1, .num 100, .num 3, .str [1], .str [99]]⟩,
       ⟨2, [97], "MsgBatchSendToRemoteClaim", [.num 1, .num 100, .num 3, .str [1], .str [99]]⟩,
       ⟨3, [97], "MsgBatchSendToRemoteClaim", [.num 1, .num 100, .num 3, .str [1], .str [99]]⟩,
       ⟨1, [97, 32], "MsgBatchSendToRemoteClaim", [.num 1, .num 100, .num 3, .str [1], .str [99]]⟩,
       ⟨1, [97], "MsgBatchSendToRemoteClaim", [.num 1, .num 100, .num 3, .str [1], .str [99]]⟩]).2 =
    [.ok true 1, .ok true 1, .ok false 2, .rejected, .ok false 3] := by decide
example : flatKey [97] 1 [7] = [97, 11, 250, 22, 95, 244, 239, 85, 139, 61, 11, 98, 234, 77, 74, 70, 197, 0, 0, 0, 0, 0, 0, 0, 1, 7] := by decide
example : flatKey [97, 32] 1 [7] ≠ flatKey [97] 1 [7] := by decide

end Paloma.ClaimHash
