/-
C08 — state transitions are a deterministic function of chain history (PARTIAL: the logic is
proved here; Go's runtime behaviour — the actual map iteration order, the process environment —
is exercised by twin execution in the harness, see DESIGN.md).

What is proved: the order-independence lemmas that justify each `range` over a map on a consensus
path, and — by `decide` over the inventory regenerated from the source on every run
(`Gen/Nondet.lean`) — that every map range, environment read, wall-clock read and use of
randomness in the repository's own consensus-side code is one of the justified shapes.
-/
import PalomaModel.Gen.Nondet
import PalomaModel.Props.C04

namespace Paloma.Determinism
open List

/-! ## helper lemmas -/
section Lemmas

theorem foldl_min_comm (l : List Nat) (a b : Nat) :
    l.foldl min (min a b) = min b (l.foldl min a) := by
  induction l generalizing a b with
  | nil => simp [Nat.min_comm]
  | cons x xs ih =>
    simp only [List.foldl_cons]
    rw [show min (min a b) x = min (min a x) b by omega, ih]

theorem foldl_max_comm (l : List Nat) (a b : Nat) :
    l.foldl max (max a b) = max b (l.foldl max a) := by
  induction l generalizing a b with
  | nil => simp [Nat.max_comm]
  | cons x xs ih =>
    simp only [List.foldl_cons]
    rw [show max (max a b) x = max (max a x) b by omega, ih]

def updKV (m : Nat → Option Nat) (kv : Nat × Nat) : Nat → Option Nat :=
  fun k => if k = kv.1 then some kv.2 else m k

theorem updKV_comm (m : Nat → Option Nat) (a b : Nat × Nat) (h : a.1 ≠ b.1) :
    updKV (updKV m a) b = updKV (updKV m b) a := by
  funext k
  unfold updKV
  by_cases h1 : k = a.1
  · by_cases h2 : k = b.1
    · exact absurd (h1.symm.trans h2) h
    · have : ¬ a.1 = b.1 := h
      subst h1; simp [this]
  · by_cases h2 : k = b.1
    · have : ¬ b.1 = a.1 := fun e => h e.symm
      subst h2; simp [this]
    · simp [h1, h2]

end Lemmas

/-! ## Property theorems (C08) -/

/-- **min_window_perm_invariant.** The min side of the relayer-ranking performance window
(`probeMin` folded over the validators collected from a map) does not depend on the order in
which the map was iterated. -/
theorem min_window_perm_invariant {l₁ l₂ : List Nat} (h : l₁.Perm l₂) (init : Nat) :
    l₁.foldl min init = l₂.foldl min init := by
  induction h generalizing init with
  | nil => rfl
  | cons x _ ih => simp only [List.foldl_cons]; exact ih _
  | swap x y l => simp only [List.foldl_cons]; congr 1; omega
  | trans _ _ ih1 ih2 => exact (ih1 init).trans (ih2 init)

/-- **max_window_perm_invariant.** Same for the max side. -/
theorem max_window_perm_invariant {l₁ l₂ : List Nat} (h : l₁.Perm l₂) (init : Nat) :
    l₁.foldl max init = l₂.foldl max init := by
  induction h generalizing init with
  | nil => rfl
  | cons x _ ih => simp only [List.foldl_cons]; exact ih _
  | swap x y l => simp only [List.foldl_cons]; congr 1; omega
  | trans _ _ ih1 ih2 => exact (ih1 init).trans (ih2 init)

/-- **sorted_perm_unique.** The ranking ends with a sort by (score desc, address asc), a strict
total order because addresses are unique: two sorted lists with the same elements are equal, so
the ranked list is independent of the order in which scores were appended. -/
theorem sorted_perm_unique {α : Type} (lt : α → α → Prop)
    (irrefl : ∀ a, ¬ lt a a) (asymm : ∀ a b, lt a b → ¬ lt b a) (trans : ∀ a b c, lt a b → lt b c → lt a c)
    {l₁ l₂ : List α} (hp : l₁.Perm l₂) (h₁ : l₁.Pairwise lt) (h₂ : l₂.Pairwise lt) : l₁ = l₂ := by
  induction l₁ generalizing l₂ with
  | nil => exact (List.Perm.nil_eq hp)
  | cons a as ih =>
    cases l₂ with
    | nil => exact absurd hp.symm (by simp)
    | cons b bs =>
      have ha := List.pairwise_cons.mp h₁
      have hb := List.pairwise_cons.mp h₂
      have hab : a = b := by
        have hain : a ∈ b :: bs := hp.subset (by simp)
        have hbin : b ∈ a :: as := hp.symm.subset (by simp)
        rcases List.mem_cons.mp hain with e | hain'
        · exact e
        · rcases List.mem_cons.mp hbin with e | hbin'
          · exact e.symm
          · exact absurd (ha.1 b hbin') (asymm _ _ (hb.1 a hain'))
      subst hab
      rw [ih ((List.perm_cons a).mp hp) ha.2 hb.2]

/-- **distinct_key_writes_commute.** Writes to pairwise distinct store keys (the metrix purge
loop, map-to-map copies) give the same store in whatever order the map is iterated. -/
theorem distinct_key_writes_commute {l₁ l₂ : List (Nat × Nat)} (hp : l₁.Perm l₂)
    (hd : (l₁.map (·.1)).Nodup) (m : Nat → Option Nat) :
    l₁.foldl updKV m = l₂.foldl updKV m := by
  induction hp generalizing m with
  | nil => rfl
  | cons x _ ih =>
    simp only [List.foldl_cons]
    exact ih (List.nodup_cons.mp (by simpa using hd)).2 _
  | swap x y l =>
    simp only [List.foldl_cons]
    have hne : y.1 ≠ x.1 := by
      have := List.nodup_cons.mp (by simpa using hd : (y.1 :: x.1 :: l.map (·.1)).Nodup)
      intro e; exact this.1 (by simp [e])
    rw [updKV_comm m y x hne]
  | trans h1 _ ih1 ih2 =>
    exact (ih1 hd m).trans (ih2 ((h1.map _).nodup_iff.mp hd) m)

/-- **evidence_winner_order_independent.** `VerifyEvidence` iterates its hash groups as a map;
with one evidence per validator and a positive total only one group can have quorum
(`Libcons.winner_unique`), so the result cannot depend on the iteration order. -/
theorem evidence_winner_order_independent (s : Paloma.Libcons.Snapshot) (evs : List Paloma.Libcons.Evidence)
    (hnd : (evs.map (·.1)).Nodup) (htot : (s.vals.map (·.2)).sum ≤ s.total) (hpos : 0 < s.total)
    (h₁ h₂ : Nat) (hw₁ : h₁ ∈ Paloma.Libcons.winners s evs) (hw₂ : h₂ ∈ Paloma.Libcons.winners s evs) :
    h₁ = h₂ :=
  Paloma.Libcons.winner_unique s evs hnd htot hpos h₁ h₂ hw₁ hw₂

/-! ### the inventory regenerated from the source -/

/-- loop shapes the extractor recognises as order-insensitive by construction -/
def safeKinds : List String := ["collect-then-sort", "map-to-map", "exists-early-return", "empty"]

/-- every other `range` over a map in consensus-side code, with the reason it is harmless
    (key = enclosing function # ranged expression) -/
def justified : List (String × String) := [
  ("app.App.AutoCliOpts#app.ModuleManager.Modules", "CLI wiring, not a state transition"),
  ("app/mempool.IsEmpty#mp.priorityCounts", "mempool self-check returning only an error/no error; not consensus state"),
  ("app/mempool.IsEmpty#mp.senderIndices", "mempool self-check; not consensus state"),
  ("util/libcons.ConsensusChecker.VerifyEvidence#groups", "at most one group has quorum: evidence_winner_order_independent"),
  ("x/evm/keeper.rankValidators#validatorsInfos", "min/max window and final total-order sort: min_window_perm_invariant, max_window_perm_invariant, sorted_perm_unique"),
  ("x/metrix/keeper.Keeper.PurgeRelayMetrics#updates", "writes to pairwise distinct keys: distinct_key_writes_commute"),
  ("x/skyway/keeper.CheckBatches#inProgressBatches", "crisis invariant, read-only"),
  ("x/skyway/types.InternalBridgeValidators.PowerDiff#powers", "no caller outside tests (float sum would be order-sensitive if it were ever used)"),
  ("x/valset/keeper.Keeper.isNewSnapshotWorthy#currentMap", "existential with early `return true`; only the log text differs"),
  ("x/valset/keeper.Keeper.isNewSnapshotWorthy#currentTraitMap", "existential with early `return true`")
]

def envJustified : List (String × String) := [
  ("app.GetPigonListenPort", "health-check port of the side-car, not a state transition"),
  ("x/paloma/keeper.msgServer.AddStatusUpdate", "both settings return success and write no state (only logging differs); exercised by twin execution with the variable set on one twin")
]

/-- what each environment-reading function may still do after the read (regenerated facts):
    the error returns (a transaction result that would differ between nodes) and the keeper calls
    (state access). `AddStatusUpdate`: the single error return is the creator-address parse, which
    cannot fail for a transaction that passed `ValidateBasic` (libmeta validates the creator), and the
    only keeper call is the logger. -/
def envRegionExpected : List (String × List String × List String) := [
  ("app.GetPigonListenPort", [], []),
  ("x/paloma/keeper.msgServer.AddStatusUpdate", ["return nil, err"], ["k.Logger"])
]

def envRegionOk (r : Paloma.Gen.Nondet.EnvRegion) : Bool :=
  envRegionExpected.any fun e => e.1 == r.fn && e.2.1 == r.errorReturns && e.2.2 == r.keeperCalls

def randJustified : List String :=
  ["x/skyway/types.NonemptyEthAddress", "x/skyway/types.NonemptySdkAccAddress", "x/skyway/types.NonzeroSdkInt", "x/skyway/types.NonzeroUint64"]

def mapRangeOk (s : Paloma.Gen.Nondet.Site) : Bool :=
  safeKinds.contains s.kind || justified.any (fun j => j.1 == s.fn ++ "#" ++ s.expr)

/-- **nondeterminism_inventory_covered.** In the current source every `range` over a map is an
order-insensitive shape (a filtered collect counts as a collect, and must be sorted afterwards) or
individually justified above; the only environment reads are the two justified ones, and after
such a read the function has exactly the listed error returns and keeper calls (a new way to fail
or to touch state behind the feature flag makes this fail); there is no wall-clock read and no use of the process-local time zone
(`time.Unix`, `.Local()`, `time.LoadLocation` …); randomness occurs only in the listed test
helpers; and the relayer assigner has a value receiver, so its per-call score cache cannot
survive into another call. A new unsorted map range, environment read, `time.Now` or `rand`
use on a consensus path makes this `decide` fail. -/
theorem nondeterminism_inventory_covered :
    (Paloma.Gen.Nondet.mapRanges.all mapRangeOk &&
     Paloma.Gen.Nondet.envReads.all (fun s => envJustified.any (fun j => j.1 == s.fn)) &&
     Paloma.Gen.Nondet.envRegions.all envRegionOk &&
     Paloma.Gen.Nondet.envRegions.length == Paloma.Gen.Nondet.envReads.length &&
     Paloma.Gen.Nondet.clockReads.isEmpty &&
     Paloma.Gen.Nondet.localZoneUses.isEmpty &&
     Paloma.Gen.Nondet.randomUses.all (fun s => randJustified.contains s.fn) &&
     Paloma.Gen.Nondet.assignerReceiver == "value") = true := by decide

/-! ### non-vacuity -/
example : [3, 1, 2].foldl min 9 = [2, 3, 1].foldl min 9 := by decide
example : ([(1, 10), (2, 20)].foldl updKV (fun _ => none)) 2 = ([(2, 20), (1, 10)].foldl updKV (fun _ => none)) 2 := by decide

end Paloma.Determinism
