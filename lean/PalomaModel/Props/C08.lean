/-
C08 — state transitions are a deterministic function of chain history (PARTIAL: the logic is
proved here; Go's runtime behaviour — the actual map iteration order, the process environment —
is exercised by twin execution in the harness, see DESIGN.md).

What is proved: the order-independence lemmas that justify each `range` over a map on a consensus
path, and — by `decide` over the inventory regenerated from the source on every run
(`Gen/Nondet.lean`) — that every map range, environment read, wall-clock read and use of
randomness in the repository's own consensus-side code is one of the justified shapes.
-/
import PalomaModel.Gen.Nondet
import PalomaModel.Props.C04
import PalomaModel.Model.Queue

namespace Paloma.Determinism
open List

/-! ## helper lemmas -/
section Lemmas

theorem foldl_min_comm (l : List Nat) (a b : Nat) :
    l.foldl min (min a b) = min b (l.foldl min a) := by
  induction l generalizing a b with
  | nil => simp [Nat.min_comm]
  | cons x xs ih =>
    simp only [List.foldl_cons]
    rw [show min (min a b) x = min (min a x) b by omega, ih]

theorem foldl_max_comm (l : List Nat) (a b : Nat) :
    l.foldl max (max a b) = max b (l.foldl max a) := by
  induction l generalizing a b with
  | nil => simp [Nat.max_comm]
  | cons x xs ih =>
    simp only [List.foldl_cons]
    rw [show max (max a b) x = max (max a x) b by omega, ih]

def updKV (m : Nat → Option Nat) (kv : Nat × Nat) : Nat → Option Nat :=
  fun k => if k = kv.1 then some kv.2 else m k

theorem updKV_comm (m : Nat → Option Nat) (a b : Nat × Nat) (h : a.1 ≠ b.1) :
    updKV (updKV m a) b = updKV (updKV m b) a := by
  funext k
  unfold updKV
  by_cases h1 : k = a.1
  · by_cases h2 : k = b.1
    · exact absurd (h1.symm.trans h2) h
    · have : ¬ a.1 = b.1 := h
      subst h1; simp [this]
  · by_cases h2 : k = b.1
    · have : ¬ b.1 = a.1 := fun e => h e.symm
      subst h2; simp [this]
    · simp [h1, h2]

/-! ### the relayer ranking of `Model/Queue.lean` (`rankValidators`, `probeMin/Max`, the final sort) -/
section Ranking
open Paloma.Queue
theorem before_trans {a b c : Scored} (h1 : before a b = true) (h2 : before b c = true) : before a c = true := by
  simp only [before, Bool.or_eq_true, Bool.and_eq_true, decide_eq_true_eq, beq_iff_eq] at *
  omega

theorem before_asymm {a b : Scored} (h1 : before a b = true) : ¬ before b a = true := by
  simp only [before, Bool.or_eq_true, Bool.and_eq_true, decide_eq_true_eq, beq_iff_eq] at *
  omega

theorem before_total {a b : Scored} (hne : a.id ≠ b.id) (h : ¬ before a b = true) : before b a = true := by
  simp only [before, Bool.or_eq_true, Bool.and_eq_true, decide_eq_true_eq, beq_iff_eq] at *
  omega

theorem insertScored_perm (x : Scored) (l : List Scored) : (insertScored x l).Perm (x :: l) := by
  induction l with
  | nil => simp [insertScored]
  | cons y ys ih =>
    unfold insertScored
    split
    · exact List.Perm.refl _
    · exact (List.Perm.cons y ih).trans (List.Perm.swap x y ys)

theorem rank_perm (l : List Scored) : (rank l).Perm l := by
  induction l with
  | nil => simp [rank]
  | cons x xs ih =>
    have : rank (x :: xs) = insertScored x (rank xs) := rfl
    rw [this]
    exact (insertScored_perm x (rank xs)).trans (List.Perm.cons x ih)

theorem insertScored_sorted (x : Scored) (l : List Scored) (hs : l.Pairwise (fun a b => before a b = true))
    (hne : ∀ y ∈ l, x.id ≠ y.id) : (insertScored x l).Pairwise (fun a b => before a b = true) := by
  induction l with
  | nil => simp [insertScored]
  | cons y ys ih =>
    have hy := List.pairwise_cons.mp hs
    unfold insertScored
    split
    · rename_i hb
      refine List.pairwise_cons.mpr ⟨?_, hs⟩
      intro z hz
      rcases List.mem_cons.mp hz with rfl | hz
      · exact hb
      · exact before_trans hb (hy.1 z hz)
    · rename_i hb
      have hyx : before y x = true := before_total (hne y (by simp)) hb
      refine List.pairwise_cons.mpr ⟨?_, ih hy.2 (fun z hz => hne z (by simp [hz]))⟩
      intro z hz
      rcases List.mem_cons.mp ((insertScored_perm x ys).subset hz) with rfl | hz
      · exact hyx
      · exact hy.1 z hz

theorem rank_sorted_strict (l : List Scored) (hid : (l.map (·.id)).Nodup) :
    (rank l).Pairwise (fun a b => before a b = true) := by
  induction l with
  | nil => simp [rank]
  | cons x xs ih =>
    have hn : x.id ∉ xs.map (·.id) ∧ (xs.map (·.id)).Nodup := List.nodup_cons.mp (by simpa [List.map_cons] using hid)
    have : rank (x :: xs) = insertScored x (rank xs) := rfl
    rw [this]
    apply insertScored_sorted x (rank xs) (ih hn.2)
    intro y hy heq
    have hyin : y ∈ xs := (rank_perm xs).subset hy
    exact hn.1 (by rw [heq]; exact List.mem_map_of_mem hyin)

theorem clamp0_nonneg (a : Int) : 0 ≤ clamp0 a := by unfold clamp0; split <;> omega

/-- the running minimum: result is a lower bound of the seed and of every clamped value, and is attained -/
theorem minfold_spec (rest : List Int) : ∀ b0, 0 ≤ b0 →
    let r := rest.foldl (fun b a => if a < b then clamp0 a else b) b0
    (r = b0 ∨ r ∈ rest.map clamp0) ∧ r ≤ b0 ∧ (∀ a ∈ rest, r ≤ clamp0 a) ∧ 0 ≤ r := by
  induction rest with
  | nil => intro b0 h; simp [h]
  | cons a as ih =>
    intro b0 h0
    simp only [List.foldl_cons]
    by_cases hlt : a < b0
    · simp only [hlt, if_true]
      have hc := clamp0_nonneg a
      have hle : clamp0 a ≤ b0 := by unfold clamp0; split <;> omega
      have := ih (clamp0 a) hc
      simp only at this
      refine ⟨?_, by omega, ?_, this.2.2.2⟩
      · rcases this.1 with e | e
        · right; rw [e]; simp
        · right; simp only [List.map_cons, List.mem_cons]; right; exact e
      · intro y hy
        rcases List.mem_cons.mp hy with rfl | hy
        · exact this.2.1
        · exact this.2.2.1 y hy
    · simp only [hlt, if_false]
      have := ih b0 h0
      simp only at this
      refine ⟨?_, this.2.1, ?_, this.2.2.2⟩
      · rcases this.1 with e | e
        · left; exact e
        · right; simp only [List.map_cons, List.mem_cons]; right; exact e
      · intro y hy
        rcases List.mem_cons.mp hy with rfl | hy
        · have : b0 ≤ clamp0 y := by unfold clamp0; split <;> omega
          omega
        · exact this.2.2.1 y hy

theorem wmin_spec (l : List Int) (hne : l ≠ []) : wmin l ∈ l.map clamp0 ∧ ∀ a ∈ l, wmin l ≤ clamp0 a := by
  cases l with
  | nil => exact absurd rfl hne
  | cons x rest =>
    have := minfold_spec rest (clamp0 x) (clamp0_nonneg x)
    simp only at this
    show (rest.foldl (fun b a => if a < b then clamp0 a else b) (clamp0 x)) ∈ _ ∧ ∀ a ∈ x :: rest, (rest.foldl (fun b a => if a < b then clamp0 a else b) (clamp0 x)) ≤ clamp0 a
    refine ⟨?_, ?_⟩
    · rcases this.1 with e | e
      · rw [e]; simp
      · simp only [List.map_cons, List.mem_cons]; right; exact e
    · intro a ha
      rcases List.mem_cons.mp ha with rfl | ha
      · exact this.2.1
      · exact this.2.2.1 a ha

theorem wmin_perm {l₁ l₂ : List Int} (hp : l₁.Perm l₂) : wmin l₁ = wmin l₂ := by
  by_cases h1 : l₁ = []
  · subst h1; rw [List.Perm.nil_eq hp]
  · have h2 : l₂ ≠ [] := fun e => h1 (by subst e; exact List.Perm.eq_nil hp)
    have a := wmin_spec l₁ h1
    have b := wmin_spec l₂ h2
    rcases List.mem_map.mp a.1 with ⟨x, hx, ex⟩
    rcases List.mem_map.mp b.1 with ⟨y, hy, ey⟩
    have := b.2 x (hp.subset hx)
    have := a.2 y (hp.symm.subset hy)
    omega

theorem maxfold_spec (rest : List Int) : ∀ b0,
    let r := rest.foldl (fun b a => if a > b then a else b) b0
    (r = b0 ∨ r ∈ rest) ∧ b0 ≤ r ∧ (∀ a ∈ rest, a ≤ r) := by
  induction rest with
  | nil => intro b0; simp
  | cons a as ih =>
    intro b0
    simp only [List.foldl_cons]
    by_cases hgt : a > b0
    · simp only [hgt, if_true]
      have := ih a
      simp only at this
      refine ⟨?_, by omega, ?_⟩
      · rcases this.1 with e | e
        · right; rw [e]; simp
        · right; exact List.mem_cons_of_mem _ e
      · intro y hy
        rcases List.mem_cons.mp hy with rfl | hy
        · exact this.2.1
        · exact this.2.2 y hy
    · simp only [hgt, if_false]
      have := ih b0
      simp only at this
      refine ⟨?_, this.2.1, ?_⟩
      · rcases this.1 with e | e
        · left; exact e
        · right; exact List.mem_cons_of_mem _ e
      · intro y hy
        rcases List.mem_cons.mp hy with rfl | hy
        · omega
        · exact this.2.2 y hy

theorem wmax_spec (l : List Int) (hne : l ≠ []) : wmax l ∈ l ∧ ∀ a ∈ l, a ≤ wmax l := by
  cases l with
  | nil => exact absurd rfl hne
  | cons x rest =>
    have := maxfold_spec rest x
    simp only at this
    show (rest.foldl (fun b a => if a > b then a else b) x) ∈ x :: rest ∧ ∀ a ∈ x :: rest, a ≤ (rest.foldl (fun b a => if a > b then a else b) x)
    refine ⟨?_, ?_⟩
    · rcases this.1 with e | e
      · rw [e]; simp
      · exact List.mem_cons_of_mem _ e
    · intro a ha
      rcases List.mem_cons.mp ha with rfl | ha
      · exact this.2.1
      · exact this.2.2 a ha

theorem wmax_perm {l₁ l₂ : List Int} (hp : l₁.Perm l₂) : wmax l₁ = wmax l₂ := by
  by_cases h1 : l₁ = []
  · subst h1; rw [List.Perm.nil_eq hp]
  · have h2 : l₂ ≠ [] := fun e => h1 (by subst e; exact List.Perm.eq_nil hp)
    have a := wmax_spec l₁ h1
    have b := wmax_spec l₂ h2
    have := b.2 _ (hp.subset a.1)
    have := a.2 _ (hp.symm.subset b.1)
    omega

theorem scoreOf_perm (w : Weights) {i₁ i₂ : List Info} (hp : i₁.Perm i₂) (i : Info) :
    scoreOf w i₁ i = scoreOf w i₂ i := by
  unfold scoreOf
  rw [wmax_perm (hp.map (·.fee)), wmin_perm (hp.map (·.fee)),
      wmax_perm (hp.map (·.uptime)), wmin_perm (hp.map (·.uptime)),
      wmax_perm (hp.map (·.successRate)), wmin_perm (hp.map (·.successRate)),
      wmax_perm (hp.map (·.execTime)), wmin_perm (hp.map (·.execTime)),
      wmax_perm (hp.map (·.featureSet)), wmin_perm (hp.map (·.featureSet))]

end Ranking

end Lemmas

/-! ## Property theorems (C08) -/

/-- **min_window_perm_invariant.** The min side of the relayer-ranking performance window
(`probeMin` folded over the validators collected from a map) does not depend on the order in
which the map was iterated. -/
theorem min_window_perm_invariant {l₁ l₂ : List Nat} (h : l₁.Perm l₂) (init : Nat) :
    l₁.foldl min init = l₂.foldl min init := by
  induction h generalizing init with
  | nil => rfl
  | cons x _ ih => simp only [List.foldl_cons]; exact ih _
  | swap x y l => simp only [List.foldl_cons]; congr 1; omega
  | trans _ _ ih1 ih2 => exact (ih1 init).trans (ih2 init)

/-- **max_window_perm_invariant.** Same for the max side. -/
theorem max_window_perm_invariant {l₁ l₂ : List Nat} (h : l₁.Perm l₂) (init : Nat) :
    l₁.foldl max init = l₂.foldl max init := by
  induction h generalizing init with
  | nil => rfl
  | cons x _ ih => simp only [List.foldl_cons]; exact ih _
  | swap x y l => simp only [List.foldl_cons]; congr 1; omega
  | trans _ _ ih1 ih2 => exact (ih1 init).trans (ih2 init)

/-- **sorted_perm_unique.** The ranking ends with a sort by (score desc, address asc), a strict
total order because addresses are unique: two sorted lists with the same elements are equal, so
the ranked list is independent of the order in which scores were appended. -/
theorem sorted_perm_unique {α : Type} (lt : α → α → Prop) (asymm : ∀ a b, lt a b → ¬ lt b a)
    {l₁ l₂ : List α} (hp : l₁.Perm l₂) (h₁ : l₁.Pairwise lt) (h₂ : l₂.Pairwise lt) : l₁ = l₂ := by
  induction l₁ generalizing l₂ with
  | nil => exact (List.Perm.nil_eq hp)
  | cons a as ih =>
    cases l₂ with
    | nil => exact absurd hp.symm (by simp)
    | cons b bs =>
      have ha := List.pairwise_cons.mp h₁
      have hb := List.pairwise_cons.mp h₂
      have hab : a = b := by
        have hain : a ∈ b :: bs := hp.subset (by simp)
        have hbin : b ∈ a :: as := hp.symm.subset (by simp)
        rcases List.mem_cons.mp hain with e | hain'
        · exact e
        · rcases List.mem_cons.mp hbin with e | hbin'
          · exact e.symm
          · exact absurd (ha.1 b hbin') (asymm _ _ (hb.1 a hain'))
      subst hab
      rw [ih ((List.perm_cons a).mp hp) ha.2 hb.2]

open Paloma.Queue in
/-- **ranking_independent_of_map_order.** ("relayer selection … gives the same answer every time it is
evaluated on the same state") `rankValidators` collects the validators' infos by ranging over a Go map:
the model's ranking — window minima / maxima (`wmin`, `wmax`), the five weighted scores and the final
sort by (score desc, address asc) — gives the same list for every order in which that map is iterated,
provided validator addresses are distinct (they are the map's keys). -/
theorem ranking_independent_of_map_order (w : Weights) {i₁ i₂ : List Info} (hp : i₁.Perm i₂)
    (hid : (i₁.map (·.id)).Nodup) :
    rank (i₁.map (scoreOf w i₁)) = rank (i₂.map (scoreOf w i₂)) := by
  have hcongr : i₂.map (scoreOf w i₂) = i₂.map (scoreOf w i₁) :=
    List.map_congr_left (fun i _ => (scoreOf_perm w hp i).symm)
  have hs : (i₁.map (scoreOf w i₁)).Perm (i₂.map (scoreOf w i₂)) := by rw [hcongr]; exact hp.map _
  have hids : ∀ (l : List Info), (l.map (scoreOf w i₁)).map (·.id) = l.map (·.id) := by
    intro l; simp [List.map_map, Function.comp_def, scoreOf]
  have hid1 : ((i₁.map (scoreOf w i₁)).map (·.id)).Nodup := by rw [hids]; exact hid
  have hid2 : ((i₂.map (scoreOf w i₂)).map (·.id)).Nodup := by
    rw [hcongr, hids]; exact (hp.map (·.id)).nodup_iff.mp hid
  apply sorted_perm_unique (fun a b => before a b = true) (fun a b h => before_asymm h)
    (((rank_perm _).trans hs).trans (rank_perm _).symm)
    (rank_sorted_strict _ hid1) (rank_sorted_strict _ hid2)

/-- **distinct_key_writes_commute.** Writes to pairwise distinct store keys (the metrix purge
loop, map-to-map copies) give the same store in whatever order the map is iterated. -/
theorem distinct_key_writes_commute {l₁ l₂ : List (Nat × Nat)} (hp : l₁.Perm l₂)
    (hd : (l₁.map (·.1)).Nodup) (m : Nat → Option Nat) :
    l₁.foldl updKV m = l₂.foldl updKV m := by
  induction hp generalizing m with
  | nil => rfl
  | cons x _ ih =>
    simp only [List.foldl_cons]
    exact ih (List.nodup_cons.mp (by simpa using hd)).2 _
  | swap x y l =>
    simp only [List.foldl_cons]
    have hne : y.1 ≠ x.1 := by
      have := List.nodup_cons.mp (by simpa using hd : (y.1 :: x.1 :: l.map (·.1)).Nodup)
      intro e; exact this.1 (by simp [e])
    rw [updKV_comm m y x hne]
  | trans h1 _ ih1 ih2 =>
    exact (ih1 hd m).trans (ih2 ((h1.map _).nodup_iff.mp hd) m)

/-- **evidence_winner_order_independent.** `VerifyEvidence` iterates its hash groups as a map;
with one evidence per validator and a positive total only one group can have quorum
(`Libcons.winner_unique`), so the result cannot depend on the iteration order. -/
theorem evidence_winner_order_independent (s : Paloma.Libcons.Snapshot) (evs : List Paloma.Libcons.Evidence)
    (hnd : (evs.map (·.1)).Nodup) (htot : (s.vals.map (·.2)).sum ≤ s.total) (hpos : 0 < s.total)
    (h₁ h₂ : Nat) (hw₁ : h₁ ∈ Paloma.Libcons.winners s evs) (hw₂ : h₂ ∈ Paloma.Libcons.winners s evs) :
    h₁ = h₂ :=
  Paloma.Libcons.winner_unique s evs hnd htot hpos h₁ h₂ hw₁ hw₂

/-! ### the inventory regenerated from the source -/

/-- loop shapes the extractor recognises as order-insensitive by construction -/
def safeKinds : List String := ["collect-then-sort", "map-to-map", "exists-early-return", "empty"]

/-- every other `range` over a map in consensus-side code, with the reason it is harmless
    (key = enclosing function # ranged expression, then HOW MANY such loops the function has: a further
    loop over the same expression in the same function is a new site and makes the count wrong) -/
def justified : List (String × Nat × String) := [
  ("app.App.AutoCliOpts#app.ModuleManager.Modules", 1, "CLI wiring, not a state transition"),
  ("app/mempool.IsEmpty#mp.priorityCounts", 1, "mempool self-check returning only an error/no error; not consensus state"),
  ("app/mempool.IsEmpty#mp.senderIndices", 1, "mempool self-check; not consensus state"),
  ("util/libcons.ConsensusChecker.VerifyEvidence#groups", 1, "at most one group has quorum: evidence_winner_order_independent"),
  ("x/evm/keeper.rankValidators#validatorsInfos", 2, "the whole ranking is order-independent: ranking_independent_of_map_order (on Model/Queue.lean's rank / scoreOf / wmin / wmax, which the C06/C14 correspondence ties to the Go code)"),
  ("x/metrix/keeper.Keeper.PurgeRelayMetrics#updates", 1, "writes to pairwise distinct keys: distinct_key_writes_commute"),
  ("x/skyway/keeper.CheckBatches#inProgressBatches", 1, "crisis invariant, read-only"),
  ("x/skyway/types.InternalBridgeValidators.PowerDiff#powers", 1, "no caller outside tests (float sum would be order-sensitive if it were ever used)"),
  ("x/valset/keeper.Keeper.isNewSnapshotWorthy#currentMap", 1, "existential with early `return true`; only the log text differs"),
  ("x/valset/keeper.Keeper.isNewSnapshotWorthy#currentTraitMap", 1, "existential with early `return true`")
]

def envJustified : List (String × String) := [
  ("app.GetPigonListenPort", "health-check port of the side-car, not a state transition"),
  ("x/paloma/keeper.msgServer.AddStatusUpdate", "both settings return success and write no state (only logging differs); exercised by twin execution with the variable set on one twin")
]

/-- what each environment-reading function may still do after the read (regenerated facts):
    the error returns (a transaction result that would differ between nodes) and the keeper calls
    (state access). `AddStatusUpdate`: the single error return is the creator-address parse, which
    cannot fail for a transaction that passed `ValidateBasic` (libmeta validates the creator), and the
    only keeper call is the logger. -/
def envRegionExpected : List (String × List String × List String) := [
  ("app.GetPigonListenPort", [], []),
  ("x/paloma/keeper.msgServer.AddStatusUpdate", ["return nil, err"], ["k.Logger"])
]

def envRegionOk (r : Paloma.Gen.Nondet.EnvRegion) : Bool :=
  envRegionExpected.any fun e => e.1 == r.fn && e.2.1 == r.errorReturns && e.2.2 == r.keeperCalls

/-- process-local state ("in-memory caches surviving from earlier blocks or queries, node restarts"):
    the only package-level variables any function other than `init` writes are the two subscriber tables
    of the event bus, and the only functions that change a subscriber table are the two keeper
    constructors, which run once per `app.New` with constant keys (so a restarted node and a node that
    never restarted hold the same table); `Publish` iterates the table in sorted key order
    (map range `util/eventbus.Event.Publish`, shape collect-then-sort). -/
def writtenGlobalsExpected : List String := ["util/eventbus.evmActivatedChain", "util/eventbus.skywayBatchBuilt"]
def eventBusSubscriptionsExpected : List String := ["x/evm/keeper.NewKeeper#Subscribe", "x/skyway/keeper.NewKeeper#Subscribe"]

def randJustified : List String :=
  ["x/skyway/types.NonemptyEthAddress", "x/skyway/types.NonemptySdkAccAddress", "x/skyway/types.NonzeroSdkInt", "x/skyway/types.NonzeroUint64"]

def mapRangeOk (s : Paloma.Gen.Nondet.Site) : Bool :=
  safeKinds.contains s.kind || justified.any (fun j => j.1 == s.fn ++ "#" ++ s.expr)

/-- number of map ranges of a non-safe shape with this key in the current source -/
def unsafeSites (key : String) : Nat :=
  (Paloma.Gen.Nondet.mapRanges.filter fun s => !safeKinds.contains s.kind && s.fn ++ "#" ++ s.expr == key).length

/-- **nondeterminism_inventory_covered.** In the current source every `range` over a map is an
order-insensitive shape (a filtered collect counts as a collect, and must be sorted afterwards) or
individually justified above; the only environment reads are the two justified ones, and after
such a read the function has exactly the listed error returns and keeper calls (a new way to fail
or to touch state behind the feature flag makes this fail); there is no wall-clock read and no use of the process-local time zone
(`time.Unix`, `.Local()`, `time.LoadLocation` …); randomness occurs only in the listed test
helpers; the relayer assigner has a value receiver, so its per-call score cache cannot
survive into another call; and the only package-level variables written at run time are the event
bus's two subscriber tables, changed by the two keeper constructors only. A new unsorted map range, environment read, `time.Now` or `rand`
use on a consensus path makes this `decide` fail. -/
theorem nondeterminism_inventory_covered :
    (Paloma.Gen.Nondet.mapRanges.all mapRangeOk &&
     justified.all (fun j => unsafeSites j.1 == j.2.1) &&
     Paloma.Gen.Nondet.envReads.all (fun s => envJustified.any (fun j => j.1 == s.fn)) &&
     Paloma.Gen.Nondet.envRegions.all envRegionOk &&
     Paloma.Gen.Nondet.envRegions.length == Paloma.Gen.Nondet.envReads.length &&
     Paloma.Gen.Nondet.writtenGlobals.map (·.name) == writtenGlobalsExpected &&
     Paloma.Gen.Nondet.eventBusSubscriptions == eventBusSubscriptionsExpected &&
     Paloma.Gen.Nondet.clockReads.isEmpty &&
     Paloma.Gen.Nondet.localZoneUses.isEmpty &&
     Paloma.Gen.Nondet.randomUses.all (fun s => randJustified.contains s.fn) &&
     Paloma.Gen.Nondet.assignerReceiver == "value") = true := by decide

/-- **long_lived_objects_keep_no_run_time_state.** Keepers, msg / query servers, modules, ante decorators, wasm
plugins and proposal handlers are created once per `app.New` and live until the process ends.  In the current
source the only methods that write through such a receiver (a field of a pointer receiver; for any receiver an
element of a map or a field behind a pointer) are the three wiring hooks below, and their only caller is
`app.New`.  A memo table or cache added to a keeper and filled while transactions, blocks or queries run — which
survives a rolled-back transaction and disappears at a restart — is a new row and makes this `decide` fail. -/
theorem long_lived_objects_keep_no_run_time_state :
    (Paloma.Gen.Nondet.receiverWrites.map fun r => (r.1, r.2.2.1, r.2.2.2)) =
      [("x/consensus/keeper.Keeper.AddMessageConsensusAttestedListener", "k.onMessageAttestedListeners", ["app.New"]),
       ("x/consensus/keeper.Keeper.LateInject", "k.evmKeeper", ["app.New"]),
       ("x/evm/keeper.Keeper.AddMessageConsensusAttestedListener", "k.onMessageAttestedListeners", ["app.New"])] := by
  decide

/-! ### non-vacuity -/
example : [3, 1, 2].foldl min 9 = [2, 3, 1].foldl min 9 := by decide
open Paloma.Queue in
example : rank [⟨1, 5⟩, ⟨2, 7⟩, ⟨3, 5⟩] = rank [⟨3, 5⟩, ⟨1, 5⟩, ⟨2, 7⟩] ∧ rank [⟨1, 5⟩, ⟨2, 7⟩, ⟨3, 5⟩] = [⟨2, 7⟩, ⟨1, 5⟩, ⟨3, 5⟩] := by decide
example : ([(1, 10), (2, 20)].foldl updKV (fun _ => none)) 2 = ([(2, 20), (1, 10)].foldl updKV (fun _ => none)) 2 := by decide

end Paloma.Determinism
