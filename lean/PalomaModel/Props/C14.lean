/-
C14 — relayer assignment, relay offering and fee attachment on the consensus queue.

"Every message that needs relaying is assigned to a validator that is in the current snapshot, has
an account on the target chain (whose address becomes the signed relayer address), has a relayer
fee and performance metrics on record, and carries the MEV trait when the job demands it; if no
such validator exists the request fails without enqueuing anything.  A message is offered for relay
only to its assignee, only once its gas estimate (when required) is elected, only while it has no
delivery or error report, never ahead of an older pending validator-set update for that chain, and
never while an older message from the same sender is still pending.  The fees attached to it are
ceil(relayer multiplier * elected gas) and ceil(community / security rate * that relayer fee)."

Model: `PalomaModel/Model/Queue.lean`.
-/
import PalomaModel.Model.Queue
import PalomaModel.Props.C06

namespace Paloma.Queue
open List

section Lemmas

theorem mem_insertScored (x y : Scored) (l : List Scored) : y ∈ insertScored x l ↔ y = x ∨ y ∈ l := by
  induction l with
  | nil => simp [insertScored]
  | cons z zs ih =>
    unfold insertScored
    split
    · simp
    · simp only [List.mem_cons, ih]
      constructor
      · rintro (h | h | h)
        · exact Or.inr (Or.inl h)
        · exact Or.inl h
        · exact Or.inr (Or.inr h)
      · rintro (h | h | h)
        · exact Or.inr (Or.inl h)
        · exact Or.inl h
        · exact Or.inr (Or.inr h)

theorem mem_rank (y : Scored) (l : List Scored) : y ∈ rank l ↔ y ∈ l := by
  induction l with
  | nil => simp [rank]
  | cons x xs ih =>
    have : rank (x :: xs) = insertScored x (rank xs) := rfl
    rw [this, mem_insertScored, ih]
    simp

theorem length_insertScored (x : Scored) (l : List Scored) : (insertScored x l).length = l.length + 1 := by
  induction l with
  | nil => rfl
  | cons z zs ih =>
    unfold insertScored
    split
    · simp
    · simp [ih]

/-- the ranking is sorted by the code's comparison: nothing later in the list goes strictly before
    an earlier entry (for equal keys — same score and address — the order is irrelevant) -/
theorem before_total (a b : Scored) : before a b = true ∨ before b a = true ∨ (a.score = b.score ∧ a.id = b.id) := by
  unfold before
  by_cases h1 : a.score > b.score
  · simp [h1]
  · by_cases h2 : b.score > a.score
    · simp [h2]
    · have : a.score = b.score := by omega
      by_cases h3 : a.id < b.id
      · simp [this, h3]
      · by_cases h4 : b.id < a.id
        · simp [this, h4]
        · right; right; exact ⟨this, by omega⟩

/-- `a` is ranked at or before `b`: higher score, or equal score and address not greater -/
def RankLe (a b : Scored) : Prop := a.score > b.score ∨ (a.score = b.score ∧ a.id ≤ b.id)

theorem rankLe_of_before {a b : Scored} (h : before a b = true) : RankLe a b := by
  unfold before at h
  unfold RankLe
  simp only [Bool.or_eq_true, decide_eq_true_eq, Bool.and_eq_true, beq_iff_eq] at h
  omega

theorem rankLe_of_not_before {a b : Scored} (h : ¬ before a b = true) : RankLe b a := by
  unfold before at h
  unfold RankLe
  simp only [Bool.or_eq_true, decide_eq_true_eq, Bool.and_eq_true, beq_iff_eq] at h
  omega

theorem rankLe_trans {a b c : Scored} (h1 : RankLe a b) (h2 : RankLe b c) : RankLe a c := by
  unfold RankLe at *
  omega

theorem insertScored_sorted (x : Scored) (l : List Scored) (h : l.Pairwise RankLe) :
    (insertScored x l).Pairwise RankLe := by
  induction l with
  | nil => simp [insertScored]
  | cons y ys ih =>
    obtain ⟨hy, hys⟩ := List.pairwise_cons.mp h
    unfold insertScored
    split
    · rename_i hb
      refine List.pairwise_cons.mpr ⟨?_, h⟩
      intro z hz
      rcases List.mem_cons.mp hz with rfl | hz
      · exact rankLe_of_before hb
      · exact rankLe_trans (rankLe_of_before hb) (hy z hz)
    · rename_i hb
      refine List.pairwise_cons.mpr ⟨?_, ih hys⟩
      intro z hz
      rcases (mem_insertScored x z ys).mp hz with rfl | hz
      · exact rankLe_of_not_before hb
      · exact hy z hz

/-- a validator qualifies for a job: metrics and fee on record, in the snapshot with a first
    target-chain account that carries the MEV trait when required -/
def Qualifies (env : Env) (snap : Snap) (mev : Bool) (id : Nat) : Prop :=
  (∃ v ∈ snap.vals, v.id = id) ∧ (assoc? env.metrics id).isSome ∧ (assoc? env.fees id).isSome ∧
    eligible snap mev id = true

theorem infoOf_id {env : Env} {v : SnapVal} {i : Info} (h : infoOf env v = some i) :
    i.id = v.id ∧ (assoc? env.metrics v.id).isSome ∧ (assoc? env.fees v.id).isSome := by
  unfold infoOf at h
  split at h
  · cases h
  · split at h
    · cases h
    · rename_i _ m hm _ f hf
      injection h with h
      subst h
      simp [hm, hf]

theorem infoOf_some_of_records {env : Env} {v : SnapVal}
    (hm : (assoc? env.metrics v.id).isSome) (hf : (assoc? env.fees v.id).isSome) :
    ∃ i, infoOf env v = some i ∧ i.id = v.id := by
  unfold infoOf
  obtain ⟨m, hm⟩ := Option.isSome_iff_exists.mp hm
  obtain ⟨f, hf⟩ := Option.isSome_iff_exists.mp hf
  simp [hm, hf]

theorem mem_assignable {env : Env} {snap : Snap} {mev : Bool} {w : Scored} (h : w ∈ assignable env snap mev) :
    Qualifies env snap mev w.id := by
  unfold assignable at h
  obtain ⟨hr, he⟩ := List.mem_filter.mp h
  rw [mem_rank] at hr
  obtain ⟨i, hi, hs⟩ := List.mem_map.mp hr
  unfold buildInfos at hi
  obtain ⟨v, hv, hiv⟩ := List.mem_filterMap.mp hi
  obtain ⟨hid, hm, hf⟩ := infoOf_id hiv
  have hw : w.id = v.id := by rw [← hs]; simp [scoreOf, hid]
  refine ⟨⟨v, hv, hw.symm⟩, ?_, ?_, he⟩
  · rw [hw]; exact hm
  · rw [hw]; exact hf

theorem assignable_of_qualifies {env : Env} {snap : Snap} {mev : Bool} {id : Nat}
    (h : Qualifies env snap mev id) : ∃ w ∈ assignable env snap mev, w.id = id := by
  obtain ⟨⟨v, hv, hid⟩, hm, hf, he⟩ := h
  subst hid
  obtain ⟨i, hi, hii⟩ := infoOf_some_of_records hm hf
  have hmem : i ∈ buildInfos env snap := List.mem_filterMap.mpr ⟨v, hv, hi⟩
  refine ⟨scoreOf env.weights (buildInfos env snap) i, ?_, by simp [scoreOf, hii]⟩
  unfold assignable
  refine List.mem_filter.mpr ⟨?_, by simpa [scoreOf, hii] using he⟩
  rw [mem_rank]
  exact List.mem_map.mpr ⟨i, hmem, rfl⟩

/-- what `eligible` says, unfolded -/
theorem eligible_spec {snap : Snap} {mev : Bool} {id : Nat} (h : eligible snap mev id = true) :
    ∃ v, snap.vals.find? (fun v => v.id == id) = some v ∧
      ∃ a, chainAccount v.accounts = some a ∧ (mev = true → a.mev = true) := by
  unfold eligible at h
  split at h
  · cases h
  · rename_i v hv
    split at h
    · cases h
    · rename_i a ha
      refine ⟨v, hv, a, ha, ?_⟩
      intro hm
      subst hm
      simpa using h

theorem chainAccount_spec {accts : List Account} {a : Account} (h : chainAccount accts = some a) :
    a ∈ accts ∧ a.chain = targetChain := by
  unfold chainAccount at h
  exact ⟨List.mem_of_find?_eq_some h, by simpa using List.find?_some h⟩

theorem relayAux_skip {sm : Item → Bool} {pend : Option Nat} {v : Nat} {lut : List Nat} {hd : Item} {tl : List Item}
    (h : ¬ pass1 pend hd = true) : relayAux sm pend v lut (hd :: tl) = relayAux sm pend v lut tl := by
  simp [relayAux, h]

theorem relayAux_known {sm : Item → Bool} {pend : Option Nat} {v : Nat} {lut : List Nat} {hd : Item} {tl : List Item}
    (h1 : pass1 pend hd = true) (h2 : sm hd = true) (h3 : hd.sender ∈ lut) :
    relayAux sm pend v lut (hd :: tl) = relayAux sm pend v lut tl := by
  simp [relayAux, h1, h2, h3]

theorem relayAux_new_pass {sm : Item → Bool} {pend : Option Nat} {v : Nat} {lut : List Nat} {hd : Item} {tl : List Item}
    (h1 : pass1 pend hd = true) (h2 : sm hd = true) (h3 : hd.sender ∉ lut)
    (h4 : pass2 v hd = true) :
    relayAux sm pend v lut (hd :: tl) = hd.id :: relayAux sm pend v (hd.sender :: lut) tl := by
  simp [relayAux, h1, h2, h3, h4]

theorem relayAux_new_fail {sm : Item → Bool} {pend : Option Nat} {v : Nat} {lut : List Nat} {hd : Item} {tl : List Item}
    (h1 : pass1 pend hd = true) (h2 : sm hd = true) (h3 : hd.sender ∉ lut)
    (h4 : ¬ pass2 v hd = true) :
    relayAux sm pend v lut (hd :: tl) = relayAux sm pend v (hd.sender :: lut) tl := by
  simp [relayAux, h1, h2, h3, h4]

theorem relayAux_plain_pass {sm : Item → Bool} {pend : Option Nat} {v : Nat} {lut : List Nat} {hd : Item} {tl : List Item}
    (h1 : pass1 pend hd = true) (h2 : ¬ sm hd = true) (h4 : pass2 v hd = true) :
    relayAux sm pend v lut (hd :: tl) = hd.id :: relayAux sm pend v lut tl := by
  simp [relayAux, h1, h2, h4]

theorem relayAux_plain_fail {sm : Item → Bool} {pend : Option Nat} {v : Nat} {lut : List Nat} {hd : Item} {tl : List Item}
    (h1 : pass1 pend hd = true) (h2 : ¬ sm hd = true) (h4 : ¬ pass2 v hd = true) :
    relayAux sm pend v lut (hd :: tl) = relayAux sm pend v lut tl := by
  simp [relayAux, h1, h2, h4]

/-- characterisation of the relay filter over a queue suffix with a look-up table -/
theorem mem_relayAux (sm : Item → Bool) (pend : Option Nat) (v x : Nat) (l : List Item) :
    ∀ lut : List Nat, x ∈ relayAux sm pend v lut l ↔
      ∃ pre it post, l = pre ++ it :: post ∧ it.id = x ∧ pass1 pend it = true ∧ pass2 v it = true ∧
        (sm it = true → it.sender ∉ lut ∧
          ∀ j ∈ pre, pass1 pend j = true → sm j = true → j.sender ≠ it.sender) := by
  induction l with
  | nil => intro lut; simp [relayAux]
  | cons hd tl ih =>
    intro lut
    -- membership in the tail, transported to the whole list
    have lift : ∀ lut', (∀ it : Item, sm it = true → (it.sender ∉ lut' ↔
          it.sender ∉ lut ∧ (pass1 pend hd = true → sm hd = true → hd.sender ≠ it.sender))) →
        (x ∈ relayAux sm pend v lut' tl ↔
          ∃ pre it post, hd :: tl = (hd :: pre) ++ it :: post ∧ it.id = x ∧ pass1 pend it = true ∧ pass2 v it = true ∧
            (sm it = true → it.sender ∉ lut ∧
              ∀ j ∈ hd :: pre, pass1 pend j = true → sm j = true → j.sender ≠ it.sender)) := by
      intro lut' hl
      rw [ih lut']
      constructor
      · rintro ⟨pre, it, post, rfl, hid, h1, h2, hs⟩
        refine ⟨pre, it, post, rfl, hid, h1, h2, ?_⟩
        intro hsm
        obtain ⟨hn, hp⟩ := hs hsm
        obtain ⟨hn1, hn2⟩ := (hl it hsm).mp hn
        refine ⟨hn1, ?_⟩
        intro j hj
        rcases List.mem_cons.mp hj with rfl | hj
        · exact hn2
        · exact hp j hj
      · rintro ⟨pre, it, post, heq, hid, h1, h2, hs⟩
        have heq' : tl = pre ++ it :: post := by simpa using heq
        refine ⟨pre, it, post, heq', hid, h1, h2, ?_⟩
        intro hsm
        obtain ⟨hn, hp⟩ := hs hsm
        refine ⟨(hl it hsm).mpr ⟨hn, hp hd (List.mem_cons_self ..)⟩, ?_⟩
        intro j hj
        exact hp j (List.mem_cons_of_mem _ hj)
    -- the head itself
    have headCase : (∃ pre it post, hd :: tl = pre ++ it :: post ∧ it.id = x ∧ pass1 pend it = true ∧ pass2 v it = true ∧
            (sm it = true → it.sender ∉ lut ∧
              ∀ j ∈ pre, pass1 pend j = true → sm j = true → j.sender ≠ it.sender)) ↔
        ((hd.id = x ∧ pass1 pend hd = true ∧ pass2 v hd = true ∧ (sm hd = true → hd.sender ∉ lut)) ∨
          ∃ pre it post, hd :: tl = (hd :: pre) ++ it :: post ∧ it.id = x ∧ pass1 pend it = true ∧ pass2 v it = true ∧
            (sm it = true → it.sender ∉ lut ∧
              ∀ j ∈ hd :: pre, pass1 pend j = true → sm j = true → j.sender ≠ it.sender)) := by
      constructor
      · rintro ⟨pre, it, post, heq, hid, h1, h2, hs⟩
        cases pre with
        | nil =>
          have : hd = it := by simpa using (List.cons.inj heq).1
          subst this
          exact Or.inl ⟨hid, h1, h2, fun hsm => (hs hsm).1⟩
        | cons p ps =>
          have hp : hd = p := (List.cons.inj heq).1
          subst hp
          exact Or.inr ⟨ps, it, post, heq, hid, h1, h2, hs⟩
      · rintro (⟨hid, h1, h2, hs⟩ | ⟨pre, it, post, heq, hid, h1, h2, hs⟩)
        · exact ⟨[], hd, tl, rfl, hid, h1, h2, fun hsm => ⟨hs hsm, by simp⟩⟩
        · exact ⟨hd :: pre, it, post, heq, hid, h1, h2, hs⟩
    rw [headCase]
    by_cases hp1 : pass1 pend hd = true
    · by_cases hsm : sm hd = true
      · by_cases hin : hd.sender ∈ lut
        · rw [relayAux_known hp1 hsm hin, lift lut]
          · constructor
            · intro h; exact Or.inr h
            · rintro (⟨_, _, _, hs⟩ | h)
              · exact absurd hin (hs hsm)
              · exact h
          · intro it _
            constructor
            · intro hn
              refine ⟨hn, ?_⟩
              intro _ _ heq
              apply hn
              rw [← heq]; exact hin
            · intro h; exact h.1
        · have hnin : hd.sender ∉ lut := hin
          have hl : ∀ it : Item, sm it = true → (it.sender ∉ hd.sender :: lut ↔
              it.sender ∉ lut ∧ (pass1 pend hd = true → sm hd = true → hd.sender ≠ it.sender)) := by
            intro it _
            simp only [List.mem_cons, not_or]
            constructor
            · rintro ⟨h1, h2⟩
              exact ⟨h2, fun _ _ h => h1 h.symm⟩
            · rintro ⟨h1, h2⟩
              exact ⟨fun h => h2 hp1 hsm h.symm, h1⟩
          by_cases hp2 : pass2 v hd = true
          · rw [relayAux_new_pass hp1 hsm hnin hp2, List.mem_cons, lift _ hl]
            constructor
            · rintro (h | h)
              · exact Or.inl ⟨h.symm, hp1, hp2, fun _ => hnin⟩
              · exact Or.inr h
            · rintro (⟨h, _⟩ | h)
              · exact Or.inl h.symm
              · exact Or.inr h
          · rw [relayAux_new_fail hp1 hsm hnin hp2, lift _ hl]
            constructor
            · intro h; exact Or.inr h
            · rintro (⟨_, _, h2, _⟩ | h)
              · exact absurd h2 hp2
              · exact h
      · have hl : ∀ it : Item, sm it = true → (it.sender ∉ lut ↔
            it.sender ∉ lut ∧ (pass1 pend hd = true → sm hd = true → hd.sender ≠ it.sender)) := by
          intro it _
          constructor
          · intro h; exact ⟨h, fun _ h2 => absurd h2 hsm⟩
          · intro h; exact h.1
        by_cases hp2 : pass2 v hd = true
        · rw [relayAux_plain_pass hp1 hsm hp2, List.mem_cons, lift _ hl]
          constructor
          · rintro (h | h)
            · exact Or.inl ⟨h.symm, hp1, hp2, fun h => absurd h hsm⟩
            · exact Or.inr h
          · rintro (⟨h, _⟩ | h)
            · exact Or.inl h.symm
            · exact Or.inr h
        · rw [relayAux_plain_fail hp1 hsm hp2, lift _ hl]
          constructor
          · intro h; exact Or.inr h
          · rintro (⟨_, _, h2, _⟩ | h)
            · exact absurd h2 hp2
            · exact h
    · have hl : ∀ it : Item, sm it = true → (it.sender ∉ lut ↔
          it.sender ∉ lut ∧ (pass1 pend hd = true → sm hd = true → hd.sender ≠ it.sender)) := by
        intro it _
        constructor
        · intro h; exact ⟨h, fun h1 => absurd h1 hp1⟩
        · intro h; exact h.1
      rw [relayAux_skip hp1, lift _ hl]
      constructor
      · intro h; exact Or.inr h
      · rintro (⟨_, h1, _, _⟩ | h)
        · exact absurd h1 hp1
        · exact h

/-- in a list with pairwise distinct ids the position of an id is unique -/
theorem split_unique (a b : Item) (hab : a.id = b.id) :
    ∀ (l1 l2 r1 r2 : List Item), l1 ++ a :: r1 = l2 ++ b :: r2 →
      (l1 ++ a :: r1).Pairwise (fun x y => x.id ≠ y.id) → l1 = l2 ∧ a = b := by
  intro l1
  induction l1 with
  | nil =>
    intro l2 r1 r2 he hp
    cases l2 with
    | nil => exact ⟨rfl, by simpa using (List.cons.inj he).1⟩
    | cons y ys =>
      exfalso
      have hy : a = y := (List.cons.inj he).1
      have htl : r1 = ys ++ b :: r2 := (List.cons.inj he).2
      have := (List.pairwise_cons.mp hp).1 b (by rw [htl]; simp)
      exact this hab
  | cons x xs ihx =>
    intro l2 r1 r2 he hp
    cases l2 with
    | nil =>
      exfalso
      have hx : x = b := (List.cons.inj he).1
      have := (List.pairwise_cons.mp hp).1 a (by simp)
      rw [hx] at this
      exact this hab.symm
    | cons y ys =>
      have hxy : x = y := (List.cons.inj he).1
      obtain ⟨h1, h2⟩ := ihx ys r1 r2 (List.cons.inj he).2 (List.pairwise_cons.mp hp).2
      exact ⟨by rw [hxy, h1], h2⟩

theorem ceilDec_spec (x : Int) (h : 0 ≤ x) : P * (ceilDec x - 1) < x ∧ x ≤ P * ceilDec x := by
  unfold ceilDec P
  rw [Int.tdiv_eq_ediv_of_nonneg h, Int.tmod_eq_emod_of_nonneg h]
  split <;> omega

theorem toU64_spec {x : Int} {n : Nat} (h : toU64 x = some n) : (n : Int) = x ∧ n < U64 := by
  unfold toU64 at h
  split at h
  · cases h
  · split at h
    · injection h with h
      subst h
      constructor
      · omega
      · assumption
    · cases h

/-- in a queue ordered by id (store order) the first validator-set update is the oldest one -/
theorem pendingValset_oldest {q : List Item} (hs : q.Pairwise (fun a b => a.id < b.id)) :
    ∀ j ∈ q, j.kind = .valset → ∃ p, pendingValset q = some p ∧ p ≤ j.id := by
  induction q with
  | nil => intro j hj; cases hj
  | cons x xs ih =>
    intro j hj hk
    obtain ⟨hx, hxs⟩ := List.pairwise_cons.mp hs
    by_cases hxk : x.kind = .valset
    · refine ⟨x.id, by simp [pendingValset, hxk], ?_⟩
      rcases List.mem_cons.mp hj with rfl | hj'
      · exact Nat.le_refl _
      · exact Nat.le_of_lt (hx j hj')
    · rcases List.mem_cons.mp hj with rfl | hj'
      · exact absurd hk hxk
      · obtain ⟨p, hp, hle⟩ := ih hxs j hj' hk
        refine ⟨p, ?_, hle⟩
        have hxb : (x.kind == Kind.valset) = false := by simpa using hxk
        unfold pendingValset at hp ⊢
        rw [List.find?_cons, hxb]
        exact hp

end Lemmas

/-! ## Property theorems -/

/-- **pick_eligible** (clause 1: who can be assigned).  A successful pick returns a validator `v`
that is in the current snapshot, whose first account on the target chain `a` provides the relayer
address, carries the MEV trait if the job demands it, and `v` has a relayer fee and metrics on
record.  (`remote_addr_is_snapshot_addr` is the `a.addr = r` conjunct.) -/
theorem pick_eligible (env : Env) (mev : Bool) (ts v r : Nat) (h : pick env mev ts = some (v, r)) :
    ∃ snap, env.snapshot = some snap ∧
      ∃ sv ∈ snap.vals, sv.id = v ∧
        ∃ a ∈ sv.accounts, a.chain = targetChain ∧ a.addr = r ∧ (mev = true → a.mev = true) ∧
          (assoc? env.fees v).isSome ∧ (assoc? env.metrics v).isSome := by
  unfold pick at h
  split at h
  · cases h
  · rename_i snap hsnap
    split at h
    · cases h
    · split at h
      · cases h
      · split at h
        · cases h
        · rename_i w hw
          have hq := mem_assignable (List.mem_of_getElem? hw)
          obtain ⟨_, hm, hf, he⟩ := hq
          obtain ⟨sv, hsv, a, ha, hmev⟩ := eligible_spec he
          split at h
          · cases h
          · rename_i sv' hsv'
            rw [hsv] at hsv'
            injection hsv' with hsv'
            subst hsv'
            split at h
            · cases h
            · rename_i a' ha'
              rw [ha] at ha'
              injection ha' with ha'
              subst ha'
              injection h with h
              injection h with h1 h2
              obtain ⟨hamem, hchain⟩ := chainAccount_spec ha
              have hid : sv.id = w.id := by simpa using List.find?_some hsv
              refine ⟨snap, hsnap, sv, List.mem_of_find?_eq_some hsv, by rw [hid, h1], a, hamem, hchain, h2, hmev, ?_, ?_⟩
              · rw [← h1]; exact hf
              · rw [← h1]; exact hm

/-- **rank_sorted.** The ranked list is sorted by score (descending) with ties broken by address
(ascending) and is a rearrangement of its input — the order `slices.SortStableFunc` produces. -/
theorem rank_sorted (l : List Scored) : (rank l).Pairwise RankLe ∧ ∀ y, y ∈ rank l ↔ y ∈ l := by
  refine ⟨?_, fun y => mem_rank y l⟩
  induction l with
  | nil => simp [rank]
  | cons x xs ih => exact insertScored_sorted x (rank xs) ih

/-- **pick_in_top_pool.** The winner is one of the first `topPoolSize = 5` validators of the ranked
list of qualifying validators, at index `block time mod min(n, 5)`. -/
theorem pick_in_top_pool (env : Env) (mev : Bool) (ts v r : Nat) (h : pick env mev ts = some (v, r)) :
    ∃ snap w, env.snapshot = some snap ∧
      (assignable env snap mev)[ts % min (assignable env snap mev).length topPool]? = some w ∧ w.id = v ∧
      ts % min (assignable env snap mev).length topPool < topPool := by
  unfold pick at h
  split at h
  · cases h
  · rename_i snap hsnap
    split at h
    · cases h
    · split at h
      · cases h
      · rename_i hne
        split at h
        · cases h
        · rename_i w hw
          split at h
          · cases h
          · split at h
            · cases h
            · injection h with h
              injection h with h1 _
              refine ⟨snap, w, hsnap, hw, h1, ?_⟩
              have hpos : 0 < (assignable env snap mev).length := by
                cases hl : assignable env snap mev with
                | nil => simp [hl] at hne
                | cons _ _ => simp
              have : 0 < min (assignable env snap mev).length topPool := by
                simp only [topPool]; omega
              exact Nat.lt_of_lt_of_le (Nat.mod_lt _ this) (Nat.min_le_right _ _)

/-- **pick_succeeds_iff** (clause 1, failure direction).  The pick fails exactly when no snapshot
validator qualifies; in particular *if no such validator exists the request fails*. -/
theorem pick_succeeds_iff (env : Env) (snap : Snap) (mev : Bool) (ts : Nat) (hs : env.snapshot = some snap) :
    (pick env mev ts).isSome ↔ ∃ id, Qualifies env snap mev id := by
  constructor
  · intro h
    obtain ⟨⟨v, r⟩, hp⟩ := Option.isSome_iff_exists.mp h
    obtain ⟨_, w, hs', hw, hid, _⟩ := pick_in_top_pool env mev ts v r hp
    rw [hs] at hs'
    injection hs' with hs'
    subst hs'
    exact ⟨w.id, mem_assignable (List.mem_of_getElem? hw)⟩
  · rintro ⟨id, hq⟩
    obtain ⟨w0, hw0, _⟩ := assignable_of_qualifies hq
    have hne : (assignable env snap mev) ≠ [] := List.ne_nil_of_mem hw0
    have hinfos : (buildInfos env snap) ≠ [] := by
      intro hnil
      unfold assignable at hw0
      simp [hnil, rank] at hw0
    have hpos : 0 < (assignable env snap mev).length := List.length_pos_iff.mpr hne
    have hidx : ts % min (assignable env snap mev).length topPool < (assignable env snap mev).length := by
      have : 0 < min (assignable env snap mev).length topPool := by simp only [topPool]; omega
      exact Nat.lt_of_lt_of_le (Nat.mod_lt _ this) (Nat.min_le_left _ _)
    unfold pick
    simp only [hs]
    have h1 : (buildInfos env snap).isEmpty = false := by
      cases hb : buildInfos env snap with
      | nil => exact absurd hb hinfos
      | cons _ _ => rfl
    have h2 : (assignable env snap mev).isEmpty = false := by
      cases hb : assignable env snap mev with
      | nil => exact absurd hb hne
      | cons _ _ => rfl
    simp only [h1, h2, Bool.false_eq_true, if_false]
    rw [List.getElem?_eq_getElem hidx]
    have hq' := mem_assignable (List.getElem_mem hidx)
    obtain ⟨sv, hsv, a, ha, _⟩ := eligible_spec hq'.2.2.2
    simp [hsv, ha]

/-- **no_eligible_fails_without_enqueue.** If no validator qualifies, the enqueue request fails and
the state — queue and id counter included — is unchanged. -/
theorem no_eligible_fails_without_enqueue (s : State) (snap : Snap) (kind : Kind) (content sender : Nat)
    (mev : Bool) (ts : Nat) (hs : s.env.snapshot = some snap)
    (hnone : ∀ id, ¬ Qualifies s.env snap mev id) :
    enqueue s kind content sender mev ts = (s, none) := by
  have : pick s.env mev ts = none := by
    cases hp : pick s.env mev ts with
    | none => rfl
    | some x =>
      have := (pick_succeeds_iff s.env snap mev ts hs).mp (by simp [hp])
      obtain ⟨id, hq⟩ := this
      exact absurd hq (hnone id)
  unfold enqueue
  simp [this]

/-- a failed request never enqueues, whatever the reason (also: no snapshot at all) -/
theorem failed_request_enqueues_nothing (s : State) (kind : Kind) (content sender : Nat) (mev : Bool) (ts : Nat)
    (h : (enqueue s kind content sender mev ts).2 = none) : (enqueue s kind content sender mev ts).1 = s := by
  unfold enqueue at h ⊢
  split
  · rfl
  · rename_i vr hp
    simp [hp] at h

/-- **enqueue_assigns_pick.** A successful request appends exactly one message, assigned to the
picked validator and carrying the picked remote address, with gas estimation required. -/
theorem enqueue_assigns_pick (s : State) (kind : Kind) (content sender : Nat) (mev : Bool) (ts id v r : Nat)
    (h : (enqueue s kind content sender mev ts).2 = some (id, v, r)) :
    pick s.env mev ts = some (v, r) ∧
      (enqueue s kind content sender mev ts).1.queue =
        s.queue ++ [{ id := id, kind := kind, content := content, sender := sender, assignee := v, remote := r, reqEst := true }] := by
  cases hp : pick s.env mev ts with
  | none => simp [enqueue, hp] at h
  | some vr =>
    simp only [enqueue, hp] at h ⊢
    injection h with h
    injection h with h1 h2
    injection h2 with h2 h3
    subst h1 h2 h3
    exact ⟨rfl, by simp [put]⟩

/-- **offered_iff** (clause 2).  Message `x` is offered to validator `v` iff the queue contains an
item with that id which, with `pend` the id of the oldest validator-set update in the queue,
(1) is not younger than `pend`, (2) has neither delivery nor error report, (3) has its gas estimate
elected if one is required, (4) is assigned to `v`, and (5) if it is a fee-paying message
(SubmitLogicCall, UploadUserSmartContract) with a non-empty sender, no *earlier* queue item passing
(1) and (2) is a fee-paying message of the same sender.  Note (5) does not ask the earlier item to
pass (3) or (4): the per-sender filter registers the sender before those tests run. -/
theorem offered_iff (q : List Item) (v x : Nat) :
    x ∈ offered q v ↔
      ∃ pre it post, q = pre ++ it :: post ∧ it.id = x ∧
        (match pendingValset q with | none => True | some p => it.id ≤ p) ∧
        it.pub = false ∧ it.err = false ∧
        (it.reqEst = true → it.elected > 0) ∧ it.assignee = v ∧
        (it.kind.feePayer = true → it.sender ≠ 0 →
          ∀ j ∈ pre, pass1 (pendingValset q) j = true → j.kind.feePayer = true → j.sender ≠ it.sender) := by
  unfold offered offeredWith
  rw [mem_relayAux]
  constructor
  · rintro ⟨pre, it, post, hq, hid, h1, h2, hs⟩
    refine ⟨pre, it, post, hq, hid, ?_⟩
    unfold pass1 at h1
    unfold pass2 at h2
    simp only [Bool.and_eq_true, Bool.not_eq_true', decide_eq_true_eq, Bool.or_eq_true, beq_iff_eq] at h1 h2
    obtain ⟨hp, hpub, herr⟩ := h1
    obtain ⟨hg, ha⟩ := h2
    refine ⟨?_, hpub, herr, ?_, ha, ?_⟩
    · cases hpv : pendingValset q with
      | none => trivial
      | some p => simpa [hpv] using hp
    · intro hr
      rcases hg with hg | hg
      · simp [hr] at hg
      · exact hg
    · intro hk hsn j hj hj1 hjk
      have hsm : senderMsg it = true := by simp [senderMsg, hk, hsn]
      have := (hs hsm).2 j hj hj1
      by_cases hj0 : j.sender = 0
      · rw [hj0]; exact fun h => hsn h.symm
      · exact this (by simp [senderMsg, hjk, hj0])
  · rintro ⟨pre, it, post, hq, hid, hp, hpub, herr, hg, ha, hs⟩
    refine ⟨pre, it, post, hq, hid, ?_, ?_, ?_⟩
    · unfold pass1
      simp only [Bool.and_eq_true, Bool.not_eq_true']
      refine ⟨?_, hpub, herr⟩
      cases hpv : pendingValset q with
      | none => rfl
      | some p => simpa [hpv] using hp
    · unfold pass2
      simp only [Bool.and_eq_true, Bool.or_eq_true, Bool.not_eq_true', decide_eq_true_eq, beq_iff_eq]
      refine ⟨?_, ha⟩
      by_cases hr : it.reqEst = true
      · exact Or.inr (hg hr)
      · exact Or.inl (by simpa using hr)
    · intro hsm
      refine ⟨by simp, ?_⟩
      intro j hj hj1 hjs
      unfold senderMsg at hsm hjs
      simp only [Bool.and_eq_true, bne_iff_ne, ne_eq] at hsm hjs
      exact hs hsm.1 hsm.2 j hj hj1 hjs.1

/-- **never_ahead_of_older_valset_update** (clause 2, "never ahead of an older pending validator-set
update for that chain" — at any depth).  In a queue in store order (ascending ids), of *any length*, a
message offered to anybody is not younger than ANY validator-set update still in the queue — wherever
in the queue that update sits and however many messages precede it. -/
theorem never_ahead_of_older_valset_update (q : List Item) (hs : q.Pairwise (fun a b => a.id < b.id)) (v x : Nat)
    (hx : x ∈ offered q v) : ∀ j ∈ q, j.kind = .valset → x ≤ j.id := by
  intro j hj hk
  obtain ⟨p, hp, hle⟩ := pendingValset_oldest hs j hj hk
  obtain ⟨pre, it, post, hq, hid, hpend, _⟩ := (offered_iff q v x).mp hx
  rw [hp] at hpend
  simp only at hpend
  omega

/-- **relay_answer_sound.** The answer of the relay query is the offered list cut to
`defaultResponseMessageCount` entries: every message in it is offered (so every "only" clause of
`offered_iff` holds for it), and nothing is cut when at most that many messages are offered. -/
theorem relay_answer_sound (q : List Item) (v : Nat) :
    (∀ x ∈ offeredPage q v, x ∈ offered q v) ∧ ((offered q v).length ≤ respCap → offeredPage q v = offered q v) := by
  unfold offeredPage
  exact ⟨fun x hx => List.mem_of_mem_take hx, fun h => List.take_of_length_le h⟩

/-- **relay_never_ahead_of_valset_update_all_histories.** In every state reachable by any sequence of
operations — queues of any length — no answer of the relay query contains a message younger than a
validator-set update that is still queued. -/
theorem relay_never_ahead_of_valset_update_all_histories (ops : List Op) (v x : Nat)
    (hx : x ∈ offeredPage (run ops).queue v) : ∀ j ∈ (run ops).queue, j.kind = .valset → x ≤ j.id :=
  never_ahead_of_older_valset_update _ (invariant_all_histories ops).2.2.1 v x ((relay_answer_sound _ v).1 x hx)

/-- **sender_registered_before_assignee_test.** An older pending fee-paying message (SubmitLogicCall or
UploadUserSmartContract) of the same sender blocks a message for *every* validator — even when that
older message is assigned to somebody else or still waits for its gas estimate. -/
theorem sender_registered_before_assignee_test (pre post : List Item) (j it : Item) (mid : List Item) (v : Nat)
    (hj : pass1 (pendingValset (pre ++ j :: mid ++ it :: post)) j = true)
    (hjk : j.kind.feePayer = true) (hik : it.kind.feePayer = true) (hs : it.sender ≠ 0) (heq : j.sender = it.sender)
    (hids : (pre ++ j :: mid ++ it :: post).Pairwise (fun a b => a.id ≠ b.id)) :
    it.id ∉ offered (pre ++ j :: mid ++ it :: post) v := by
  intro h
  obtain ⟨pre', it', post', hq, hid, _, _, _, _, _, hsnd⟩ := (offered_iff _ v it.id).mp h
  have hq' : (pre ++ j :: mid) ++ it :: post = pre' ++ it' :: post' := by simpa using hq
  obtain ⟨hpre, hit⟩ := split_unique it it' hid.symm (pre ++ j :: mid) pre' post post' hq' (by simpa using hids)
  subst hit
  have hjmem : j ∈ pre' := by rw [← hpre]; simp
  exact hsnd hik hs j hjmem hj hjk heq

/-- **fees_formula** (clause 3).  When fee attachment succeeds, with `m`, `c`, `s` the relayer
multiplier and the community / security rates as 18-decimal fixed-point numbers (scaled integers)
and `g` the elected gas:  `r = ⌈m·g⌉`, `cf = ⌈c·r⌉`, `sf = ⌈s·r⌉`, i.e. `10^18·(r-1) < m·g ≤ 10^18·r`
etc., all multipliers are non-negative and all three fees fit `uint64`. -/
theorem fees_formula (m c s : Int) (g r cf sf : Nat) (h : calcFees m c s g = some (r, cf, sf)) :
    0 ≤ m ∧ 0 ≤ c ∧ 0 ≤ s ∧
    P * ((r : Int) - 1) < m * g ∧ m * g ≤ P * r ∧
    P * ((cf : Int) - 1) < c * r ∧ c * r ≤ P * cf ∧
    P * ((sf : Int) - 1) < s * r ∧ s * r ≤ P * sf ∧
    r < U64 ∧ cf < U64 ∧ sf < U64 := by
  have one : ∀ (k : Int) (x y : Nat), mulFee k x = some y →
      0 ≤ k ∧ P * ((y : Int) - 1) < k * x ∧ k * x ≤ P * y ∧ y < U64 := by
    intro k x y hk
    unfold mulFee at hk
    split at hk
    · cases hk
    · rename_i hneg
      have hk0 : 0 ≤ k := by omega
      have hx : 0 ≤ k * (x : Int) := Int.mul_nonneg hk0 (Int.natCast_nonneg x)
      obtain ⟨he, hb⟩ := toU64_spec hk
      obtain ⟨h1, h2⟩ := ceilDec_spec _ hx
      rw [← he] at h1 h2
      exact ⟨hk0, h1, h2, hb⟩
  unfold calcFees at h
  split at h
  · cases h
  · rename_i r' hr
    split at h
    · cases h
    · rename_i cf' hc
      split at h
      · cases h
      · rename_i sf' hsf
        injection h with h
        injection h with h1 h2
        injection h2 with h2 h3
        subst h1 h2 h3
        obtain ⟨a1, a2, a3, a4⟩ := one m g r' hr
        obtain ⟨b1, b2, b3, b4⟩ := one c r' cf' hc
        obtain ⟨c1, c2, c3, c4⟩ := one s r' sf' hsf
        exact ⟨a1, b1, c1, a2, a3, b2, b3, c2, c3, a4, b4, c4⟩

/-- **fees_out_of_range_is_error.** A product that leaves `uint64` — and a negative multiplier —
makes fee attachment fail (an error, the message is left as it was); nothing wraps around. -/
theorem fees_out_of_range_is_error (m : Int) (g : Nat) (h : m < 0 ∨ (U64 : Int) ≤ ceilDec (m * g)) (c s : Int) :
    calcFees m c s g = none := by
  unfold calcFees mulFee
  rcases h with h | h
  · simp [h]
  · split
    · rfl
    · rename_i r hr
      exfalso
      split at hr
      · cases hr
      · have := (toU64_spec hr)
        omega

/-- **elected_fees_attached.** The end-block step changes a fee-paying message only by electing an
estimate `g` that reached quorum and attaching exactly `calcFees` of the assignee's multiplier and
the treasury rates to it; if the fees cannot be computed the message is left untouched. -/
theorem elected_fees_attached (env : Env) (snap : Snap) (it : Item) (hk : it.kind.feePayer = true)
    (hch : electOne env snap it ≠ it) :
    ∃ g m f, Paloma.Libcons.verifyGasEstimates (libSnap snap) it.estimates = .elected g ∧
      assoc? env.fees it.assignee = some m ∧ m ≠ 0 ∧
      calcFees m env.community env.security g = some f ∧
      electOne env snap it = { it with sigs := [], elected := g, fees := some f } := by
  unfold electOne at hch ⊢
  by_cases h1 : (!it.reqEst) = true
  · simp [h1] at hch
  · by_cases h2 : it.estimates.isEmpty = true
    · simp [h1, h2] at hch
    · by_cases h3 : it.elected > 0
      · simp [h1, h2, h3] at hch
      · simp only [h1, h2, h3, if_false, Bool.false_eq_true] at hch ⊢
        cases hv : Paloma.Libcons.verifyGasEstimates (libSnap snap) it.estimates with
        | notAchieved => simp [hv] at hch
        | zero => simp [hv] at hch
        | elected g =>
          simp only [hv, hk, if_true] at hch ⊢
          unfold feesFor at hch ⊢
          cases hm : assoc? env.fees it.assignee with
          | none => simp [hm] at hch
          | some m =>
            simp only [hm] at hch ⊢
            by_cases hm0 : (m == 0) = true
            · simp [hm0] at hch
            · by_cases hcs : (env.community == 0 || env.security == 0) = true
              · simp [hm0, hcs] at hch
              · simp only [hm0, hcs, if_false, Bool.false_eq_true] at hch ⊢
                cases hcf : calcFees m env.community env.security g with
                | none => simp [hcf] at hch
                | some f =>
                  refine ⟨g, m, f, rfl, rfl, ?_, hcf, rfl⟩
                  simpa using hm0

/-! ### non-vacuity -/

def demoEnv : Env :=
  { snapshot := some { vals := [⟨1, 5, [⟨0, 4, 4, false⟩]⟩, ⟨2, 5, [⟨1, 9, 9, true⟩, ⟨0, 8, 8, true⟩]⟩, ⟨3, 5, []⟩], total := 15 },
    metrics := [(1, ⟨P, P / 2, 0, 0⟩), (2, ⟨P, P / 2, 0, P⟩), (3, ⟨P, P / 2, 0, 0⟩)],
    fees := [(1, 1100000000000000000), (2, 1500000000000000000)],
    community := 30000000000000000, security := 10000000000000000 }

-- validator 1 is cheaper and wins slot 0; the MEV job can only go to validator 2; validator 3 has no account
example : pick demoEnv false 0 = some (1, 4) ∧ pick demoEnv false 1 = some (2, 8) ∧ pick demoEnv true 0 = some (2, 8) := by decide
example : pick { demoEnv with fees := [(3, P)] } false 0 = none := by decide
example : calcFees 1100000000000000000 30000000000000000 10000000000000000 21001 = some (23102, 694, 232) := by decide
example : calcFees 18446744073709551615000000000000000001 1 1 1 = none := by decide

def demoQ : List Item :=
  [ { id := 1, kind := .slc, content := 1, sender := 7, assignee := 1, remote := 4, reqEst := true },
    { id := 2, kind := .slc, content := 2, sender := 7, assignee := 2, remote := 8, reqEst := true, elected := 21000 },
    { id := 3, kind := .valset, content := 3, sender := 0, assignee := 2, remote := 8, reqEst := true, elected := 5 },
    { id := 4, kind := .uusc, content := 4, sender := 7, assignee := 2, remote := 8, reqEst := false } ]

-- message 1 (no estimate yet, other assignee) still blocks message 2 of the same sender; 4 is behind the valset update
example : offered demoQ 2 = [3] ∧ offered demoQ 1 = [] := by decide
example : offered (demoQ.drop 1) 2 = [2, 3] := by decide

/-- two uploads and a logic call of one sender, all assigned to validator 2 and ready -/
def demoUU : List Item :=
  [ { id := 1, kind := .uusc, content := 1, sender := 7, assignee := 2, remote := 8, reqEst := false },
    { id := 2, kind := .uusc, content := 2, sender := 7, assignee := 2, remote := 8, reqEst := false },
    { id := 3, kind := .slc, content := 3, sender := 7, assignee := 2, remote := 8, reqEst := false },
    { id := 4, kind := .uusc, content := 4, sender := 0, assignee := 2, remote := 8, reqEst := false } ]

-- one message per sender (the empty sender is not a sender) …
example : offered demoUU 2 = [1, 4] := by decide
/-- **pre-fix witness (be3dcb4f).** With the filter that only looked at SubmitLogicCall all three messages
of sender 7 were offered at once: the clause "never while an older message from the same sender is
still pending" failed for uploads. -/
example : offeredWith senderMsgPreFix demoUU 2 = [1, 2, 3, 4] := by decide


/-- a validator-set update deep in the queue: three older messages wait for other relayers, the update
(id 4) follows, message 5 is ready for validator 1 — and is not offered until the update is gone -/
def demoDeep : List Op :=
  [ .put .other 1 0 2 8 false, .put .other 2 0 2 8 true, .put .slc 3 0 3 12 true, .put .valset 4 0 2 8 false,
    .put .slc 5 7 1 4 false ]

example : offeredPage (run demoDeep).queue 1 = [] ∧ offeredPage (run demoDeep).queue 2 = [1, 4] ∧
    offeredPage (run (demoDeep ++ [.remove 4])).queue 1 = [5] := by decide

end Paloma.Queue
