/-
C14 — relayer assignment, relay offering and fee attachment on the consensus queue.

"Every message that needs relaying is assigned to a validator that is in the current snapshot, has
an account on the target chain (whose address becomes the signed relayer address), has a relayer
fee and performance metrics on record, and carries the MEV trait when the job demands it; if no
such validator exists the request fails without enqueuing anything.  A message is offered for relay
only to its assignee, only once its gas estimate (when required) is elected, only while it has no
delivery or error report, never ahead of an older pending validator-set update for that chain, and
never while an older message from the same sender is still pending.  The fees attached to it are
ceil(relayer multiplier * elected gas) and ceil(community / security rate * that relayer fee)."

Model: `PalomaModel/Model/Queue.lean`.

What is stated where (clause → theorem):
* who can be assigned: `pick_qualifies` / `pick_eligible` (what a successful pick returns), `qualifies_iff_eligible`
  (the qualification predicate stated on the tables equals the model's filter), `pick_succeeds_iff`,
  `rank_sorted`, `pick_in_top_pool`;
* "every message that needs relaying is assigned to …" over whole histories: `item_origin` (every queued
  message was created by a `put` or an `enqueue` of the history, with exactly its fields),
  `queued_message_assignment` (enqueue-origin ⇒ the assignee qualified in the snapshot / tables of the
  state the request ran in, and the relayer address is its first target-chain account there),
  `every_message_assigned_by_pick` (histories without the keeper-level `put`: all messages),
  `every_message_assigned_to_a_qualifying_validator` (ALL entry points and kinds — validator-set updates and
  hand-overs included — under `PutsFollowPick`: every `put` is fed by the pick).  SCOPE: the keeper-level
  `put` (`PutMessageInQueue`) stores whatever assignee its caller passes; in /repo every producer of a
  turnstone message calls `PickValidatorForMessage` first (EXTERNAL ASSUMPTION about the callers, by reading
  x/evm/keeper: `PublishValsetToChain`, `AddSmartContractExecutionToConsensus`,
  `AddUploadUserSmartContractToConsensus`, `scheduleCompassHandover`, `AddUploadSmartContractToConsensus`);
  "current snapshot" = current when the message was assigned;
* "(whose address becomes the signed relayer address)": `picked_address_is_the_signed_relayer_address`;
* "if no such validator exists the request fails without enqueuing anything":
  `no_eligible_fails_without_enqueue`, `failed_request_enqueues_nothing`;
* relay offering: `offered_iff` (exact), `never_ahead_of_older_valset_update`, `relay_answer_sound`,
  `relay_never_ahead_of_valset_update_all_histories`, `one_per_sender_all_histories` (reachable states,
  all kinds; "still pending" is READ as "unreported": `reported_older_message_does_not_block`,
  `one_per_sender_still_queued_reading_false`), `sender_only_on_fee_payers`,
  `sender_registered_before_assignee_test`, `no_put_all_require_estimation`, `offered_requires_elected_no_put`;
* fees: `fees_formula`, `fees_out_of_range_is_error`, `elected_fees_attached` (one message),
  `elected_and_fees_written_only_by_endBlock`, `fees_provenance`, `elected_immutable_hist` (written once),
  `attached_fees_are_ceil`, `offered_fee_payer_carries_ceil_fees`, `offered_fee_payer_carries_ceil_fees_no_put`
  (over whole histories); scope witness `put_path_offers_fee_payer_without_fees`;
* fees at the `uint64` boundary: `mulFee_some_iff` / `calcFees_some_iff` (attachment succeeds EXACTLY with the three
  ceils when they fit), `mulFee_none_iff` / `calcFees_none_iff` (refused exactly above `(2^64 − 1)·10^18`),
  `fee_window_is_refused` (products strictly between `2^64 − 1` and `2^64`), `unpayable_election_changes_nothing`
  (such a message is neither elected nor offered), `attached_fees_are_positive`, `offeredCarrying_spec` (the
  `relayf` observable), sensitivity witness `narrow_before_rounding_breaks_formula`.
-/
import PalomaModel.Model.Queue
import PalomaModel.Props.C06

namespace Paloma.Queue
open List

section Lemmas

theorem mem_insertScored (x y : Scored) (l : List Scored) : y ∈ insertScored x l ↔ y = x ∨ y ∈ l := by
  induction l with
  | nil => simp [insertScored]
  | cons z zs ih =>
    unfold insertScored
    split
    · simp
    · simp only [List.mem_cons, ih]
      constructor
      · rintro (h | h | h)
        · exact Or.inr (Or.inl h)
        · exact Or.inl h
        · exact Or.inr (Or.inr h)
      · rintro (h | h | h)
        · exact Or.inr (Or.inl h)
        · exact Or.inl h
        · exact Or.inr (Or.inr h)

theorem mem_rank (y : Scored) (l : List Scored) : y ∈ rank l ↔ y ∈ l := by
  induction l with
  | nil => simp [rank]
  | cons x xs ih =>
    have : rank (x :: xs) = insertScored x (rank xs) := rfl
    rw [this, mem_insertScored, ih]
    simp

theorem length_insertScored (x : Scored) (l : List Scored) : (insertScored x l).length = l.length + 1 := by
  induction l with
  | nil => rfl
  | cons z zs ih =>
    unfold insertScored
    split
    · simp
    · simp [ih]

/-- the ranking is sorted by the code's comparison: nothing later in the list goes strictly before
    an earlier entry (for equal keys — same score and address — the order is irrelevant) -/
theorem before_total (a b : Scored) : before a b = true ∨ before b a = true ∨ (a.score = b.score ∧ a.id = b.id) := by
  unfold before
  by_cases h1 : a.score > b.score
  · simp [h1]
  · by_cases h2 : b.score > a.score
    · simp [h2]
    · have : a.score = b.score := by omega
      by_cases h3 : a.id < b.id
      · simp [this, h3]
      · by_cases h4 : b.id < a.id
        · simp [this, h4]
        · right; right; exact ⟨this, by omega⟩

/-- `a` is ranked at or before `b`: higher score, or equal score and address not greater -/
def RankLe (a b : Scored) : Prop := a.score > b.score ∨ (a.score = b.score ∧ a.id ≤ b.id)

theorem rankLe_of_before {a b : Scored} (h : before a b = true) : RankLe a b := by
  unfold before at h
  unfold RankLe
  simp only [Bool.or_eq_true, decide_eq_true_eq, Bool.and_eq_true, beq_iff_eq] at h
  omega

theorem rankLe_of_not_before {a b : Scored} (h : ¬ before a b = true) : RankLe b a := by
  unfold before at h
  unfold RankLe
  simp only [Bool.or_eq_true, decide_eq_true_eq, Bool.and_eq_true, beq_iff_eq] at h
  omega

theorem rankLe_trans {a b c : Scored} (h1 : RankLe a b) (h2 : RankLe b c) : RankLe a c := by
  unfold RankLe at *
  omega

theorem insertScored_sorted (x : Scored) (l : List Scored) (h : l.Pairwise RankLe) :
    (insertScored x l).Pairwise RankLe := by
  induction l with
  | nil => simp [insertScored]
  | cons y ys ih =>
    obtain ⟨hy, hys⟩ := List.pairwise_cons.mp h
    unfold insertScored
    split
    · rename_i hb
      refine List.pairwise_cons.mpr ⟨?_, h⟩
      intro z hz
      rcases List.mem_cons.mp hz with rfl | hz
      · exact rankLe_of_before hb
      · exact rankLe_trans (rankLe_of_before hb) (hy z hz)
    · rename_i hb
      refine List.pairwise_cons.mpr ⟨?_, ih hys⟩
      intro z hz
      rcases (mem_insertScored x z ys).mp hz with rfl | hz
      · exact rankLe_of_not_before hb
      · exact hy z hz

theorem insertScored_perm' (x : Scored) (l : List Scored) : (insertScored x l).Perm (x :: l) := by
  induction l with
  | nil => simp [insertScored]
  | cons y ys ih =>
    unfold insertScored
    split
    · exact List.Perm.refl _
    · exact (List.Perm.cons y ih).trans (List.Perm.swap x y ys)

/-- the ranking is a rearrangement of its input: nothing is dropped, nothing is duplicated -/
theorem rank_is_perm (l : List Scored) : (rank l).Perm l := by
  induction l with
  | nil => simp [rank]
  | cons x xs ih =>
    have : rank (x :: xs) = insertScored x (rank xs) := rfl
    rw [this]
    exact (insertScored_perm' x (rank xs)).trans (List.Perm.cons x ih)

/-- A validator qualifies for a job — stated directly on the tables, not through the model's filter
    function: a metrics record and a relayer-fee record exist for it (a record with multiplier 0 IS a
    record, see `zeroFee` below), and its (first) snapshot entry has a (first) account on the target
    chain, which carries the MEV trait when the job demands it. -/
def Qualifies (env : Env) (snap : Snap) (mev : Bool) (id : Nat) : Prop :=
  (assoc? env.metrics id).isSome ∧ (assoc? env.fees id).isSome ∧
    ∃ v, snap.vals.find? (fun v => v.id == id) = some v ∧
      ∃ a, chainAccount v.accounts = some a ∧ (mev = true → a.mev = true)

/-- what `eligible` (`filterValidatorsForJob`) says, both directions -/
theorem eligible_iff (snap : Snap) (mev : Bool) (id : Nat) :
    eligible snap mev id = true ↔
      ∃ v, snap.vals.find? (fun v => v.id == id) = some v ∧
        ∃ a, chainAccount v.accounts = some a ∧ (mev = true → a.mev = true) := by
  unfold eligible
  constructor
  · intro h
    split at h
    · cases h
    · rename_i v hv
      split at h
      · cases h
      · rename_i a ha
        refine ⟨v, hv, a, ha, ?_⟩
        intro hm
        subst hm
        simpa using h
  · rintro ⟨v, hv, a, ha, hm⟩
    simp only [hv, ha]
    cases mev with
    | false => rfl
    | true => simp [hm rfl]

theorem infoOf_id {env : Env} {v : SnapVal} {i : Info} (h : infoOf env v = some i) :
    i.id = v.id ∧ (assoc? env.metrics v.id).isSome ∧ (assoc? env.fees v.id).isSome := by
  unfold infoOf at h
  split at h
  · cases h
  · split at h
    · cases h
    · rename_i _ m hm _ f hf
      injection h with h
      subst h
      simp [hm, hf]

theorem infoOf_some_of_records {env : Env} {v : SnapVal}
    (hm : (assoc? env.metrics v.id).isSome) (hf : (assoc? env.fees v.id).isSome) :
    ∃ i, infoOf env v = some i ∧ i.id = v.id := by
  unfold infoOf
  obtain ⟨m, hm⟩ := Option.isSome_iff_exists.mp hm
  obtain ⟨f, hf⟩ := Option.isSome_iff_exists.mp hf
  simp [hm, hf]

theorem mem_assignable {env : Env} {snap : Snap} {mev : Bool} {w : Scored} (h : w ∈ assignable env snap mev) :
    Qualifies env snap mev w.id := by
  unfold assignable at h
  obtain ⟨hr, he⟩ := List.mem_filter.mp h
  rw [mem_rank] at hr
  obtain ⟨i, hi, hs⟩ := List.mem_map.mp hr
  unfold buildInfos at hi
  obtain ⟨v, hv, hiv⟩ := List.mem_filterMap.mp hi
  obtain ⟨hid, hm, hf⟩ := infoOf_id hiv
  have hw : w.id = v.id := by rw [← hs]; simp [scoreOf, hid]
  refine ⟨?_, ?_, (eligible_iff snap mev w.id).mp (by simpa using he)⟩
  · rw [hw]; exact hm
  · rw [hw]; exact hf

theorem assignable_of_qualifies {env : Env} {snap : Snap} {mev : Bool} {id : Nat}
    (h : Qualifies env snap mev id) : ∃ w ∈ assignable env snap mev, w.id = id := by
  obtain ⟨hm, hf, v, hfind, hacc⟩ := h
  have he : eligible snap mev id = true := (eligible_iff snap mev id).mpr ⟨v, hfind, hacc⟩
  have hv : v ∈ snap.vals := List.mem_of_find?_eq_some hfind
  have hid : v.id = id := by simpa using List.find?_some hfind
  subst hid
  obtain ⟨i, hi, hii⟩ := infoOf_some_of_records hm hf
  have hmem : i ∈ buildInfos env snap := List.mem_filterMap.mpr ⟨v, hv, hi⟩
  refine ⟨scoreOf env.weights (buildInfos env snap) i, ?_, by simp [scoreOf, hii]⟩
  unfold assignable
  refine List.mem_filter.mpr ⟨?_, by simpa [scoreOf, hii] using he⟩
  rw [mem_rank]
  exact List.mem_map.mpr ⟨i, hmem, rfl⟩

/-- what `eligible` says, unfolded -/
theorem eligible_spec {snap : Snap} {mev : Bool} {id : Nat} (h : eligible snap mev id = true) :
    ∃ v, snap.vals.find? (fun v => v.id == id) = some v ∧
      ∃ a, chainAccount v.accounts = some a ∧ (mev = true → a.mev = true) := by
  unfold eligible at h
  split at h
  · cases h
  · rename_i v hv
    split at h
    · cases h
    · rename_i a ha
      refine ⟨v, hv, a, ha, ?_⟩
      intro hm
      subst hm
      simpa using h

theorem chainAccount_spec {accts : List Account} {a : Account} (h : chainAccount accts = some a) :
    a ∈ accts ∧ a.chain = targetChain := by
  unfold chainAccount at h
  exact ⟨List.mem_of_find?_eq_some h, by simpa using List.find?_some h⟩

theorem relayAux_skip {sm : Item → Bool} {pend : Option Nat} {v : Nat} {lut : List Nat} {hd : Item} {tl : List Item}
    (h : ¬ pass1 pend hd = true) : relayAux sm pend v lut (hd :: tl) = relayAux sm pend v lut tl := by
  simp [relayAux, h]

theorem relayAux_known {sm : Item → Bool} {pend : Option Nat} {v : Nat} {lut : List Nat} {hd : Item} {tl : List Item}
    (h1 : pass1 pend hd = true) (h2 : sm hd = true) (h3 : hd.sender ∈ lut) :
    relayAux sm pend v lut (hd :: tl) = relayAux sm pend v lut tl := by
  simp [relayAux, h1, h2, h3]

theorem relayAux_new_pass {sm : Item → Bool} {pend : Option Nat} {v : Nat} {lut : List Nat} {hd : Item} {tl : List Item}
    (h1 : pass1 pend hd = true) (h2 : sm hd = true) (h3 : hd.sender ∉ lut)
    (h4 : pass2 v hd = true) :
    relayAux sm pend v lut (hd :: tl) = hd.id :: relayAux sm pend v (hd.sender :: lut) tl := by
  simp [relayAux, h1, h2, h3, h4]

theorem relayAux_new_fail {sm : Item → Bool} {pend : Option Nat} {v : Nat} {lut : List Nat} {hd : Item} {tl : List Item}
    (h1 : pass1 pend hd = true) (h2 : sm hd = true) (h3 : hd.sender ∉ lut)
    (h4 : ¬ pass2 v hd = true) :
    relayAux sm pend v lut (hd :: tl) = relayAux sm pend v (hd.sender :: lut) tl := by
  simp [relayAux, h1, h2, h3, h4]

theorem relayAux_plain_pass {sm : Item → Bool} {pend : Option Nat} {v : Nat} {lut : List Nat} {hd : Item} {tl : List Item}
    (h1 : pass1 pend hd = true) (h2 : ¬ sm hd = true) (h4 : pass2 v hd = true) :
    relayAux sm pend v lut (hd :: tl) = hd.id :: relayAux sm pend v lut tl := by
  simp [relayAux, h1, h2, h4]

theorem relayAux_plain_fail {sm : Item → Bool} {pend : Option Nat} {v : Nat} {lut : List Nat} {hd : Item} {tl : List Item}
    (h1 : pass1 pend hd = true) (h2 : ¬ sm hd = true) (h4 : ¬ pass2 v hd = true) :
    relayAux sm pend v lut (hd :: tl) = relayAux sm pend v lut tl := by
  simp [relayAux, h1, h2, h4]

/-- characterisation of the relay filter over a queue suffix with a look-up table -/
theorem mem_relayAux (sm : Item → Bool) (pend : Option Nat) (v x : Nat) (l : List Item) :
    ∀ lut : List Nat, x ∈ relayAux sm pend v lut l ↔
      ∃ pre it post, l = pre ++ it :: post ∧ it.id = x ∧ pass1 pend it = true ∧ pass2 v it = true ∧
        (sm it = true → it.sender ∉ lut ∧
          ∀ j ∈ pre, pass1 pend j = true → sm j = true → j.sender ≠ it.sender) := by
  induction l with
  | nil => intro lut; simp [relayAux]
  | cons hd tl ih =>
    intro lut
    -- membership in the tail, transported to the whole list
    have lift : ∀ lut', (∀ it : Item, sm it = true → (it.sender ∉ lut' ↔
          it.sender ∉ lut ∧ (pass1 pend hd = true → sm hd = true → hd.sender ≠ it.sender))) →
        (x ∈ relayAux sm pend v lut' tl ↔
          ∃ pre it post, hd :: tl = (hd :: pre) ++ it :: post ∧ it.id = x ∧ pass1 pend it = true ∧ pass2 v it = true ∧
            (sm it = true → it.sender ∉ lut ∧
              ∀ j ∈ hd :: pre, pass1 pend j = true → sm j = true → j.sender ≠ it.sender)) := by
      intro lut' hl
      rw [ih lut']
      constructor
      · rintro ⟨pre, it, post, rfl, hid, h1, h2, hs⟩
        refine ⟨pre, it, post, rfl, hid, h1, h2, ?_⟩
        intro hsm
        obtain ⟨hn, hp⟩ := hs hsm
        obtain ⟨hn1, hn2⟩ := (hl it hsm).mp hn
        refine ⟨hn1, ?_⟩
        intro j hj
        rcases List.mem_cons.mp hj with rfl | hj
        · exact hn2
        · exact hp j hj
      · rintro ⟨pre, it, post, heq, hid, h1, h2, hs⟩
        have heq' : tl = pre ++ it :: post := by simpa using heq
        refine ⟨pre, it, post, heq', hid, h1, h2, ?_⟩
        intro hsm
        obtain ⟨hn, hp⟩ := hs hsm
        refine ⟨(hl it hsm).mpr ⟨hn, hp hd (List.mem_cons_self ..)⟩, ?_⟩
        intro j hj
        exact hp j (List.mem_cons_of_mem _ hj)
    -- the head itself
    have headCase : (∃ pre it post, hd :: tl = pre ++ it :: post ∧ it.id = x ∧ pass1 pend it = true ∧ pass2 v it = true ∧
            (sm it = true → it.sender ∉ lut ∧
              ∀ j ∈ pre, pass1 pend j = true → sm j = true → j.sender ≠ it.sender)) ↔
        ((hd.id = x ∧ pass1 pend hd = true ∧ pass2 v hd = true ∧ (sm hd = true → hd.sender ∉ lut)) ∨
          ∃ pre it post, hd :: tl = (hd :: pre) ++ it :: post ∧ it.id = x ∧ pass1 pend it = true ∧ pass2 v it = true ∧
            (sm it = true → it.sender ∉ lut ∧
              ∀ j ∈ hd :: pre, pass1 pend j = true → sm j = true → j.sender ≠ it.sender)) := by
      constructor
      · rintro ⟨pre, it, post, heq, hid, h1, h2, hs⟩
        cases pre with
        | nil =>
          have : hd = it := by simpa using (List.cons.inj heq).1
          subst this
          exact Or.inl ⟨hid, h1, h2, fun hsm => (hs hsm).1⟩
        | cons p ps =>
          have hp : hd = p := (List.cons.inj heq).1
          subst hp
          exact Or.inr ⟨ps, it, post, heq, hid, h1, h2, hs⟩
      · rintro (⟨hid, h1, h2, hs⟩ | ⟨pre, it, post, heq, hid, h1, h2, hs⟩)
        · exact ⟨[], hd, tl, rfl, hid, h1, h2, fun hsm => ⟨hs hsm, by simp⟩⟩
        · exact ⟨hd :: pre, it, post, heq, hid, h1, h2, hs⟩
    rw [headCase]
    by_cases hp1 : pass1 pend hd = true
    · by_cases hsm : sm hd = true
      · by_cases hin : hd.sender ∈ lut
        · rw [relayAux_known hp1 hsm hin, lift lut]
          · constructor
            · intro h; exact Or.inr h
            · rintro (⟨_, _, _, hs⟩ | h)
              · exact absurd hin (hs hsm)
              · exact h
          · intro it _
            constructor
            · intro hn
              refine ⟨hn, ?_⟩
              intro _ _ heq
              apply hn
              rw [← heq]; exact hin
            · intro h; exact h.1
        · have hnin : hd.sender ∉ lut := hin
          have hl : ∀ it : Item, sm it = true → (it.sender ∉ hd.sender :: lut ↔
              it.sender ∉ lut ∧ (pass1 pend hd = true → sm hd = true → hd.sender ≠ it.sender)) := by
            intro it _
            simp only [List.mem_cons, not_or]
            constructor
            · rintro ⟨h1, h2⟩
              exact ⟨h2, fun _ _ h => h1 h.symm⟩
            · rintro ⟨h1, h2⟩
              exact ⟨fun h => h2 hp1 hsm h.symm, h1⟩
          by_cases hp2 : pass2 v hd = true
          · rw [relayAux_new_pass hp1 hsm hnin hp2, List.mem_cons, lift _ hl]
            constructor
            · rintro (h | h)
              · exact Or.inl ⟨h.symm, hp1, hp2, fun _ => hnin⟩
              · exact Or.inr h
            · rintro (⟨h, _⟩ | h)
              · exact Or.inl h.symm
              · exact Or.inr h
          · rw [relayAux_new_fail hp1 hsm hnin hp2, lift _ hl]
            constructor
            · intro h; exact Or.inr h
            · rintro (⟨_, _, h2, _⟩ | h)
              · exact absurd h2 hp2
              · exact h
      · have hl : ∀ it : Item, sm it = true → (it.sender ∉ lut ↔
            it.sender ∉ lut ∧ (pass1 pend hd = true → sm hd = true → hd.sender ≠ it.sender)) := by
          intro it _
          constructor
          · intro h; exact ⟨h, fun _ h2 => absurd h2 hsm⟩
          · intro h; exact h.1
        by_cases hp2 : pass2 v hd = true
        · rw [relayAux_plain_pass hp1 hsm hp2, List.mem_cons, lift _ hl]
          constructor
          · rintro (h | h)
            · exact Or.inl ⟨h.symm, hp1, hp2, fun h => absurd h hsm⟩
            · exact Or.inr h
          · rintro (⟨h, _⟩ | h)
            · exact Or.inl h.symm
            · exact Or.inr h
        · rw [relayAux_plain_fail hp1 hsm hp2, lift _ hl]
          constructor
          · intro h; exact Or.inr h
          · rintro (⟨_, _, h2, _⟩ | h)
            · exact absurd h2 hp2
            · exact h
    · have hl : ∀ it : Item, sm it = true → (it.sender ∉ lut ↔
          it.sender ∉ lut ∧ (pass1 pend hd = true → sm hd = true → hd.sender ≠ it.sender)) := by
        intro it _
        constructor
        · intro h; exact ⟨h, fun h1 => absurd h1 hp1⟩
        · intro h; exact h.1
      rw [relayAux_skip hp1, lift _ hl]
      constructor
      · intro h; exact Or.inr h
      · rintro (⟨_, h1, _, _⟩ | h)
        · exact absurd h1 hp1
        · exact h

/-- in a list with pairwise distinct ids the position of an id is unique -/
theorem split_unique (a b : Item) (hab : a.id = b.id) :
    ∀ (l1 l2 r1 r2 : List Item), l1 ++ a :: r1 = l2 ++ b :: r2 →
      (l1 ++ a :: r1).Pairwise (fun x y => x.id ≠ y.id) → l1 = l2 ∧ a = b := by
  intro l1
  induction l1 with
  | nil =>
    intro l2 r1 r2 he hp
    cases l2 with
    | nil => exact ⟨rfl, by simpa using (List.cons.inj he).1⟩
    | cons y ys =>
      exfalso
      have hy : a = y := (List.cons.inj he).1
      have htl : r1 = ys ++ b :: r2 := (List.cons.inj he).2
      have := (List.pairwise_cons.mp hp).1 b (by rw [htl]; simp)
      exact this hab
  | cons x xs ihx =>
    intro l2 r1 r2 he hp
    cases l2 with
    | nil =>
      exfalso
      have hx : x = b := (List.cons.inj he).1
      have := (List.pairwise_cons.mp hp).1 a (by simp)
      rw [hx] at this
      exact this hab.symm
    | cons y ys =>
      have hxy : x = y := (List.cons.inj he).1
      obtain ⟨h1, h2⟩ := ihx ys r1 r2 (List.cons.inj he).2 (List.pairwise_cons.mp hp).2
      exact ⟨by rw [hxy, h1], h2⟩

theorem ceilDec_spec (x : Int) (h : 0 ≤ x) : P * (ceilDec x - 1) < x ∧ x ≤ P * ceilDec x := by
  unfold ceilDec P
  rw [Int.tdiv_eq_ediv_of_nonneg h, Int.tmod_eq_emod_of_nonneg h]
  split <;> omega

theorem toU64_spec {x : Int} {n : Nat} (h : toU64 x = some n) : (n : Int) = x ∧ n < U64 := by
  unfold toU64 at h
  split at h
  · cases h
  · split at h
    · injection h with h
      subst h
      constructor
      · omega
      · assumption
    · cases h

/-- in a queue ordered by id (store order) the first validator-set update is the oldest one -/
theorem pendingValset_oldest {q : List Item} (hs : q.Pairwise (fun a b => a.id < b.id)) :
    ∀ j ∈ q, j.kind = .valset → ∃ p, pendingValset q = some p ∧ p ≤ j.id := by
  induction q with
  | nil => intro j hj; cases hj
  | cons x xs ih =>
    intro j hj hk
    obtain ⟨hx, hxs⟩ := List.pairwise_cons.mp hs
    by_cases hxk : x.kind = .valset
    · refine ⟨x.id, by simp [pendingValset, hxk], ?_⟩
      rcases List.mem_cons.mp hj with rfl | hj'
      · exact Nat.le_refl _
      · exact Nat.le_of_lt (hx j hj')
    · rcases List.mem_cons.mp hj with rfl | hj'
      · exact absurd hk hxk
      · obtain ⟨p, hp, hle⟩ := ih hxs j hj' hk
        refine ⟨p, ?_, hle⟩
        have hxb : (x.kind == Kind.valset) = false := by simpa using hxk
        unfold pendingValset at hp ⊢
        rw [List.find?_cons, hxb]
        exact hp

/-! #### origin of queued messages -/

/-- How a queued message came into being: an operation `o` of the history, run in the state `run pre`,
handed out its id and stored it with exactly its kind, payload, assignee, relayer address and estimate
flag (the sender is `senderOf kind sd`: only fee-paying actions have one) — either the keeper-level
`put` with caller-chosen assignee, or an `enqueue` whose relayer pick in `run pre` returned the
assignee and the relayer address. -/
def Origin (ops : List Op) (id : Nat) (kind : Kind) (content sender assignee remote : Nat) (reqEst : Bool) : Prop :=
  ∃ pre post o, ops = pre ++ o :: post ∧ id = (run pre).nextId + 1 ∧ ∃ sd, sender = senderOf kind sd ∧
    (o = .put kind content sd assignee remote reqEst ∨
      ∃ mev ts, o = .enqueue kind content sd mev ts ∧ pick (run pre).env mev ts = some (assignee, remote) ∧ reqEst = true)

theorem origin_extend {ops : List Op} {id : Nat} {kind : Kind} {content sender assignee remote : Nat} {reqEst : Bool} (op : Op)
    (h : Origin ops id kind content sender assignee remote reqEst) :
    Origin (ops ++ [op]) id kind content sender assignee remote reqEst := by
  obtain ⟨pre, post, o, he, hid, hrest⟩ := h
  exact ⟨pre, post ++ [op], o, by rw [he]; simp, hid, hrest⟩

/-- the provenance of elected estimate and fees of a queued message (see `fees_provenance`) -/
def FeeProv (ops : List Op) (id : Nat) (kind : Kind) (assignee : Nat) (reqEst : Bool) (elected : Nat)
    (fees : Option (Nat × Nat × Nat)) : Prop :=
  (elected = 0 ∧ fees = none) ∨
  (reqEst = true ∧ elected ≠ 0 ∧ ∃ pre post it0 snap, ops = pre ++ Op.endBlock :: post ∧
      it0 ∈ (run pre).queue ∧ it0.id = id ∧ it0.elected = 0 ∧ (run pre).env.snapshot = some snap ∧
      Paloma.Libcons.verifyGasEstimates (libSnap snap) it0.estimates = .elected elected ∧
      ((kind.feePayer = true ∧ ∃ f, fees = some f ∧ feesFor (run pre).env assignee elected = some f) ∨
       (kind.feePayer = false ∧ fees = none)))

theorem feeProv_extend {ops : List Op} {id : Nat} {kind : Kind} {assignee : Nat} {reqEst : Bool} {elected : Nat}
    {fees : Option (Nat × Nat × Nat)} (op : Op) (h : FeeProv ops id kind assignee reqEst elected fees) :
    FeeProv (ops ++ [op]) id kind assignee reqEst elected fees := by
  rcases h with h | ⟨h1, h2, pre, post, it0, snap, he, hrest⟩
  · exact Or.inl h
  · exact Or.inr ⟨h1, h2, pre, post ++ [op], it0, snap, by rw [he]; simp, hrest⟩

theorem feesFor_spec {env : Env} {a g : Nat} {f : Nat × Nat × Nat} (h : feesFor env a g = some f) :
    ∃ m, assoc? env.fees a = some m ∧ m ≠ 0 ∧ env.community ≠ 0 ∧ env.security ≠ 0 ∧
      calcFees m env.community env.security g = some f := by
  unfold feesFor at h
  split at h
  · cases h
  · rename_i m hm
    split at h
    · cases h
    · rename_i hm0
      split at h
      · cases h
      · rename_i hcs
        simp only [Bool.or_eq_true, beq_iff_eq, not_or] at hcs
        exact ⟨m, hm, by simpa using hm0, hcs.1, hcs.2, h⟩

/-! assignments other than the first one: `reassign`, `attest` -/

/-- `handTo` rewrites assignee and relayer address only -/
theorem handTo_rest (it : Item) (vr : Nat × Nat) :
    (handTo it vr).id = it.id ∧ (handTo it vr).pub = it.pub ∧ (handTo it vr).err = it.err ∧
    (handTo it vr).assignee = vr.1 ∧ (handTo it vr).remote = vr.2 := ⟨rfl, rfl, rfl, rfl, rfl⟩

theorem reassignAux_carries_pick (env : Env) (ts : Nat) (flags : JobFlags) (q : List Item)
    (hok : (reassignAux env ts flags q).2 = true) (it' : Item) (hit : it' ∈ (reassignAux env ts flags q).1)
    (hstale : (assoc? flags it'.id).isSome = true) (hpub : it'.pub = false) (herr : it'.err = false) :
    pick env (mevDemanded flags it'.id) ts = some (it'.assignee, it'.remote) := by
  induction q with
  | nil => simp [reassignAux] at hit
  | cons it rest ih =>
    unfold reassignAux at hok hit
    split at hok
    · rename_i hc
      split at hok
      · cases hok
      · rename_i vr hp
        simp only [hc, hp, if_true] at hit
        rcases List.mem_cons.mp hit with h | h
        · subst h
          simpa [handTo] using hp
        · exact ih hok h
    · rename_i hc
      simp only [hc] at hit
      rcases List.mem_cons.mp hit with h | h
      · subst h
        simp [hstale, hpub, herr] at hc
      · exact ih hok h

theorem reassignAux_rest (env : Env) (ts : Nat) (flags : JobFlags) (q : List Item) :
    (reassignAux env ts flags q).1.map (fun it => { it with assignee := 0, remote := 0 }) =
      q.map (fun it => { it with assignee := 0, remote := 0 }) := by
  induction q with
  | nil => simp [reassignAux]
  | cons it rest ih =>
    unfold reassignAux
    split
    · split
      · rfl
      · simp only [List.map_cons, ih]
        simp [handTo]
    · simp only [List.map_cons, ih]



theorem remove_env (s : State) (id : Nat) : (remove s id).1.env = s.env ∧ (remove s id).1.nextId = s.nextId := by
  unfold remove; split <;> exact ⟨rfl, rfl⟩

theorem mem_remove {s : State} {id : Nat} {x : Item} (h : x ∈ (remove s id).1.queue) : x ∈ s.queue := by
  unfold remove at h
  split at h
  · exact h
  · exact (List.mem_filter.mp h).1

/-- what one attested message leaves behind: queue items that were there, and at most the retry -/
theorem attestOne_spec (ts : Nat) (flags : JobFlags) (s : State) (it : Item) :
    (attestOne ts flags s it).env = s.env ∧ s.nextId ≤ (attestOne ts flags s it).nextId ∧
    ∀ x ∈ (attestOne ts flags s it).queue, x ∈ s.queue ∨
      (s.nextId < x.id ∧ x.id ≤ (attestOne ts flags s it).nextId ∧ x.elected = 0 ∧ x.fees = none ∧ x.estimates = [] ∧ x.reqEst = true ∧
        x.kind = .slc ∧ x.content = it.content ∧ x.sender = it.sender ∧ it.kind = .slc ∧ retryLeft flags it.id = true ∧
        pick s.env (mevDemanded flags it.id) ts = some (x.assignee, x.remote)) := by
  unfold attestOne
  split
  · exact ⟨rfl, Nat.le_refl _, fun x h => Or.inl h⟩
  · split
    · exact ⟨rfl, Nat.le_refl _, fun x h => Or.inl h⟩
    · split
      · exact ⟨rfl, Nat.le_refl _, fun x h => Or.inl h⟩
      · split
        · rename_i hc
          simp only [Bool.and_eq_true, beq_iff_eq] at hc
          obtain ⟨hre, hrn⟩ := remove_env s it.id
          unfold enqueue
          rw [hre]
          cases hp : pick s.env (mevDemanded flags it.id) ts with
          | none =>
            simp only
            exact ⟨hre, by omega, fun x h => Or.inl (mem_remove h)⟩
          | some vr =>
            simp only [put]
            refine ⟨hre, by omega, fun x h => ?_⟩
            rcases List.mem_append.mp h with h | h
            · exact Or.inl (mem_remove h)
            · right
              simp only [List.mem_singleton] at h
              subst h
              simp [newItem, senderOf, Kind.feePayer, hrn, hc.1, hc.2]
        · obtain ⟨hre, hrn⟩ := remove_env s it.id
          exact ⟨hre, by omega, fun x h => Or.inl (mem_remove h)⟩


theorem attestFold_spec (ts : Nat) (flags : JobFlags) : ∀ (l : List Item) (s : State),
    (l.foldl (attestOne ts flags) s).env = s.env ∧ s.nextId ≤ (l.foldl (attestOne ts flags) s).nextId ∧
    ∀ x ∈ (l.foldl (attestOne ts flags) s).queue, x ∈ s.queue ∨
      (s.nextId < x.id ∧ x.elected = 0 ∧ x.fees = none ∧ x.kind = .slc ∧
        ∃ it ∈ l, it.kind = .slc ∧ retryLeft flags it.id = true ∧ x.content = it.content ∧ x.sender = it.sender ∧
          pick s.env (mevDemanded flags it.id) ts = some (x.assignee, x.remote)) := by
  intro l
  induction l with
  | nil => intro s; exact ⟨rfl, Nat.le_refl _, fun x h => Or.inl h⟩
  | cons it rest ih =>
    intro s
    simp only [List.foldl_cons]
    obtain ⟨he1, hn1, hq1⟩ := attestOne_spec ts flags s it
    obtain ⟨he2, hn2, hq2⟩ := ih (attestOne ts flags s it)
    refine ⟨he2.trans he1, Nat.le_trans hn1 hn2, fun x hx => ?_⟩
    rcases hq2 x hx with h | ⟨hlt, h0, hf, hk, it2, hit2, hk2, hr2, hc2, hs2, hp2⟩
    · rcases hq1 x h with h | ⟨hlt, _, h0, hf, _, _, hk, hc, hsd, hik, hrl, hp⟩
      · exact Or.inl h
      · exact Or.inr ⟨hlt, h0, hf, hk, it, List.mem_cons_self, hik, hrl, hc, hsd, hp⟩
    · rw [he1] at hp2
      exact Or.inr ⟨by omega, h0, hf, hk, it2, List.mem_cons_of_mem _ hit2, hk2, hr2, hc2, hs2, hp2⟩

end Lemmas

/-! ## Property theorems -/

/-- **pick_qualifies** (clause 1: who can be assigned).  A successful pick returns a validator `v`
that qualifies in the current snapshot and tables (`Qualifies`: metrics record, fee record, first
snapshot entry with a first target-chain account carrying the MEV trait when demanded), and the
relayer address `r` it returns is the address of exactly that account. -/
theorem pick_qualifies (env : Env) (mev : Bool) (ts v r : Nat) (h : pick env mev ts = some (v, r)) :
    ∃ snap, env.snapshot = some snap ∧ Qualifies env snap mev v ∧
      ∃ sv, snap.vals.find? (fun x => x.id == v) = some sv ∧
        ∃ a, chainAccount sv.accounts = some a ∧ a.addr = r ∧ (mev = true → a.mev = true) := by
  unfold pick at h
  split at h
  · cases h
  · rename_i snap hsnap
    split at h
    · cases h
    · split at h
      · cases h
      · split at h
        · cases h
        · rename_i w hw
          have hq := mem_assignable (List.mem_of_getElem? hw)
          obtain ⟨hm, hf, sv, hsv, a, ha, hmev⟩ := hq
          split at h
          · cases h
          · rename_i sv' hsv'
            rw [hsv] at hsv'
            injection hsv' with hsv'
            subst hsv'
            split at h
            · cases h
            · rename_i a' ha'
              rw [ha] at ha'
              injection ha' with ha'
              subst ha'
              injection h with h
              injection h with h1 h2
              subst h1
              exact ⟨snap, hsnap, ⟨hm, hf, sv, hsv, a, ha, hmev⟩, sv, hsv, a, ha, h2, hmev⟩

/-- **pick_eligible** (clause 1, spelled out).  A successful pick returns a validator `v`
that is in the current snapshot, whose first account on the target chain `a` provides the relayer
address, carries the MEV trait if the job demands it, and `v` has a relayer fee and metrics on
record.  (`remote_addr_is_snapshot_addr` is the `a.addr = r` conjunct.) -/
theorem pick_eligible (env : Env) (mev : Bool) (ts v r : Nat) (h : pick env mev ts = some (v, r)) :
    ∃ snap, env.snapshot = some snap ∧
      ∃ sv ∈ snap.vals, sv.id = v ∧
        ∃ a ∈ sv.accounts, a.chain = targetChain ∧ a.addr = r ∧ (mev = true → a.mev = true) ∧
          (assoc? env.fees v).isSome ∧ (assoc? env.metrics v).isSome := by
  obtain ⟨snap, hsnap, ⟨hm, hf, _⟩, sv, hsv, a, ha, hr, hmev⟩ := pick_qualifies env mev ts v r h
  obtain ⟨hamem, hchain⟩ := chainAccount_spec ha
  exact ⟨snap, hsnap, sv, List.mem_of_find?_eq_some hsv, by simpa using List.find?_some hsv, a, hamem, hchain, hr, hmev, hf, hm⟩

/-- **qualifies_iff_eligible.** `Qualifies` (stated on the tables) is exactly: both records exist and the
code's job filter `filterValidatorsForJob` lets the validator through. -/
theorem qualifies_iff_eligible (env : Env) (snap : Snap) (mev : Bool) (id : Nat) :
    Qualifies env snap mev id ↔
      (assoc? env.metrics id).isSome ∧ (assoc? env.fees id).isSome ∧ eligible snap mev id = true := by
  unfold Qualifies
  rw [eligible_iff]

/-- **rank_sorted.** The ranked list is sorted by score (descending) with ties broken by address
(ascending) and is a PERMUTATION of its input (every validator info exactly as often as it was supplied) —
the order `slices.SortStableFunc` produces. -/
theorem rank_sorted (l : List Scored) : (rank l).Pairwise RankLe ∧ (rank l).Perm l ∧ ∀ y, y ∈ rank l ↔ y ∈ l := by
  refine ⟨?_, rank_is_perm l, fun y => mem_rank y l⟩
  induction l with
  | nil => simp [rank]
  | cons x xs ih => exact insertScored_sorted x (rank xs) ih

/-- **pick_in_top_pool.** The winner is one of the first `topPoolSize = 5` validators of the ranked
list of qualifying validators, at index `block time mod min(n, 5)`. -/
theorem pick_in_top_pool (env : Env) (mev : Bool) (ts v r : Nat) (h : pick env mev ts = some (v, r)) :
    ∃ snap w, env.snapshot = some snap ∧
      (assignable env snap mev)[ts % min (assignable env snap mev).length topPool]? = some w ∧ w.id = v ∧
      ts % min (assignable env snap mev).length topPool < topPool := by
  unfold pick at h
  split at h
  · cases h
  · rename_i snap hsnap
    split at h
    · cases h
    · split at h
      · cases h
      · rename_i hne
        split at h
        · cases h
        · rename_i w hw
          split at h
          · cases h
          · split at h
            · cases h
            · injection h with h
              injection h with h1 _
              refine ⟨snap, w, hsnap, hw, h1, ?_⟩
              have hpos : 0 < (assignable env snap mev).length := by
                cases hl : assignable env snap mev with
                | nil => simp [hl] at hne
                | cons _ _ => simp
              have : 0 < min (assignable env snap mev).length topPool := by
                simp only [topPool]; omega
              exact Nat.lt_of_lt_of_le (Nat.mod_lt _ this) (Nat.min_le_right _ _)

/-- **pick_succeeds_iff** (clause 1, failure direction).  The pick fails exactly when no snapshot
validator qualifies; in particular *if no such validator exists the request fails*. -/
theorem pick_succeeds_iff (env : Env) (snap : Snap) (mev : Bool) (ts : Nat) (hs : env.snapshot = some snap) :
    (pick env mev ts).isSome ↔ ∃ id, Qualifies env snap mev id := by
  constructor
  · intro h
    obtain ⟨⟨v, r⟩, hp⟩ := Option.isSome_iff_exists.mp h
    obtain ⟨_, w, hs', hw, hid, _⟩ := pick_in_top_pool env mev ts v r hp
    rw [hs] at hs'
    injection hs' with hs'
    subst hs'
    exact ⟨w.id, mem_assignable (List.mem_of_getElem? hw)⟩
  · rintro ⟨id, hq⟩
    obtain ⟨w0, hw0, _⟩ := assignable_of_qualifies hq
    have hne : (assignable env snap mev) ≠ [] := List.ne_nil_of_mem hw0
    have hinfos : (buildInfos env snap) ≠ [] := by
      intro hnil
      unfold assignable at hw0
      simp [hnil, rank] at hw0
    have hpos : 0 < (assignable env snap mev).length := List.length_pos_iff.mpr hne
    have hidx : ts % min (assignable env snap mev).length topPool < (assignable env snap mev).length := by
      have : 0 < min (assignable env snap mev).length topPool := by simp only [topPool]; omega
      exact Nat.lt_of_lt_of_le (Nat.mod_lt _ this) (Nat.min_le_left _ _)
    unfold pick
    simp only [hs]
    have h1 : (buildInfos env snap).isEmpty = false := by
      cases hb : buildInfos env snap with
      | nil => exact absurd hb hinfos
      | cons _ _ => rfl
    have h2 : (assignable env snap mev).isEmpty = false := by
      cases hb : assignable env snap mev with
      | nil => exact absurd hb hne
      | cons _ _ => rfl
    simp only [h1, h2, Bool.false_eq_true, if_false]
    rw [List.getElem?_eq_getElem hidx]
    have hq' := mem_assignable (List.getElem_mem hidx)
    obtain ⟨_, _, sv, hsv, a, ha, _⟩ := hq'
    simp [hsv, ha]

/-- **no_eligible_fails_without_enqueue.** If no validator qualifies, the enqueue request fails and
the state — queue and id counter included — is unchanged. -/
theorem no_eligible_fails_without_enqueue (s : State) (snap : Snap) (kind : Kind) (content sender : Nat)
    (mev : Bool) (ts : Nat) (hs : s.env.snapshot = some snap)
    (hnone : ∀ id, ¬ Qualifies s.env snap mev id) :
    enqueue s kind content sender mev ts = (s, none) := by
  have : pick s.env mev ts = none := by
    cases hp : pick s.env mev ts with
    | none => rfl
    | some x =>
      have := (pick_succeeds_iff s.env snap mev ts hs).mp (by simp [hp])
      obtain ⟨id, hq⟩ := this
      exact absurd hq (hnone id)
  unfold enqueue
  simp [this]

/-- a failed request never enqueues, whatever the reason (also: no snapshot at all) -/
theorem failed_request_enqueues_nothing (s : State) (kind : Kind) (content sender : Nat) (mev : Bool) (ts : Nat)
    (h : (enqueue s kind content sender mev ts).2 = none) : (enqueue s kind content sender mev ts).1 = s := by
  unfold enqueue at h ⊢
  split
  · rfl
  · rename_i vr hp
    simp [hp] at h

/-- **enqueue_assigns_pick.** A successful request appends exactly one message, assigned to the
picked validator and carrying the picked remote address, with gas estimation required. -/
theorem enqueue_assigns_pick (s : State) (kind : Kind) (content sender : Nat) (mev : Bool) (ts id v r : Nat)
    (h : (enqueue s kind content sender mev ts).2 = some (id, v, r)) :
    pick s.env mev ts = some (v, r) ∧
      (enqueue s kind content sender mev ts).1.queue =
        s.queue ++ [newItem id kind content sender v r true] := by
  cases hp : pick s.env mev ts with
  | none => simp [enqueue, hp] at h
  | some vr =>
    simp only [enqueue, hp] at h ⊢
    injection h with h
    injection h with h1 h2
    injection h2 with h2 h3
    subst h1 h2 h3
    exact ⟨rfl, by simp [put]⟩

/-- **offered_iff** (clause 2).  Message `x` is offered to validator `v` iff the queue contains an
item with that id which, with `pend` the id of the oldest validator-set update in the queue,
(1) is not younger than `pend`, (2) has neither delivery nor error report, (3) has its gas estimate
elected if one is required, (4) is assigned to `v`, and (5) if it is a fee-paying message
(SubmitLogicCall, UploadUserSmartContract) with a non-empty sender, no *earlier* queue item passing
(1) and (2) is a fee-paying message of the same sender.  Note (5) does not ask the earlier item to
pass (3) or (4): the per-sender filter registers the sender before those tests run. -/
theorem offered_iff (q : List Item) (v x : Nat) :
    x ∈ offered q v ↔
      ∃ pre it post, q = pre ++ it :: post ∧ it.id = x ∧
        (match pendingValset q with | none => True | some p => it.id ≤ p) ∧
        it.pub = false ∧ it.err = false ∧
        (it.reqEst = true → it.elected > 0) ∧ it.assignee = v ∧
        (it.kind.feePayer = true → it.sender ≠ 0 →
          ∀ j ∈ pre, pass1 (pendingValset q) j = true → j.kind.feePayer = true → j.sender ≠ it.sender) := by
  unfold offered offeredWith
  rw [mem_relayAux]
  constructor
  · rintro ⟨pre, it, post, hq, hid, h1, h2, hs⟩
    refine ⟨pre, it, post, hq, hid, ?_⟩
    unfold pass1 at h1
    unfold pass2 at h2
    simp only [Bool.and_eq_true, Bool.not_eq_true', decide_eq_true_eq, Bool.or_eq_true, beq_iff_eq] at h1 h2
    obtain ⟨hp, hpub, herr⟩ := h1
    obtain ⟨hg, ha⟩ := h2
    refine ⟨?_, hpub, herr, ?_, ha, ?_⟩
    · cases hpv : pendingValset q with
      | none => trivial
      | some p => simpa [hpv] using hp
    · intro hr
      rcases hg with hg | hg
      · simp [hr] at hg
      · exact hg
    · intro hk hsn j hj hj1 hjk
      have hsm : senderMsg it = true := by simp [senderMsg, hk, hsn]
      have := (hs hsm).2 j hj hj1
      by_cases hj0 : j.sender = 0
      · rw [hj0]; exact fun h => hsn h.symm
      · exact this (by simp [senderMsg, hjk, hj0])
  · rintro ⟨pre, it, post, hq, hid, hp, hpub, herr, hg, ha, hs⟩
    refine ⟨pre, it, post, hq, hid, ?_, ?_, ?_⟩
    · unfold pass1
      simp only [Bool.and_eq_true, Bool.not_eq_true']
      refine ⟨?_, hpub, herr⟩
      cases hpv : pendingValset q with
      | none => rfl
      | some p => simpa [hpv] using hp
    · unfold pass2
      simp only [Bool.and_eq_true, Bool.or_eq_true, Bool.not_eq_true', decide_eq_true_eq, beq_iff_eq]
      refine ⟨?_, ha⟩
      by_cases hr : it.reqEst = true
      · exact Or.inr (hg hr)
      · exact Or.inl (by simpa using hr)
    · intro hsm
      refine ⟨by simp, ?_⟩
      intro j hj hj1 hjs
      unfold senderMsg at hsm hjs
      simp only [Bool.and_eq_true, bne_iff_ne, ne_eq] at hsm hjs
      exact hs hsm.1 hsm.2 j hj hj1 hjs.1

/-- **never_ahead_of_older_valset_update** (clause 2, "never ahead of an older pending validator-set
update for that chain" — at any depth).  In a queue in store order (ascending ids), of *any length*, a
message offered to anybody is not younger than ANY validator-set update still in the queue — wherever
in the queue that update sits and however many messages precede it. -/
theorem never_ahead_of_older_valset_update (q : List Item) (hs : q.Pairwise (fun a b => a.id < b.id)) (v x : Nat)
    (hx : x ∈ offered q v) : ∀ j ∈ q, j.kind = .valset → x ≤ j.id := by
  intro j hj hk
  obtain ⟨p, hp, hle⟩ := pendingValset_oldest hs j hj hk
  obtain ⟨pre, it, post, hq, hid, hpend, _⟩ := (offered_iff q v x).mp hx
  rw [hp] at hpend
  simp only at hpend
  omega

/-- **relay_answer_sound.** The answer of the relay query is the offered list cut to
`defaultResponseMessageCount` entries: every message in it is offered (so every "only" clause of
`offered_iff` holds for it), and nothing is cut when at most that many messages are offered. -/
theorem relay_answer_sound (q : List Item) (v : Nat) :
    (∀ x ∈ offeredPage q v, x ∈ offered q v) ∧ ((offered q v).length ≤ respCap → offeredPage q v = offered q v) := by
  unfold offeredPage
  exact ⟨fun x hx => List.mem_of_mem_take hx, fun h => List.take_of_length_le h⟩

/-- **relay_never_ahead_of_valset_update_all_histories.** In every state reachable by any sequence of
operations — queues of any length — no answer of the relay query contains a message younger than a
validator-set update that is still queued. -/
theorem relay_never_ahead_of_valset_update_all_histories (ops : List Op) (v x : Nat)
    (hx : x ∈ offeredPage (run ops).queue v) : ∀ j ∈ (run ops).queue, j.kind = .valset → x ≤ j.id :=
  never_ahead_of_older_valset_update _ (invariant_all_histories ops).2.2.1 v x ((relay_answer_sound _ v).1 x hx)

/-- **sender_registered_before_assignee_test.** An older pending fee-paying message (SubmitLogicCall or
UploadUserSmartContract) of the same sender blocks a message for *every* validator — even when that
older message is assigned to somebody else or still waits for its gas estimate. -/
theorem sender_registered_before_assignee_test (pre post : List Item) (j it : Item) (mid : List Item) (v : Nat)
    (hj : pass1 (pendingValset (pre ++ j :: mid ++ it :: post)) j = true)
    (hjk : j.kind.feePayer = true) (hik : it.kind.feePayer = true) (hs : it.sender ≠ 0) (heq : j.sender = it.sender)
    (hids : (pre ++ j :: mid ++ it :: post).Pairwise (fun a b => a.id ≠ b.id)) :
    it.id ∉ offered (pre ++ j :: mid ++ it :: post) v := by
  intro h
  obtain ⟨pre', it', post', hq, hid, _, _, _, _, _, hsnd⟩ := (offered_iff _ v it.id).mp h
  have hq' : (pre ++ j :: mid) ++ it :: post = pre' ++ it' :: post' := by simpa using hq
  obtain ⟨hpre, hit⟩ := split_unique it it' hid.symm (pre ++ j :: mid) pre' post post' hq' (by simpa using hids)
  subst hit
  have hjmem : j ∈ pre' := by rw [← hpre]; simp
  exact hsnd hik hs j hjmem hj hjk heq

/-- **fees_formula** (clause 3).  When fee attachment succeeds, with `m`, `c`, `s` the relayer
multiplier and the community / security rates as 18-decimal fixed-point numbers (scaled integers)
and `g` the elected gas:  `r = ⌈m·g⌉`, `cf = ⌈c·r⌉`, `sf = ⌈s·r⌉`, i.e. `10^18·(r-1) < m·g ≤ 10^18·r`
etc., all multipliers are non-negative and all three fees fit `uint64`. -/
theorem fees_formula (m c s : Int) (g r cf sf : Nat) (h : calcFees m c s g = some (r, cf, sf)) :
    0 ≤ m ∧ 0 ≤ c ∧ 0 ≤ s ∧
    P * ((r : Int) - 1) < m * g ∧ m * g ≤ P * r ∧
    P * ((cf : Int) - 1) < c * r ∧ c * r ≤ P * cf ∧
    P * ((sf : Int) - 1) < s * r ∧ s * r ≤ P * sf ∧
    r < U64 ∧ cf < U64 ∧ sf < U64 := by
  have one : ∀ (k : Int) (x y : Nat), mulFee k x = some y →
      0 ≤ k ∧ P * ((y : Int) - 1) < k * x ∧ k * x ≤ P * y ∧ y < U64 := by
    intro k x y hk
    unfold mulFee at hk
    split at hk
    · cases hk
    · rename_i hneg
      have hk0 : 0 ≤ k := by omega
      have hx : 0 ≤ k * (x : Int) := Int.mul_nonneg hk0 (Int.natCast_nonneg x)
      obtain ⟨he, hb⟩ := toU64_spec hk
      obtain ⟨h1, h2⟩ := ceilDec_spec _ hx
      rw [← he] at h1 h2
      exact ⟨hk0, h1, h2, hb⟩
  unfold calcFees at h
  split at h
  · cases h
  · rename_i r' hr
    split at h
    · cases h
    · rename_i cf' hc
      split at h
      · cases h
      · rename_i sf' hsf
        injection h with h
        injection h with h1 h2
        injection h2 with h2 h3
        subst h1 h2 h3
        obtain ⟨a1, a2, a3, a4⟩ := one m g r' hr
        obtain ⟨b1, b2, b3, b4⟩ := one c r' cf' hc
        obtain ⟨c1, c2, c3, c4⟩ := one s r' sf' hsf
        exact ⟨a1, b1, c1, a2, a3, b2, b3, c2, c3, a4, b4, c4⟩

/-- **fees_out_of_range_is_error.** A product that leaves `uint64` — and a negative multiplier —
makes fee attachment fail (an error, the message is left as it was); nothing wraps around. -/
theorem fees_out_of_range_is_error (m : Int) (g : Nat) (h : m < 0 ∨ (U64 : Int) ≤ ceilDec (m * g)) (c s : Int) :
    calcFees m c s g = none := by
  unfold calcFees mulFee
  rcases h with h | h
  · simp [h]
  · split
    · rfl
    · rename_i r hr
      exfalso
      split at hr
      · cases hr
      · have := (toU64_spec hr)
        omega

/-- **elected_fees_attached.** The end-block step changes a fee-paying message only by electing an
estimate `g` that reached quorum and attaching exactly `calcFees` of the assignee's multiplier and
the treasury rates to it; if the fees cannot be computed the message is left untouched. -/
theorem elected_fees_attached (env : Env) (snap : Snap) (it : Item) (hk : it.kind.feePayer = true)
    (hch : electOne env snap it ≠ it) :
    ∃ g m f, Paloma.Libcons.verifyGasEstimates (libSnap snap) it.estimates = .elected g ∧
      assoc? env.fees it.assignee = some m ∧ m ≠ 0 ∧
      calcFees m env.community env.security g = some f ∧
      electOne env snap it = { it with sigs := [], elected := g, fees := some f } := by
  unfold electOne at hch ⊢
  by_cases h1 : (!it.reqEst) = true
  · simp [h1] at hch
  · by_cases h2 : it.estimates.isEmpty = true
    · simp [h1, h2] at hch
    · by_cases h3 : it.elected > 0
      · simp [h1, h2, h3] at hch
      · simp only [h1, h2, h3, if_false, Bool.false_eq_true] at hch ⊢
        cases hv : Paloma.Libcons.verifyGasEstimates (libSnap snap) it.estimates with
        | notAchieved => simp [hv] at hch
        | zero => simp [hv] at hch
        | elected g =>
          simp only [hv, hk, if_true] at hch ⊢
          unfold feesFor at hch ⊢
          cases hm : assoc? env.fees it.assignee with
          | none => simp [hm] at hch
          | some m =>
            simp only [hm] at hch ⊢
            by_cases hm0 : (m == 0) = true
            · simp [hm0] at hch
            · by_cases hcs : (env.community == 0 || env.security == 0) = true
              · simp [hm0, hcs] at hch
              · simp only [hm0, hcs, if_false, Bool.false_eq_true] at hch ⊢
                cases hcf : calcFees m env.community env.security g with
                | none => simp [hcf] at hch
                | some f =>
                  refine ⟨g, m, f, rfl, rfl, ?_, hcf, rfl⟩
                  simpa using hm0

/-! ### over whole histories: assignment, signed relayer address, per-sender rule, fees -/

/-- **item_origin** (clause 1 over histories, scope).  Every message in the queue after ANY history was
created by an operation of that history — a keeper-level `put` or an `enqueue` — which ran when
the id counter stood at `it.id - 1` and carried exactly the message's kind, payload, assignee, relayer
address and estimate flag.  For an `enqueue`, assignee and relayer address are what the relayer pick
returned in the state the request ran in.  No other operation creates a message, and none ever rewrites
these fields (`core_fields_never_change`). -/
theorem item_origin (ops : List Op) :
    ∀ it ∈ (run ops).queue, Origin ops it.id it.kind it.content it.sender it.assignee it.remote it.reqEst := by
  induction ops using snoc_induction with
  | h0 => intro it hit; simp [run] at hit
  | hs ops op ih =>
    intro it' hit'
    rw [run_snoc] at hit'
    rcases step_new (run ops) op it' hit' with ⟨it, hit, hid⟩ | ⟨hid, sd, hnew, horig⟩
    · obtain ⟨h1, h2, h3, h4, h5, h6, h7⟩ :=
        step_core (step_full (run ops) (invariant_all_histories ops) op it it' hit hit' hid.symm)
      rw [h1, h2, h3, h4, h5, h6, h7]
      exact origin_extend op (ih it hit)
    · refine ⟨ops, [], op, rfl, hid, sd, ?_, horig⟩
      rw [hnew]; rfl

/-- **queued_message_assignment** ("every message that needs relaying is assigned to a validator that is in
the current snapshot, has an account on the target chain, has a relayer fee and performance metrics on
record, and carries the MEV trait when the job demands it" — over whole histories).  For every message in
the queue after ANY history, either

* it entered through the keeper-level `put` (assignee chosen by the caller: NOTHING is claimed about it in this
  branch — in /repo no producer of a relayed message does that without calling the pick first, and under that
  hypothesis `every_message_assigned_to_a_qualifying_validator` gives the full clause for this branch too), or
* it entered through an `enqueue … mev ts` of the history, and in the state `run pre` that request ran in
  there was a snapshot `snap` in which the assignee `Qualifies` for the job (metrics record, fee record,
  first snapshot entry `sv`, first target-chain account `a`, MEV trait if `mev`), the relayer address of
  the message is `a.addr`, and gas estimation is required. -/
theorem queued_message_assignment (ops : List Op) :
    ∀ it ∈ (run ops).queue,
      (∃ pre post sd, ops = pre ++ Op.put it.kind it.content sd it.assignee it.remote it.reqEst :: post ∧
          it.id = (run pre).nextId + 1) ∨
      (∃ pre post sd mev ts snap, ops = pre ++ Op.enqueue it.kind it.content sd mev ts :: post ∧
          it.id = (run pre).nextId + 1 ∧ it.reqEst = true ∧
          (run pre).env.snapshot = some snap ∧ Qualifies (run pre).env snap mev it.assignee ∧
          ∃ sv, snap.vals.find? (fun x => x.id == it.assignee) = some sv ∧
            ∃ a, chainAccount sv.accounts = some a ∧ a.chain = targetChain ∧ a.addr = it.remote ∧
              (mev = true → a.mev = true)) := by
  intro it hit
  obtain ⟨pre, post, o, he, hid, sd, _, ho | ⟨mev, ts, ho, hp, hreq⟩⟩ := item_origin ops it hit
  · exact Or.inl ⟨pre, post, sd, by rw [he, ho], hid⟩
  · obtain ⟨snap, hsnap, hq, sv, hsv, a, ha, hr, hmev⟩ := pick_qualifies _ mev ts _ _ hp
    exact Or.inr ⟨pre, post, sd, mev, ts, snap, by rw [he, ho], hid, hreq, hsnap, hq, sv, hsv, a, ha,
      (chainAccount_spec ha).2, hr, hmev⟩

/-- **every_message_assigned_by_pick.** In a history that never uses the keeper-level `put` — i.e. every
message enters the way /repo's producers enqueue it, through the relayer pick — EVERY queued message is
assigned to a validator that qualified when the message was enqueued, with that validator's target-chain
account as relayer address. -/
theorem every_message_assigned_by_pick (ops : List Op)
    (hnoput : ∀ o ∈ ops, ∀ k c sd a r q, o ≠ Op.put k c sd a r q) :
    ∀ it ∈ (run ops).queue,
      ∃ pre post sd mev ts snap, ops = pre ++ Op.enqueue it.kind it.content sd mev ts :: post ∧
        it.reqEst = true ∧ (run pre).env.snapshot = some snap ∧ Qualifies (run pre).env snap mev it.assignee ∧
        ∃ sv, snap.vals.find? (fun x => x.id == it.assignee) = some sv ∧
          ∃ a, chainAccount sv.accounts = some a ∧ a.addr = it.remote := by
  intro it hit
  rcases queued_message_assignment ops it hit with ⟨pre, post, sd, he, _⟩ |
      ⟨pre, post, sd, mev, ts, snap, he, _, hreq, hsnap, hq, sv, hsv, a, ha, _, hr, _⟩
  · exfalso
    exact hnoput (Op.put it.kind it.content sd it.assignee it.remote it.reqEst) (by rw [he]; simp) _ _ _ _ _ _ rfl
  · exact ⟨pre, post, sd, mev, ts, snap, he, hreq, hsnap, hq, sv, hsv, a, ha, hr⟩



/-- every `put` of the history passes an assignee and relayer address that the relayer pick returns in the
state the `put` runs in (for some MEV flag and block time) — what every producer of a turnstone message in
/repo does, whatever `PutOptions` it passes (`PublishValsetToChain`, `AddSmartContractExecutionToConsensus`,
`AddUploadUserSmartContractToConsensus`, `scheduleCompassHandover`: estimation required;
`AddUploadSmartContractToConsensus`: not required).  Histories without any `put` satisfy it trivially. -/
def PutsFollowPick (ops : List Op) : Prop :=
  ∀ pre post k c sd a r q, ops = pre ++ Op.put k c sd a r q :: post →
    ∃ mev ts, pick (run pre).env mev ts = some (a, r)

theorem putsFollowPick_of_no_put {ops : List Op} (hnoput : ∀ o ∈ ops, ∀ k c sd a r q, o ≠ Op.put k c sd a r q) :
    PutsFollowPick ops := by
  intro pre post k c sd a r q he
  exact absurd rfl (hnoput (Op.put k c sd a r q) (by rw [he]; simp) k c sd a r q)

/-- **every_message_assigned_to_a_qualifying_validator** (clause 1 over whole histories, ALL entry points and
ALL kinds — validator-set updates included).  If every keeper-level `put` of the history is fed by the relayer
pick (`PutsFollowPick`; the request-level `enqueue` always is), then EVERY message in the queue after the
history was created at a point `pre` of the history where a snapshot `snap` existed in which its assignee
`Qualifies` for the job (in the current snapshot, metrics and fee record, first target-chain account, MEV
trait when demanded), and its relayer address is the address of that account.  "Current" = current when the
message was assigned: later changes of the environment do not re-assign (`core_fields_never_change`). -/
theorem every_message_assigned_to_a_qualifying_validator (ops : List Op) (hp : PutsFollowPick ops) :
    ∀ it ∈ (run ops).queue,
      ∃ pre post o mev ts snap, ops = pre ++ o :: post ∧ it.id = (run pre).nextId + 1 ∧
        (run pre).env.snapshot = some snap ∧ pick (run pre).env mev ts = some (it.assignee, it.remote) ∧
        Qualifies (run pre).env snap mev it.assignee ∧
        ∃ sv, snap.vals.find? (fun x => x.id == it.assignee) = some sv ∧
          ∃ a, chainAccount sv.accounts = some a ∧ a.chain = targetChain ∧ a.addr = it.remote ∧
            (mev = true → a.mev = true) := by
  intro it hit
  obtain ⟨pre, post, o, he, hid, sd, _, ho | ⟨mev, ts, ho, hpk, _⟩⟩ := item_origin ops it hit
  · obtain ⟨mev, ts, hpk⟩ := hp pre post it.kind it.content sd it.assignee it.remote it.reqEst (by rw [he, ho])
    obtain ⟨snap, hsnap, hq, sv, hsv, a, ha, hr, hmev⟩ := pick_qualifies _ mev ts _ _ hpk
    exact ⟨pre, post, o, mev, ts, snap, he, hid, hsnap, hpk, hq, sv, hsv, a, ha, (chainAccount_spec ha).2, hr, hmev⟩
  · obtain ⟨snap, hsnap, hq, sv, hsv, a, ha, hr, hmev⟩ := pick_qualifies _ mev ts _ _ hpk
    exact ⟨pre, post, o, mev, ts, snap, he, hid, hsnap, hpk, hq, sv, hsv, a, ha, (chainAccount_spec ha).2, hr, hmev⟩

/-- **no_put_all_require_estimation.** In a history without the keeper-level `put`, every queued message — of
every kind — requires gas estimation (every `enqueue` sets the flag, nothing ever clears it). -/
theorem no_put_all_require_estimation (ops : List Op)
    (hnoput : ∀ o ∈ ops, ∀ k c sd a r q, o ≠ Op.put k c sd a r q) :
    ∀ it ∈ (run ops).queue, it.reqEst = true := by
  intro it hit
  obtain ⟨_, _, _, _, _, _, _, hreq, _⟩ := every_message_assigned_by_pick ops hnoput it hit
  exact hreq

/-- **picked_address_is_the_signed_relayer_address** ("whose address becomes the signed relayer
address").  In every reachable state the relayer component of a message's signing bytes is the eth account
denoted by its stored relayer address, and so is the relayer component of what EVERY stored signature
was made for; and for a message that entered through `enqueue` that account is the one denoted by the
address of the target-chain account `a` which the picked validator had in the snapshot at that point
of the history.  (The address never changes afterwards: `core_fields_never_change`.) -/
theorem picked_address_is_the_signed_relayer_address (ops : List Op) :
    ∀ it ∈ (run ops).queue,
      (bytesOf it).remote = canon it.remote ∧ (∀ sg ∈ it.sigs, sg.for_.remote = canon it.remote) ∧
      ((∃ pre post sd, ops = pre ++ Op.put it.kind it.content sd it.assignee it.remote it.reqEst :: post ∧
          it.id = (run pre).nextId + 1) ∨
       (∃ pre post sd mev ts snap sv a, ops = pre ++ Op.enqueue it.kind it.content sd mev ts :: post ∧
          it.id = (run pre).nextId + 1 ∧ (run pre).env.snapshot = some snap ∧
          snap.vals.find? (fun x => x.id == it.assignee) = some sv ∧ chainAccount sv.accounts = some a ∧
          (bytesOf it).remote = canon a.addr ∧ ∀ sg ∈ it.sigs, sg.for_.remote = canon a.addr)) := by
  intro it hit
  have hsig : ∀ sg ∈ it.sigs, sg.for_.remote = canon it.remote := by
    intro sg hsg
    rw [(stored_signatures_verify ops it hit sg hsg).1, bytesOf_remote]
  refine ⟨bytesOf_remote it, hsig, ?_⟩
  rcases queued_message_assignment ops it hit with h |
      ⟨pre, post, sd, mev, ts, snap, he, hid, _, hsnap, _, sv, hsv, a, ha, _, hr, _⟩
  · exact Or.inl h
  · refine Or.inr ⟨pre, post, sd, mev, ts, snap, sv, a, he, hid, hsnap, hsv, ha, ?_, ?_⟩
    · rw [bytesOf_remote, hr]
    · intro sg hsg; rw [hsig sg hsg, hr]

/-- **sender_only_on_fee_payers.** In every reachable state only fee-paying messages (SubmitLogicCall,
UploadUserSmartContract — the actions that have a `SenderAddress`) carry a non-empty sender. -/
theorem sender_only_on_fee_payers (ops : List Op) :
    ∀ it ∈ (run ops).queue, it.sender ≠ 0 → it.kind.feePayer = true := by
  intro it hit hs
  obtain ⟨_, _, _, _, _, sd, hsd, _⟩ := item_origin ops it hit
  unfold senderOf at hsd
  split at hsd
  · assumption
  · exact absurd hsd hs

/-- **one_per_sender_all_histories** (clause 2, "never while an older message from the same sender is still
pending" — reachable states, every kind of message, no side condition on filters).  In the state reached
by ANY history: if the queue holds an older message `j` of the same non-empty sender as `it` and `j` has
neither a delivery nor an error report, then `it` is offered to NO validator — whoever `j` is assigned
to and whether or not `j`'s estimate is elected.
EXPLICIT WEAKENING: "still pending" is read as "unreported" (`hp`, `he`).  An older message that is still
queued but already carries a report does NOT block (`reported_older_message_does_not_block`,
`one_per_sender_still_queued_reading_false`); that is what /repo does (`IsUnprocessed && … &&
IsOldestMsgPerSender`). -/
theorem one_per_sender_all_histories (ops : List Op) (v : Nat) (j it : Item)
    (hj : j ∈ (run ops).queue) (hit : it ∈ (run ops).queue) (hlt : j.id < it.id)
    (hp : j.pub = false) (he : j.err = false) (hs : it.sender ≠ 0) (heq : j.sender = it.sender) :
    it.id ∉ offered (run ops).queue v ∧ it.id ∉ offeredPage (run ops).queue v := by
  have hik : it.kind.feePayer = true := sender_only_on_fee_payers ops it hit hs
  have hjk : j.kind.feePayer = true := sender_only_on_fee_payers ops j hj (by rw [heq]; exact hs)
  have main : it.id ∉ offered (run ops).queue v := by
    intro h
    have hinv := invariant_all_histories ops
    obtain ⟨pre, it', post, hq, hid, hpend, _, _, _, _, hsnd⟩ := (offered_iff _ v it.id).mp h
    have hsorted := hinv.2.2.1
    have hit'mem : it' ∈ (run ops).queue := by rw [hq]; simp
    have e : it' = it := uniq_id hinv.2.2 hit'mem hit hid
    subst e
    rw [hq] at hsorted hj
    have hjpre : j ∈ pre := by
      rcases List.mem_append.mp hj with h1 | h1
      · exact h1
      · rcases List.mem_cons.mp h1 with h2 | h2
        · subst h2; omega
        · have := (List.pairwise_cons.mp (List.pairwise_append.mp hsorted).2.1).1 j h2; omega
    refine hsnd hik hs j hjpre ?_ hjk heq
    unfold pass1
    cases hpv : pendingValset (run ops).queue with
    | none => simp [hp, he]
    | some p => rw [hpv] at hpend; simp only at hpend; simp [hp, he]; omega
  exact ⟨main, fun h => main ((relay_answer_sound _ v).1 _ h)⟩

/-- **pick_without_snapshot_fails.** Without a current snapshot no validator can be picked (and by
`failed_request_enqueues_nothing` the request enqueues nothing). -/
theorem pick_without_snapshot_fails (env : Env) (mev : Bool) (ts : Nat) (h : env.snapshot = none) :
    pick env mev ts = none := by
  unfold pick
  simp [h]

/-- **offered_only_if_all_histories** (clause 2, all five "only" conditions, stated on the message itself in
any reachable state).  If the relay query answers validator `v` with the id of the queued message `it`,
then `it` is assigned to `v`; its gas estimate is elected if one is required; it has neither a delivery nor
an error report; no validator-set update in the queue is older than it; and no older unreported message in
the queue has the same non-empty sender. -/
theorem offered_only_if_all_histories (ops : List Op) (v : Nat) (it : Item) (hit : it ∈ (run ops).queue)
    (hoff : it.id ∈ offeredPage (run ops).queue v) :
    it.assignee = v ∧ (it.reqEst = true → it.elected > 0) ∧ it.pub = false ∧ it.err = false ∧
      (∀ j ∈ (run ops).queue, j.kind = .valset → it.id ≤ j.id) ∧
      (∀ j ∈ (run ops).queue, j.id < it.id → j.pub = false → j.err = false → it.sender ≠ 0 → j.sender ≠ it.sender) := by
  have hoff' := (relay_answer_sound _ v).1 _ hoff
  obtain ⟨pre, it', post, hq, hid, _, hpub, herr, hel, ha, _⟩ := (offered_iff _ v it.id).mp hoff'
  have hmem : it' ∈ (run ops).queue := by rw [hq]; simp
  have e : it' = it := uniq_id (invariant_all_histories ops).2.2 hmem hit hid
  subst e
  refine ⟨ha, hel, hpub, herr, relay_never_ahead_of_valset_update_all_histories ops v _ hoff, ?_⟩
  intro j hj hlt hp he hs heq
  exact (one_per_sender_all_histories ops v j it' hj hit hlt hp he hs heq).2 hoff

/-- **elected_and_fees_written_only_by_endBlock** (clause 3, frame).  No operation other than the end-block
step changes the elected estimate or the attached fees of a queued message; and the end-block step changes
them only by `electOne` under the current environment and snapshot. -/
theorem elected_and_fees_written_only_by_endBlock (ops : List Op) (op : Op) (it it' : Item)
    (hit : it ∈ (run ops).queue) (hit' : it' ∈ (apply (run ops) op).queue) (hid : it'.id = it.id) :
    (it'.elected = it.elected ∧ it'.fees = it.fees) ∨
      (op = .endBlock ∧ ∃ snap, (run ops).env.snapshot = some snap ∧ it' = electOne (run ops).env snap it) := by
  rcases step_full (run ops) (invariant_all_histories ops) op it it' hit hit' hid with rfl | hs | ⟨_, _, _, _, _, _, _, _, _, rfl⟩ | ⟨snap, hop, hsnap, h⟩
  · exact Or.inl ⟨rfl, rfl⟩
  · exact Or.inl ⟨hs.2.1, hs.2.2.1⟩
  · exact Or.inl ⟨rfl, rfl⟩
  · exact Or.inr ⟨hop, snap, hsnap, h⟩

/-- **fees_provenance** (clause 3 over whole histories).  For every message in the queue after ANY
history (`FeeProv`): either no estimate is elected and no fees are attached; or gas estimation is required
for it, its elected estimate `g` is non-zero, and the history contains an end-block step
(`pre ++ endBlock :: post`) at which the message — then without elected estimate — reached quorum on `g`
among the estimates it then held under the snapshot of `run pre`, and
* for a fee-paying message the attached fees are exactly what `GetCombinedFeesForRelay` +
  `calculateFeesForEstimate` (`feesFor`) computed from `g`, the ASSIGNEE's multiplier and the
  treasury rates of the environment of `run pre`;
* for the other kinds no fees are attached.
Nothing else ever writes these fields, and they are written once. -/
theorem fees_provenance (ops : List Op) :
    ∀ it ∈ (run ops).queue, FeeProv ops it.id it.kind it.assignee it.reqEst it.elected it.fees := by
  induction ops using snoc_induction with
  | h0 => intro it hit; simp [run] at hit
  | hs ops op ih =>
    intro it' hit'
    rw [run_snoc] at hit'
    rcases step_new (run ops) op it' hit' with ⟨it, hit, hid⟩ | ⟨_, sd, hnew, _⟩
    · have hprev := feeProv_extend op (ih it hit)
      rcases step_full (run ops) (invariant_all_histories ops) op it it' hit hit' hid.symm with rfl | hs | ⟨_, _, _, _, _, _, _, _, _, rfl⟩ | ⟨snap, hop, hsnap, rfl⟩
      · exact hprev
      · obtain ⟨⟨h1, h2, _, _, h5, _, h7⟩, h8, h9, _⟩ := hs
        rw [h1, h2, h5, h7, h8, h9]; exact hprev
      · exact hprev
      · rcases electOne_spec (run ops).env snap it with he | ⟨hreq, h0, g, hv, hg, ⟨hk, f, hf, he⟩ | ⟨hk, he⟩⟩
        · rw [he]; exact hprev
        · rw [he]
          exact Or.inr ⟨hreq, hg, ops, [], it, snap, by rw [hop], hit, rfl, h0, hsnap, hv, Or.inl ⟨hk, f, rfl, hf⟩⟩
        · rw [he]
          have hnone : it.fees = none := by
            rcases ih it hit with ⟨_, h⟩ | ⟨_, h, _⟩
            · exact h
            · exact absurd h0 h
          exact Or.inr ⟨hreq, hg, ops, [], it, snap, by rw [hop], hit, rfl, h0, hsnap, hv, Or.inr ⟨hk, hnone⟩⟩
    · rw [hnew]
      exact Or.inl ⟨rfl, rfl⟩

/-- **elected_immutable_hist** (clause 3, "written once" — over whole histories).  Once a message has an
elected estimate, its elected estimate and its attached fees are the same at every later point of every
history: later estimates, later end-block steps, later changes of the fee table, of the treasury rates or of
the snapshot never touch them.  Together with `fees_provenance` (before the election both are empty) and
`elected_and_fees_written_only_by_endBlock`: the two fields are written exactly once, by one end-block step. -/
theorem elected_immutable_hist (pre post : List Op) (it it' : Item) (hit : it ∈ (run pre).queue)
    (hit' : it' ∈ (run (pre ++ post)).queue) (hid : it'.id = it.id) (hel : it.elected ≠ 0) :
    it'.elected = it.elected ∧ it'.fees = it.fees := by
  induction post using snoc_induction generalizing it' with
  | h0 =>
    rw [List.append_nil] at hit'
    have := uniq_id (invariant_all_histories pre).2.2 hit' hit hid
    subst this
    exact ⟨rfl, rfl⟩
  | hs post op ih =>
    rw [← List.append_assoc, run_snoc] at hit'
    rcases step_new (run (pre ++ post)) op it' hit' with ⟨it1, hit1, hid1⟩ | ⟨hnew, _⟩
    · obtain ⟨e1, f1⟩ := ih it1 hit1 (by rw [hid1, hid])
      rcases step_full (run (pre ++ post)) (invariant_all_histories _) op it1 it' hit1 hit' hid1.symm with
        heq | hs | ⟨v, a, b, f, w, key, _, _, _, heq⟩ | ⟨snap, _, _, heq⟩
      · rw [heq]; exact ⟨e1, f1⟩
      · exact ⟨by rw [hs.2.1, e1], by rw [hs.2.2.1, f1]⟩
      · rw [heq]; exact ⟨e1, f1⟩
      · rcases electOne_spec (run (pre ++ post)).env snap it1 with he | ⟨_, h0, _⟩
        · rw [heq, he]; exact ⟨e1, f1⟩
        · exact absurd (e1 ▸ h0) hel
    · exfalso
      have h1 := (invariant_all_histories pre).2.2.2 it hit
      have h2 : (run pre).nextId ≤ (run (pre ++ post)).nextId := by
        rw [run_append]; exact nextId_mono_foldl post _
      omega

/-- **attached_fees_are_ceil** (clause 3, complete, over whole histories).  Whenever a queued message carries
fees `(r, cf, sf)` — in the state reached by any history — there is an end-block step in the history at
which they were computed: with `m` the positive relayer multiplier on record for the message's ASSIGNEE,
`c`, `s` the positive community / security rates (18-decimal fixed point) of the environment at that
step, and `g` the message's elected (non-zero, quorum-backed) gas estimate:
`r = ⌈m·g⌉`, `cf = ⌈c·r⌉`, `sf = ⌈s·r⌉` (as exact two-sided bounds), everything fits `uint64`.
The message is fee-paying. -/
theorem attached_fees_are_ceil (ops : List Op) (it : Item) (hit : it ∈ (run ops).queue) (r cf sf : Nat)
    (hf : it.fees = some (r, cf, sf)) :
    it.kind.feePayer = true ∧ it.elected ≠ 0 ∧
    ∃ pre post m, ops = pre ++ Op.endBlock :: post ∧
      assoc? (run pre).env.fees it.assignee = some m ∧ 0 < m ∧
      0 < (run pre).env.community ∧ 0 < (run pre).env.security ∧
      P * ((r : Int) - 1) < m * it.elected ∧ m * it.elected ≤ P * r ∧
      P * ((cf : Int) - 1) < (run pre).env.community * r ∧ (run pre).env.community * r ≤ P * cf ∧
      P * ((sf : Int) - 1) < (run pre).env.security * r ∧ (run pre).env.security * r ≤ P * sf ∧
      r < U64 ∧ cf < U64 ∧ sf < U64 := by
  rcases fees_provenance ops it hit with ⟨_, h⟩ | ⟨_, hg, pre, post, it0, snap, he, _, _, _, _, _, ⟨hk, f, hff, hfor⟩ | ⟨_, h⟩⟩
  · rw [h] at hf; cases hf
  · rw [hf] at hff
    injection hff with hff
    subst hff
    obtain ⟨m, hm, hm0, hc0, hs0, hcalc⟩ := feesFor_spec hfor
    obtain ⟨a1, a2, a3, a4, a5, a6, a7, a8, a9, a10, a11, a12⟩ := fees_formula _ _ _ _ _ _ _ hcalc
    exact ⟨hk, hg, pre, post, m, he, hm, by omega, by omega, by omega, a4, a5, a6, a7, a8, a9, a10, a11, a12⟩
  · rw [h] at hf; cases hf

/-- **offered_fee_payer_carries_ceil_fees** (clauses 2 + 3 together).  A fee-paying message that requires gas
estimation (every message that enters through `enqueue` does) is offered for relay — in any reachable
state — only to its assignee and only with fees attached (the ceil fees of `attached_fees_are_ceil`). -/
theorem offered_fee_payer_carries_ceil_fees (ops : List Op) (v : Nat) (it : Item) (hit : it ∈ (run ops).queue)
    (hoff : it.id ∈ offered (run ops).queue v) (hk : it.kind.feePayer = true) (hreq : it.reqEst = true) :
    it.assignee = v ∧ ∃ f, it.fees = some f := by
  obtain ⟨pre, it', post, hq, hid, _, _, _, hel, ha, _⟩ := (offered_iff _ v it.id).mp hoff
  have hmem : it' ∈ (run ops).queue := by rw [hq]; simp
  have e : it' = it := uniq_id (invariant_all_histories ops).2.2 hmem hit hid
  subst e
  have hpos := hel hreq
  rcases fees_provenance ops it' hit with ⟨h0, _⟩ | ⟨_, _, _, _, _, _, _, _, _, _, _, _, ⟨_, f, hf, _⟩ | ⟨hk', _⟩⟩
  · omega
  · exact ⟨ha, f, hf⟩
  · rw [hk] at hk'; cases hk'

/-- **offered_requires_elected_no_put** (clause 2 "only once its gas estimate … is elected", for every message
the producers of /repo enqueue; cited by C05 in place of a hard-coded flag).  In a history without the
keeper-level `put`, a message the relay query offers — to anybody, of any kind, validator-set updates and
compass hand-overs included — requires estimation AND has a non-zero elected estimate. -/
theorem offered_requires_elected_no_put (ops : List Op)
    (hnoput : ∀ o ∈ ops, ∀ k c sd a r q, o ≠ Op.put k c sd a r q)
    (v : Nat) (it : Item) (hit : it ∈ (run ops).queue) (hoff : it.id ∈ offered (run ops).queue v) :
    it.reqEst = true ∧ it.elected ≠ 0 := by
  have hreq := no_put_all_require_estimation ops hnoput it hit
  obtain ⟨pre, it', post, hq, hid, _, _, _, hel, _, _⟩ := (offered_iff _ v it.id).mp hoff
  have hmem : it' ∈ (run ops).queue := by rw [hq]; simp
  have e : it' = it := uniq_id (invariant_all_histories ops).2.2 hmem hit hid
  subst e
  have := hel hreq
  exact ⟨hreq, by omega⟩

/-- **offered_fee_payer_carries_ceil_fees_no_put** (clauses 2 + 3 composed, no side condition on the message).
In a history without the keeper-level `put`, a fee-paying message that is offered for relay is offered to
its assignee and carries fees `(r, cf, sf)` which are the ceil fees of `attached_fees_are_ceil`: computed at
an end-block step of the history from the assignee's positive multiplier, the positive treasury rates of
that moment and the elected estimate. -/
theorem offered_fee_payer_carries_ceil_fees_no_put (ops : List Op)
    (hnoput : ∀ o ∈ ops, ∀ k c sd a r q, o ≠ Op.put k c sd a r q)
    (v : Nat) (it : Item) (hit : it ∈ (run ops).queue)
    (hoff : it.id ∈ offered (run ops).queue v) (hk : it.kind.feePayer = true) :
    it.assignee = v ∧ it.elected ≠ 0 ∧ ∃ r cf sf, it.fees = some (r, cf, sf) ∧
      ∃ pre post m, ops = pre ++ Op.endBlock :: post ∧
        assoc? (run pre).env.fees it.assignee = some m ∧ 0 < m ∧
        0 < (run pre).env.community ∧ 0 < (run pre).env.security ∧
        P * ((r : Int) - 1) < m * it.elected ∧ m * it.elected ≤ P * r ∧
        P * ((cf : Int) - 1) < (run pre).env.community * r ∧ (run pre).env.community * r ≤ P * cf ∧
        P * ((sf : Int) - 1) < (run pre).env.security * r ∧ (run pre).env.security * r ≤ P * sf ∧
        r < U64 ∧ cf < U64 ∧ sf < U64 := by
  have hreq := no_put_all_require_estimation ops hnoput it hit
  obtain ⟨ha, ⟨r, cf, sf⟩, hf⟩ := offered_fee_payer_carries_ceil_fees ops v it hit hoff hk hreq
  obtain ⟨_, hel, hrest⟩ := attached_fees_are_ceil ops it hit r cf sf hf
  exact ⟨ha, hel, r, cf, sf, hf, hrest⟩

/-! ### the `uint64` boundary of the fee formula -/

/-- **mulFee_some_iff** (clause 3, exact, one product).  The `mul` closure answers `r` exactly when the
multiplier is not negative, `r = ⌈m·v⌉` (two-sided bound) and `r` fits `uint64`.  The direction from right to
left is the completeness half of `fees_formula`: a ceil that fits is the fee, and nothing else is. -/
theorem mulFee_some_iff (m : Int) (v r : Nat) :
    mulFee m v = some r ↔ 0 ≤ m ∧ P * ((r : Int) - 1) < m * v ∧ m * v ≤ P * r ∧ r < U64 := by
  constructor
  · intro h
    unfold mulFee at h
    split at h
    · cases h
    · have hk0 : 0 ≤ m := by omega
      have hx : 0 ≤ m * (v : Int) := Int.mul_nonneg hk0 (Int.natCast_nonneg v)
      obtain ⟨he, hb⟩ := toU64_spec h
      obtain ⟨h1, h2⟩ := ceilDec_spec _ hx
      rw [← he] at h1 h2
      exact ⟨hk0, h1, h2, hb⟩
  · rintro ⟨h0, h1, h2, h3⟩
    have hx : 0 ≤ m * (v : Int) := Int.mul_nonneg h0 (Int.natCast_nonneg v)
    obtain ⟨c1, c2⟩ := ceilDec_spec _ hx
    have hc : ceilDec (m * (v : Int)) = (r : Int) := by
      generalize ceilDec (m * (v : Int)) = y at c1 c2
      generalize m * (v : Int) = x at h1 h2 c1 c2
      unfold P at h1 h2 c1 c2
      omega
    unfold mulFee
    rw [if_neg (by omega), hc]
    unfold toU64
    rw [if_neg (by omega)]
    simp [h3]

/-- **mulFee_none_iff** (clause 3, the refusal side, exact threshold).  The `mul` closure fails exactly for a
negative multiplier and for a product ABOVE `(2^64 − 1)·10^18` — that is, as soon as the ceil needs 65 bits,
which includes every product strictly between `2^64 − 1` and `2^64` (whose truncated quotient still fits). -/
theorem mulFee_none_iff (m : Int) (v : Nat) :
    mulFee m v = none ↔ m < 0 ∨ P * ((U64 : Int) - 1) < m * v := by
  constructor
  · intro h
    by_cases hm : m < 0
    · exact Or.inl hm
    · right
      have h0 : 0 ≤ m := by omega
      have hx : 0 ≤ m * (v : Int) := Int.mul_nonneg h0 (Int.natCast_nonneg v)
      obtain ⟨c1, c2⟩ := ceilDec_spec _ hx
      unfold mulFee at h
      rw [if_neg hm] at h
      unfold toU64 at h
      split at h
      · rename_i hneg
        generalize ceilDec (m * (v : Int)) = y at c1 c2 hneg
        generalize m * (v : Int) = x at hx c1 c2
        unfold P at c1 c2
        omega
      · split at h
        · cases h
        · rename_i hnn hbig
          generalize ceilDec (m * (v : Int)) = y at c1 c2 hnn hbig
          generalize m * (v : Int) = x at hx c1 c2
          unfold P at c1 c2 ⊢
          unfold U64 at hbig ⊢
          omega
  · intro h
    cases hr : mulFee m v with
    | none => rfl
    | some r =>
      exfalso
      obtain ⟨h0, _, h2, h3⟩ := (mulFee_some_iff m v r).mp hr
      rcases h with h | h
      · omega
      · generalize m * (v : Int) = x at h h2
        unfold P at h h2
        unfold U64 at h h3
        omega

/-- **fee_window_is_refused.** A product strictly between `2^64 − 1` and `2^64` is refused although its integer
part fits `uint64`: rounding comes first, the range check second. -/
theorem fee_window_is_refused (m : Int) (v : Nat) (h1 : P * ((U64 : Int) - 1) < m * v) (_h2 : m * v < P * (U64 : Int)) :
    mulFee m v = none := (mulFee_none_iff m v).mpr (Or.inr h1)

/-- **calcFees_some_iff** (clause 3, exact, all three fees).  Fee attachment succeeds with `(r, cf, sf)` exactly
when `r = ⌈m·g⌉`, `cf = ⌈c·r⌉`, `sf = ⌈s·r⌉`, no multiplier is negative and every one of the three fits `uint64`. -/
theorem calcFees_some_iff (m c s : Int) (g r cf sf : Nat) :
    calcFees m c s g = some (r, cf, sf) ↔
      (0 ≤ m ∧ P * ((r : Int) - 1) < m * g ∧ m * g ≤ P * r ∧ r < U64) ∧
      (0 ≤ c ∧ P * ((cf : Int) - 1) < c * r ∧ c * r ≤ P * cf ∧ cf < U64) ∧
      (0 ≤ s ∧ P * ((sf : Int) - 1) < s * r ∧ s * r ≤ P * sf ∧ sf < U64) := by
  rw [← mulFee_some_iff, ← mulFee_some_iff, ← mulFee_some_iff]
  unfold calcFees
  constructor
  · intro h
    split at h
    · cases h
    · rename_i r' hr
      split at h
      · cases h
      · rename_i cf' hc
        split at h
        · cases h
        · rename_i sf' hsf
          injection h with h
          injection h with h1 h2
          injection h2 with h2 h3
          subst h1 h2 h3
          exact ⟨hr, hc, hsf⟩
  · rintro ⟨h1, h2, h3⟩
    simp [h1, h2, h3]

/-- **calcFees_none_iff** (clause 3, refusal, exact).  Fee attachment fails exactly when one of the three
products has a negative multiplier or lies above `(2^64 − 1)·10^18` (`r` is the relayer fee `⌈m·g⌉`). -/
theorem calcFees_none_iff (m c s : Int) (g : Nat) :
    calcFees m c s g = none ↔
      (m < 0 ∨ P * ((U64 : Int) - 1) < m * g) ∨
      ∃ r, mulFee m g = some r ∧
        ((c < 0 ∨ P * ((U64 : Int) - 1) < c * r) ∨ (s < 0 ∨ P * ((U64 : Int) - 1) < s * r)) := by
  rw [← mulFee_none_iff]
  unfold calcFees
  cases hr : mulFee m g with
  | none => simp
  | some r =>
    simp only [reduceCtorEq, false_or, Option.some.injEq, exists_eq_left']
    rw [← mulFee_none_iff, ← mulFee_none_iff]
    cases hc : mulFee c r with
    | none => simp
    | some cf =>
      cases hs : mulFee s r with
      | none => simp
      | some sf => simp

/-- **unpayable_election_changes_nothing** (clauses 2 + 3 at the boundary, one end-block step).  A fee-paying
message whose estimates reach quorum on `g` while the assignee's multiplier `m` gives a relayer fee beyond
`uint64` (`m·g > (2^64 − 1)·10^18`) is left exactly as it was by the end-block step: no estimate is elected, no
fees are attached, so (by `offered_iff`) it is not offered. -/
theorem unpayable_election_changes_nothing (env : Env) (snap : Snap) (it : Item) (hk : it.kind.feePayer = true)
    (g : Nat) (m : Int) (hv : Paloma.Libcons.verifyGasEstimates (libSnap snap) it.estimates = .elected g)
    (hm : assoc? env.fees it.assignee = some m) (hbig : P * ((U64 : Int) - 1) < m * g) :
    electOne env snap it = it := by
  by_cases hch : electOne env snap it = it
  · exact hch
  · exfalso
    obtain ⟨g', m', f, hv', hm', _, hcalc, _⟩ := elected_fees_attached env snap it hk hch
    rw [hv] at hv'
    injection hv' with hg
    subst hg
    rw [hm] at hm'
    injection hm' with hmm
    subst hmm
    have : calcFees m env.community env.security g = none :=
      (calcFees_none_iff _ _ _ _).mpr (Or.inl (Or.inr hbig))
    rw [this] at hcalc
    cases hcalc

/-- **attached_fees_are_positive** (consequence of clause 3 over whole histories).  Fees attached to a queued
message are never zero: the multiplier and both rates are positive and the elected estimate is at least 1, so
each ceil is at least 1. -/
theorem attached_fees_are_positive (ops : List Op) (it : Item) (hit : it ∈ (run ops).queue) (r cf sf : Nat)
    (hf : it.fees = some (r, cf, sf)) : 1 ≤ r ∧ 1 ≤ cf ∧ 1 ≤ sf := by
  obtain ⟨_, hel, pre, _, m, _, _, hm, hc, hs, _, a2, _, a4, _, a6, _⟩ := attached_fees_are_ceil ops it hit r cf sf hf
  have hg : (0 : Int) < (it.elected : Int) := by omega
  have h1 : 0 < m * (it.elected : Int) := Int.mul_pos hm hg
  have hr : 1 ≤ r := by
    generalize m * (it.elected : Int) = x at h1 a2
    unfold P at a2
    omega
  have hr' : (0 : Int) < (r : Int) := by omega
  have h2 : 0 < (run pre).env.community * (r : Int) := Int.mul_pos hc hr'
  have h3 : 0 < (run pre).env.security * (r : Int) := Int.mul_pos hs hr'
  refine ⟨hr, ?_, ?_⟩
  · generalize (run pre).env.community * (r : Int) = x at h2 a4
    unfold P at a4
    omega
  · generalize (run pre).env.security * (r : Int) = x at h3 a6
    unfold P at a6
    omega

/-- **offeredCarrying_spec.** What the relay answer is compared with in the line protocol (`relayf`): every entry
of `offeredCarrying` is an offered message of the queue with exactly its elected estimate and fees. -/
theorem offeredCarrying_spec (q : List Item) (v : Nat) (e : Nat × Nat × Option (Nat × Nat × Nat))
    (h : e ∈ offeredCarrying q v) :
    e.1 ∈ offeredPage q v ∧ ∃ it ∈ q, it.id = e.1 ∧ it.elected = e.2.1 ∧ it.fees = e.2.2 := by
  unfold offeredCarrying at h
  obtain ⟨id, hid, hm⟩ := List.mem_filterMap.mp h
  cases hg : getItem q id with
  | none => rw [hg] at hm; cases hm
  | some it =>
    rw [hg] at hm
    simp only [Option.map_some, Option.some.injEq] at hm
    unfold getItem at hg
    have hmem := List.mem_of_find?_eq_some hg
    have hp := List.find?_some hg
    have hidd : it.id = id := by simpa using hp
    subst hm
    exact ⟨by simpa [hidd] using hid, it, hmem, rfl, rfl, rfl⟩

/-- **narrow_before_rounding_breaks_formula** (sensitivity witness).  A `mul` closure that range-checks the
truncated quotient first and rounds up afterwards on the `uint64` agrees with the code that exists on every
product at or below `2^64 − 1` and at or above `2^64`, and answers a fee of 0 on a product in between
(multiplier 9223372036854775807.75, two gas): it violates `mulFee_some_iff` / `fees_formula`, the real closure
refuses. -/
theorem narrow_before_rounding_breaks_formula :
    mulFeeNarrowFirst 9223372036854775807750000000000000000 2 = some 0 ∧
    mulFee 9223372036854775807750000000000000000 2 = none ∧
    mulFeeNarrowFirst 18446744073709551615000000000000000001 1 = some 0 ∧
    mulFee 18446744073709551615000000000000000001 1 = none ∧
    mulFeeNarrowFirst 18446744073709551615000000000000000000 1 = mulFee 18446744073709551615000000000000000000 1 ∧
    mulFeeNarrowFirst 18446744073709551616000000000000000000 1 = mulFee 18446744073709551616000000000000000000 1 ∧
    mulFeeNarrowFirst 1250000000000000000 21000 = mulFee 1250000000000000000 21000 := by decide

/-- **reassigned_message_carries_current_account** (clause 1 for every LATER assignment: "the assignee's account on the
target chain in the current snapshot is the relayer address the message carries").  After a successful run of
`ReassignOrphanedMessages` at any block time, over any environment, every stale message without delivery / error report —
whoever held it before, the validator picked now included — is assigned to a validator of the CURRENT snapshot with fee
and metrics on record, and the relayer address it carries is the address of that validator's first target-chain account
in the current snapshot, which carries the MEV trait when the job demands it. -/
theorem reassigned_message_carries_current_account (s : State) (ts : Nat) (flags : JobFlags)
    (hok : (reassign s ts flags).2 = true) (it' : Item) (hit : it' ∈ (reassign s ts flags).1.queue)
    (hstale : (assoc? flags it'.id).isSome = true) (hpub : it'.pub = false) (herr : it'.err = false) :
    (reassign s ts flags).1.env = s.env ∧
    ∃ snap, s.env.snapshot = some snap ∧
      ∃ sv ∈ snap.vals, sv.id = it'.assignee ∧
        ∃ a ∈ sv.accounts, a.chain = targetChain ∧ a.addr = it'.remote ∧ (mevDemanded flags it'.id = true → a.mev = true) ∧
          (assoc? s.env.fees it'.assignee).isSome ∧ (assoc? s.env.metrics it'.assignee).isSome :=
  ⟨rfl, pick_eligible s.env _ ts _ _ (reassignAux_carries_pick s.env ts flags s.queue hok it' hit hstale hpub herr)⟩

/-- **reassign_touches_only_the_relayer.**  Position by position the queue after the loop (successful or not) is the
queue before it up to assignee and relayer address: ids, kinds, senders, estimates, elected estimate, fees, signatures,
evidence and reports are untouched (the C04 side of it is `reassign_keeps_elected` in Props/C04.lean; that the signatures
stay although the relayer address is part of the signing bytes is the C06 remark on `reassignDead`). -/
theorem reassign_touches_only_the_relayer (s : State) (ts : Nat) (flags : JobFlags) :
    (reassign s ts flags).1.queue.map (fun it => { it with assignee := 0, remote := 0 }) =
      s.queue.map (fun it => { it with assignee := 0, remote := 0 }) ∧
    (reassign s ts flags).1.nextId = s.nextId ∧ (reassign s ts flags).1.regs = s.regs :=
  ⟨reassignAux_rest s.env ts flags s.queue, rfl, rfl⟩

/-- **retry_is_assigned_by_the_current_pick** (clause 1 for the retry of a failed job: "carries the MEV trait when the
job demands it").  Every message in the queue after `CheckAndProcessAttestedMessages` was there before, or is the retry of
a logic call `it` that was there, has retries left and whose failure reached consensus: the SAME job (payload, sender) and
assigned, in the environment of that moment, to a snapshot validator with fee and metrics on record whose first
target-chain account provides the relayer address and carries the MEV trait when the job of `it` demands it. -/
theorem retry_is_assigned_by_the_current_pick (s : State) (ts : Nat) (flags : JobFlags) (x : Item)
    (hx : x ∈ (attest s ts flags).queue) :
    x ∈ s.queue ∨
      ∃ it ∈ s.queue, it.kind = .slc ∧ retryLeft flags it.id = true ∧ x.kind = .slc ∧ x.content = it.content ∧ x.sender = it.sender ∧
        s.nextId < x.id ∧
        ∃ snap, s.env.snapshot = some snap ∧
          ∃ sv ∈ snap.vals, sv.id = x.assignee ∧
            ∃ a ∈ sv.accounts, a.chain = targetChain ∧ a.addr = x.remote ∧ (mevDemanded flags it.id = true → a.mev = true) ∧
              (assoc? s.env.fees x.assignee).isSome ∧ (assoc? s.env.metrics x.assignee).isSome := by
  rcases (attestFold_spec ts flags s.queue s).2.2 x hx with h | ⟨hlt, _, _, hk, it, hit, hik, hrl, hc, hsd, hp⟩
  · exact Or.inl h
  · exact Or.inr ⟨it, hit, hik, hrl, hk, hc, hsd, hlt, pick_eligible s.env _ ts _ _ hp⟩

/-! ### non-vacuity -/

def demoEnv : Env :=
  { snapshot := some { vals := [⟨1, 5, [⟨0, 4, 4, false⟩]⟩, ⟨2, 5, [⟨1, 9, 9, true⟩, ⟨0, 8, 8, true⟩]⟩, ⟨3, 5, []⟩], total := 15 },
    metrics := [(1, ⟨P, P / 2, 0, 0⟩), (2, ⟨P, P / 2, 0, P⟩), (3, ⟨P, P / 2, 0, 0⟩)],
    fees := [(1, 1100000000000000000), (2, 1500000000000000000)],
    community := 30000000000000000, security := 10000000000000000 }

-- validator 1 is cheaper and wins slot 0; the MEV job can only go to validator 2; validator 3 has no account
example : pick demoEnv false 0 = some (1, 4) ∧ pick demoEnv false 1 = some (2, 8) ∧ pick demoEnv true 0 = some (2, 8) := by decide
example : pick { demoEnv with fees := [(3, P)] } false 0 = none := by decide
example : calcFees 1100000000000000000 30000000000000000 10000000000000000 21001 = some (23102, 694, 232) := by decide
example : calcFees 18446744073709551615000000000000000001 1 1 1 = none := by decide
-- the window (2^64 − 1, 2^64): the hypotheses of `fee_window_is_refused` are met by 9223372036854775807.75 × 2; the
-- same product refuses the attachment at each of the three stages; the largest payable fee is attached
example : P * ((U64 : Int) - 1) < 9223372036854775807750000000000000000 * ((2 : Nat) : Int) ∧
    9223372036854775807750000000000000000 * ((2 : Nat) : Int) < P * (U64 : Int) := by decide
example : calcFees 9223372036854775807750000000000000000 P P 2 = none ∧
    calcFees P 9223372036854775807750000000000000000 P 2 = none ∧
    calcFees P P 9223372036854775807750000000000000000 2 = none := by decide
example : calcFees 18446744073709551615000000000000000000 1 1 1 = some (18446744073709551615, 19, 19) ∧
    calcFees 9223372036854775807500000000000000000 P P 2 = some (18446744073709551615, 18446744073709551615, 18446744073709551615) := by decide

def demoQ : List Item :=
  [ { id := 1, kind := .slc, content := 1, sender := 7, assignee := 1, remote := 4, reqEst := true },
    { id := 2, kind := .slc, content := 2, sender := 7, assignee := 2, remote := 8, reqEst := true, elected := 21000 },
    { id := 3, kind := .valset, content := 3, sender := 0, assignee := 2, remote := 8, reqEst := true, elected := 5 },
    { id := 4, kind := .uusc, content := 4, sender := 7, assignee := 2, remote := 8, reqEst := false } ]

-- message 1 (no estimate yet, other assignee) still blocks message 2 of the same sender; 4 is behind the valset update
example : offered demoQ 2 = [3] ∧ offered demoQ 1 = [] := by decide
example : offered (demoQ.drop 1) 2 = [2, 3] := by decide

/-- two uploads and a logic call of one sender, all assigned to validator 2 and ready -/
def demoUU : List Item :=
  [ { id := 1, kind := .uusc, content := 1, sender := 7, assignee := 2, remote := 8, reqEst := false },
    { id := 2, kind := .uusc, content := 2, sender := 7, assignee := 2, remote := 8, reqEst := false },
    { id := 3, kind := .slc, content := 3, sender := 7, assignee := 2, remote := 8, reqEst := false },
    { id := 4, kind := .uusc, content := 4, sender := 0, assignee := 2, remote := 8, reqEst := false } ]

-- one message per sender (the empty sender is not a sender) …
example : offered demoUU 2 = [1, 4] := by decide
/-- **pre-fix witness (be3dcb4f).** With the filter that only looked at SubmitLogicCall all three messages
of sender 7 were offered at once: the clause "never while an older message from the same sender is
still pending" failed for uploads. -/
example : offeredWith senderMsgPreFix demoUU 2 = [1, 2, 3, 4] := by decide


/-- a validator-set update deep in the queue: three older messages wait for other relayers, the update
(id 4) follows, message 5 is ready for validator 1 — and is not offered until the update is gone -/
def demoDeep : List Op :=
  [ .put .other 1 0 2 8 false, .put .other 2 0 2 8 true, .put .slc 3 0 3 12 true, .put .valset 4 0 2 8 false,
    .put .slc 5 7 1 4 false ]

example : offeredPage (run demoDeep).queue 1 = [] ∧ offeredPage (run demoDeep).queue 2 = [1, 4] ∧
    offeredPage (run (demoDeep ++ [.remove 4])).queue 1 = [5] := by decide

/-! ### non-vacuity over histories (everything through `run` from the initial state) -/

/-- two logic calls of sender 9 enter through the relayer pick (the second demands MEV), message 1 gets
three estimates, the end-block step elects 21000 and attaches validator 1's fees -/
def demoHist : List Op :=
  [ .setEnv demoEnv, .enqueue .slc 7 9 false 0, .enqueue .slc 8 9 true 0,
    .addEstimate 1 1 21000, .addEstimate 1 2 21000, .addEstimate 1 3 21001, .endBlock ]

example : ((run demoHist).queue.map fun it => (it.id, it.assignee, it.remote)) = [(1, 1, 4), (2, 2, 8)] ∧
    ((run demoHist).queue.map fun it => (it.elected, it.fees)) = [(21000, some (23100, 693, 231)), (0, none)] ∧
    (run demoHist).queue.all (·.reqEst) = true := by decide
-- message 1 is offered to its assignee only; message 2 (same sender, older one unreported) to nobody — not even
-- after its own estimate is elected (fees under validator 2's multiplier 1.5) — until message 1 is reported
example : offered (run demoHist).queue 1 = [1] ∧ offered (run demoHist).queue 2 = [] := by decide
example : ((run (demoHist ++ [.addEstimate 2 1 20000, .addEstimate 2 2 20000, .endBlock])).queue.map
      fun it => (it.id, it.elected, it.fees)) = [(1, 21000, some (23100, 693, 231)), (2, 20000, some (30000, 900, 300))] ∧
    offered (run (demoHist ++ [.addEstimate 2 1 20000, .addEstimate 2 2 20000, .endBlock])).queue 2 = [] ∧
    offered (run (demoHist ++ [.addEstimate 2 1 20000, .addEstimate 2 2 20000, .endBlock, .setPublic 1])).queue 2 = [2] := by decide
-- before the election nothing is offered; estimates after the election and a later change of the fee table do not touch the fees
example : offered (run (demoHist.take 6)).queue 1 = [] ∧
    ((run (demoHist ++ [.setEnv { demoEnv with fees := [(1, 5 * P)] }, .addEstimate 1 9 5, .endBlock])).queue.map
      fun it => (it.elected, it.fees)) = [(21000, some (23100, 693, 231)), (0, none)] := by decide
-- a request nobody qualifies for (MEV demanded, the only MEV relayer has no fee record) fails and changes nothing
example : (run [.setEnv { demoEnv with fees := [(1, P)] }, .enqueue .slc 7 9 true 0]).queue = [] ∧
    (run [.setEnv { demoEnv with fees := [(1, P)] }, .enqueue .slc 7 9 true 0]).nextId = 0 ∧
    (run [.enqueue .slc 7 9 false 0]).queue = [] := by decide

-- `demoHist` never uses the keeper-level `put`: `every_message_assigned_by_pick` applies to it
example : ∀ o ∈ demoHist, ∀ k c sd a r q, o ≠ Op.put k c sd a r q := by
  intro o ho k c sd a r q h
  subst h
  simp [demoHist] at ho

/-- **boundary history** (`unpayable_election_changes_nothing`, non-vacuous and through `run`): validator 1 has the
multiplier 9223372036854775807.75 on record, the validators agree on 2 gas for both messages: the end-block step
elects nothing for message 1 (assigned to validator 1) and it is not offered, while message 2 (validator 2,
multiplier 1.5) is elected and offered in the same step; after validator 1 lowers its multiplier to 9223372036854775807.5 the next end-block
step elects 2 gas, attaches the largest relayer fee a `uint64` holds, and the message is offered -/
def demoBoundary : List Op :=
  [ .setEnv { demoEnv with fees := [(1, 9223372036854775807750000000000000000), (2, 1500000000000000000)] },
    .enqueue .slc 7 9 false 1, .put .slc 8 5 2 8 true,
    .addEstimate 2 1 2, .addEstimate 2 2 2, .addEstimate 2 3 2, .addEstimate 1 1 2, .addEstimate 1 2 2, .addEstimate 1 3 2,
    .endBlock ]

example : ((run demoBoundary).queue.map fun it => (it.id, it.assignee)) = [(1, 1), (2, 2)] ∧
    ((run demoBoundary).queue.map fun it => (it.id, it.elected, it.fees)) = [(1, 0, none), (2, 2, some (3, 1, 1))] ∧
    offeredCarrying (run demoBoundary).queue 1 = [] ∧ offeredCarrying (run demoBoundary).queue 2 = [(2, 2, some (3, 1, 1))] := by decide
example : offeredCarrying (run (demoBoundary ++
      [.setEnv { demoEnv with fees := [(1, 9223372036854775807500000000000000000), (2, 1500000000000000000)] }, .endBlock])).queue 1 =
    [(1, 2, some (18446744073709551615, 553402322211286549, 184467440737095517))] := by decide

/-- **zeroFee** (recorded observation, not a violation of a clause).  A fee record with multiplier 0 counts as
"a relayer fee on record" for the pick (`buildValidatorsInfos` only asks for a record, `MsgSetRelayerFee`
refuses negative values only), but `GetCombinedFeesForRelay` refuses a zero multiplier: the message assigned
to such a relayer never gets its estimate elected, so it is never offered. -/
def zeroFee : List Op :=
  [ .setEnv { demoEnv with fees := [(1, 0)] }, .enqueue .slc 7 9 false 0,
    .addEstimate 1 1 21000, .addEstimate 1 2 21000, .addEstimate 1 3 21000, .endBlock ]

example : ((run zeroFee).queue.map fun it => (it.assignee, it.elected, it.fees)) = [(1, 0, none)] ∧
    offered (run zeroFee).queue 1 = [] := by decide

/-- **SCOPE witness** for `queued_message_assignment`: the keeper-level `put` stores whatever assignee its
caller passes — here validator 99, who is in no snapshot and has no records — and the message is offered
to it.  In /repo every producer of a relayed message obtains the assignee from the pick (`enqueue`). -/
example : offered (run [.put .slc 7 1 99 4 false]).queue 99 = [1] := by decide
-- only fee-paying actions have a sender: whatever the caller passes for a validator-set update is dropped
example : ((run [.put .valset 7 5 2 8 false, .put .other 7 5 2 8 false, .put .uusc 7 5 2 8 false]).queue.map (·.sender)) = [0, 0, 5] := by decide

/-! ### validator-set updates and hand-overs through the relayer pick; assignment is "current at assignment" -/

/-- a validator-set update and a compass hand-over enter the way `PublishValsetToChain` /
`scheduleCompassHandover` enqueue them: relayer pick first (no MEV demand), estimation required -/
def demoValsetHist : List Op :=
  [ .setEnv demoEnv, .enqueue .valset 5 0 false 0, .enqueue .other 6 0 false 1,
    .addEstimate 1 1 50000, .addEstimate 1 2 50000, .endBlock ]

-- no keeper-level `put`: `every_message_assigned_by_pick`, `offered_requires_elected_no_put`, … apply to it
example : ∀ o ∈ demoValsetHist, ∀ k c sd a r q, o ≠ Op.put k c sd a r q := by
  intro o ho k c sd a r q h
  subst h
  simp [demoValsetHist] at ho

-- both are assigned to the picked validators with their snapshot accounts, both require estimation; the update is
-- offered to its assignee once 50000 is elected (no fees: not a fee payer), the hand-over behind it to nobody
example : ((run demoValsetHist).queue.map fun it => (it.id, it.kind, it.assignee, it.remote)) =
      [(1, .valset, 1, 4), (2, .other, 2, 8)] ∧
    ((run demoValsetHist).queue.map fun it => (it.reqEst, it.elected, it.fees)) = [(true, 50000, none), (true, 0, none)] ∧
    offered (run demoValsetHist).queue 1 = [1] ∧ offered (run demoValsetHist).queue 2 = [] ∧
    offered (run (demoValsetHist.take 5)).queue 1 = [] := by decide

-- "current" is current AT ASSIGNMENT: after the environment is wiped (no snapshot, no records) the message stays
-- assigned and offered to validator 1, although a new request could not pick anybody
example : offered (run (demoHist ++ [.setEnv {}])).queue 1 = [1] ∧ pick (run (demoHist ++ [.setEnv {}])).env false 0 = none := by
  decide

/-! ### FINDINGS and explicit readings (each through `run` from the initial state) -/

/-- `demoHist` continued: message 2 (same sender 9, assignee 2) gets its estimate elected, then message 1 gets its
delivery report — message 1 is STILL IN THE QUEUE (reported, not yet attested) -/
def reportedOlder : List Op :=
  demoHist ++ [.addEstimate 2 1 20000, .addEstimate 2 2 20000, .endBlock, .setPublic 1]

/-- **reported_older_message_does_not_block** (READING of "never while an older message from the same sender is
still pending"; recorded as a FINDING about the wording, behaviour of /repo confirmed).  The per-sender filter
reads "pending" as "has neither delivery nor error report": `IsUnprocessed` is `&&`-ed before
`IsOldestMsgPerSender`, so an older message that already carries a report never registers its sender.  Here the
older message 1 of sender 9 is still queued — reported by its relayer, not yet attested, so not yet paid for —
and the younger message 2 of the same sender IS offered.  The history uses request-level `enqueue` only. -/
theorem reported_older_message_does_not_block :
    ((run reportedOlder).queue.map fun it => (it.id, it.sender, it.pub, it.err)) = [(1, 9, true, false), (2, 9, false, false)] ∧
    offered (run reportedOlder).queue 2 = [2] ∧
    offered (run (reportedOlder.take 10)).queue 2 = [] := by decide

/-- **one_per_sender_still_queued_reading_false.**  FULL-STRENGTH reading "… never while an older message from
the same sender is still IN THE QUEUE" is FALSE (witness above); the true statement is
`one_per_sender_all_histories`, whose hypotheses `j.pub = false`, `j.err = false` ARE the weakening. -/
theorem one_per_sender_still_queued_reading_false :
    ¬ (∀ (ops : List Op) (v : Nat) (j it : Item), j ∈ (run ops).queue → it ∈ (run ops).queue → j.id < it.id →
        it.sender ≠ 0 → j.sender = it.sender → it.id ∉ offered (run ops).queue v) := by
  intro h
  have hq : ((run reportedOlder).queue.map fun it => (it.id, it.sender)) = [(1, 9), (2, 9)] := by decide
  cases hrun : (run reportedOlder).queue with
  | nil => rw [hrun] at hq; simp at hq
  | cons j rest =>
    cases rest with
    | nil => rw [hrun] at hq; simp at hq
    | cons it rest2 =>
      rw [hrun] at hq
      simp only [List.map_cons, List.cons.injEq, Prod.mk.injEq] at hq
      obtain ⟨⟨hj1, hj2⟩, ⟨hi1, hi2⟩, _⟩ := hq
      have := h reportedOlder 2 j it (by rw [hrun]; simp) (by rw [hrun]; simp) (by omega) (by omega) (by omega)
      apply this
      rw [hi1]
      decide

/-- **put_path_offers_fee_payer_without_fees** (SCOPE of `offered_fee_payer_carries_ceil_fees`: its `hreq`
cannot be dropped at the keeper level).  `PutMessageInQueue` with `RequireGasEstimation: false` stores a
fee-paying message that is offered at once, with no fees attached; its signing bytes carry the default fee
triple 100000.  No producer in /repo enqueues a fee-paying action that way
(`offered_fee_payer_carries_ceil_fees_no_put` is the statement for what they do enqueue). -/
theorem put_path_offers_fee_payer_without_fees :
    offered (run [.put .slc 7 1 1 4 false]).queue 1 = [1] ∧
    ((run [.put .slc 7 1 1 4 false]).queue.map fun it => (it.fees, (bytesOf it).fr, (bytesOf it).fc, (bytesOf it).fs)) =
      [(none, 100000, 100000, 100000)] := by decide

/-- the queue `demoUU` of the pre-fix witness is a reachable one -/
def demoUUOps : List Op :=
  [ .put .uusc 1 7 2 8 false, .put .uusc 2 7 2 8 false, .put .slc 3 7 2 8 false, .put .uusc 4 0 2 8 false ]

example : (run demoUUOps).queue = demoUU := by decide
/-- **pre-fix witness (be3dcb4f), through `run`.** -/
example : offeredWith senderMsgPreFix (run demoUUOps).queue 2 = [1, 2, 3, 4] ∧ offered (run demoUUOps).queue 2 = [1, 4] := by
  decide

-- `elected_immutable_hist` is not vacuous: `demoHist` elects 21000 for message 1; a later fee-table change, a late
-- estimate and another end-block leave estimate and fees as they were (example above, "estimates after the election …")
example : ((run demoHist).queue.map fun it => (it.id, it.elected)) = [(1, 21000), (2, 0)] := by decide

/-! non-vacuity of the reassignment / retry theorems; `handToKeepSame` (an early exit when the validator stays) is the
    negation witness: the message keeps address 4 while the snapshot says 20 -/
def demoMoved : Env :=
  { demoEnv with snapshot := some { vals := [⟨1, 5, [⟨0, 20, 20, false⟩]⟩, ⟨2, 5, [⟨1, 9, 9, true⟩, ⟨0, 8, 8, true⟩]⟩, ⟨3, 5, []⟩], total := 15 } }

def demoStale : State := { (run demoHist) with env := demoMoved }

example : ((reassign demoStale 0 [(1, false, false), (2, true, false)]).1.queue.map fun it => (it.id, it.assignee, it.remote)) =
      [(1, 1, 20), (2, 2, 8)] ∧
    ((reassign demoStale 0 [(1, false, false), (2, true, false)]).1.queue.map fun it => (it.elected, it.fees)) =
      [(21000, some (23100, 693, 231)), (0, none)] ∧
    (reassign demoStale 0 [(1, false, false), (2, true, false)]).2 = true := by decide
example : (handToKeepSame ⟨1, .slc, 7, 9, 1, 4, true, [], 0, none, [], [], false, false⟩ (1, 20)).remote = 4 ∧
    pick demoMoved false 0 = some (1, 20) := by decide
-- the MEV job (message 2) fails with a retry left: the retry goes to the MEV validator again, at every slot
example : ((attest (run (demoHist ++ [.addEvidence 2 1 1, .addEvidence 2 2 1])) 0 [(2, true, true)]).queue.map fun it => (it.id, it.assignee, it.remote)) =
      [(1, 1, 4), (3, 2, 8)] ∧
    ((attest (run (demoHist ++ [.addEvidence 2 1 1, .addEvidence 2 2 1])) 0 [(2, false, true)]).queue.map fun it => (it.id, it.assignee, it.remote)) =
      [(1, 1, 4), (3, 1, 4)] ∧
    ((attest (run (demoHist ++ [.addEvidence 2 1 1, .addEvidence 2 2 1])) 0 [(2, true, false)]).queue.map (·.id)) = [1] := by decide
-- a failing pick stops the loop: nothing after it is touched
example : (reassign { demoStale with env := { demoMoved with fees := [] } } 0 [(1, false, false)]).2 = false := by decide

end Paloma.Queue
