/-
C09 — begin- and end-of-block processing never aborts (PARTIAL: the arithmetic and the panic
inventory of Paloma's own code are decided here; panics inside the SDK, wasm, IBC or from
resource exhaustion are outside the inventory and are only exercised by the hostile-value
fuzzing of the full application, see DESIGN.md).
-/
import PalomaModel.Gen.Panics
import PalomaModel.Gen.Atomicity

namespace Paloma.NoPanic

/-! ## model: fee arithmetic on the end-block path (x/consensus/keeper/estimate.go) -/

/-- `LegacyDec` has 18 decimals: a multiplicator is an integer scaled by 10^18; `none` is the
    zero value (nil pointer) an omitted protobuf field unmarshals to. -/
def scale : Nat := 1000000000000000000

inductive Outcome where
  | ok (v : Nat)
  | error            -- the message is skipped with an error; the block goes on
deriving Repr, DecidableEq

/-- `mul` in `calculateFeesForEstimate`: `⌈m · v⌉` as `uint64`, an *error* (never a panic) for a
    missing or negative multiplicator and for a result that does not fit. -/
def mulCeil (m : Option Int) (v : Nat) : Outcome :=
  match m with
  | none => .error
  | some mi =>
    if mi < 0 then .error
    else
      let r := (mi.toNat * v + scale - 1) / scale
      if r < 2 ^ 64 then .ok r else .error

/-- relayer fee, then community and security fee on top of it -/
def calcFees (rm cm sm : Option Int) (estimate : Nat) : Option (Nat × Nat × Nat) :=
  match mulCeil rm estimate with
  | .error => none
  | .ok r =>
    match mulCeil cm r, mulCeil sm r with
    | .ok c, .ok s => some (r, c, s)
    | _, _ => none

/-- what `MsgUpsertRelayerFee.ValidateBasic` admits -/
def admitted (m : Option Int) : Bool :=
  match m with
  | none => false
  | some mi => decide (0 ≤ mi)

/-! ## model: the per-message loops of the consensus end-blocker
(`CheckAndProcessEstimatedMessages`, `CheckAndProcessAttestedMessages`): every message is handled on
a branch of the store that is committed only when its handler succeeds; a failure is logged and the
loop goes on with the next message (regenerated fact `blockLoops`: no statement inside the loops
leaves the function with an error). `σ` is the store, `μ` a message. -/

/-- one iteration: commit the handler's branch on success, keep the store on failure -/
def loopStep {σ μ : Type} (h : σ → μ → Option σ) (s : σ) (m : μ) : σ := (h s m).getD s

/-- the loop as it is since /repo 1718b7eb (log and continue) -/
def runLoop {σ μ : Type} (h : σ → μ → Option σ) (s : σ) (ms : List μ) : σ := ms.foldl (loopStep h) s

/-- the loop as it was (return at the first failing message) — kept to state what was wrong -/
def runLoopOld {σ μ : Type} (h : σ → μ → Option σ) (s : σ) : List μ → σ
  | [] => s
  | m :: ms => match h s m with
    | none => s
    | some s' => runLoopOld h s' ms

/-! ## Property theorems (C09) -/

/-- **mulCeil_spec.** When a fee is produced it is exactly `⌈m·v⌉` and fits `uint64`; in every
other case (missing, negative, overflowing) the outcome is an error value — there is no third
possibility such as a panic. -/
theorem mulCeil_spec (m : Option Int) (v : Nat) :
    (∃ r mi, m = some mi ∧ 0 ≤ mi ∧ mulCeil m v = .ok r ∧ r < 2 ^ 64 ∧
        mi.toNat * v ≤ r * scale ∧ r * scale < mi.toNat * v + scale) ∨
    mulCeil m v = .error := by
  unfold mulCeil
  cases m with
  | none => right; rfl
  | some mi =>
    simp only
    by_cases hneg : mi < 0
    · right; simp [hneg]
    · simp only [hneg, if_false]
      by_cases hfit : (mi.toNat * v + scale - 1) / scale < 2 ^ 64
      · left
        refine ⟨_, mi, rfl, by omega, by simp [hfit], hfit, ?_, ?_⟩
        · have hs : 0 < scale := by decide
          have := Nat.div_add_mod (mi.toNat * v + scale - 1) scale
          have hm := Nat.mod_lt (mi.toNat * v + scale - 1) hs
          rw [Nat.mul_comm] at this
          omega
        · have hs : 0 < scale := by decide
          have := Nat.div_add_mod (mi.toNat * v + scale - 1) scale
          rw [Nat.mul_comm] at this
          omega
      · right; simp [hfit]

/-- **admitted_multiplicator_small_estimate_ok.** With a multiplicator admitted at submission
and an estimate whose product fits, the fee is produced (no spurious error). -/
theorem admitted_fee_produced (mi : Int) (v : Nat) (h : admitted (some mi) = true)
    (hfit : (mi.toNat * v + scale - 1) / scale < 2 ^ 64) :
    ∃ r, mulCeil (some mi) v = .ok r := by
  simp only [admitted, decide_eq_true_eq] at h
  unfold mulCeil
  have : ¬ mi < 0 := by omega
  simp [this, hfit]

/-- **mulCeil_error_iff.** The general form of the three samples below: the fee step fails exactly for
a missing multiplicator, a negative one, or a product whose ceiling does not fit 64 bits. -/
theorem mulCeil_error_iff (m : Option Int) (v : Nat) :
    mulCeil m v = .error ↔
      m = none ∨ (∃ mi, m = some mi ∧ (mi < 0 ∨ 2 ^ 64 ≤ (mi.toNat * v + scale - 1) / scale)) := by
  unfold mulCeil
  cases m with
  | none => simp
  | some mi =>
    simp only [reduceCtorEq, false_or, Option.some.injEq, exists_eq_left']
    by_cases hneg : mi < 0
    · simp [hneg]
    · simp only [hneg, if_false, false_or]
      by_cases hfit : (mi.toNat * v + scale - 1) / scale < 2 ^ 64
      · simp only [hfit, if_true, reduceCtorEq, false_iff]; omega
      · simp only [hfit, if_false, true_iff]; omega

/-- **calcFees_spec.** The three fees are produced exactly when all three steps succeed, and are then
the three ceilings (community and security fee on top of the relayer fee); otherwise the message is
skipped with an error value — `calculateFeesForEstimate` has no other outcome. -/
theorem calcFees_spec (rm cm sm : Option Int) (e : Nat) :
    (∃ r c s, calcFees rm cm sm e = some (r, c, s) ∧ mulCeil rm e = .ok r ∧ mulCeil cm r = .ok c ∧ mulCeil sm r = .ok s) ∨
    (calcFees rm cm sm e = none ∧
      (mulCeil rm e = .error ∨ ∃ r, mulCeil rm e = .ok r ∧ (mulCeil cm r = .error ∨ mulCeil sm r = .error))) := by
  unfold calcFees
  cases h1 : mulCeil rm e with
  | error => right; simp
  | ok r =>
    simp only
    cases h2 : mulCeil cm r with
    | error => right; simp [h2]
    | ok c =>
      cases h3 : mulCeil sm r with
      | error => right; simp [h3]
      | ok sf => left; exact ⟨r, c, sf, rfl, rfl, h2, h3⟩

/-- **hostile_multiplicator_is_error_not_panic.** The values that used to panic (negative,
omitted, astronomically large) all end in `.error`. -/
theorem hostile_multiplicator_is_error_not_panic (v : Nat) (hv : 0 < v) :
    mulCeil none v = .error ∧ mulCeil (some (-1)) v = .error ∧
    mulCeil (some (Int.ofNat (2 ^ 64 * scale + 1))) v = .error := by
  refine ⟨rfl, by simp [mulCeil], ?_⟩
  unfold mulCeil
  simp only [Int.ofNat_eq_natCast, Int.toNat_natCast]
  have hneg : ¬ ((2 ^ 64 * scale + 1 : Nat) : Int) < 0 := by omega
  simp only [hneg, if_false]
  have : ¬ ((2 ^ 64 * scale + 1) * v + scale - 1) / scale < 2 ^ 64 := by
    have hs : 0 < scale := by decide
    intro hlt
    have h1 : (2 ^ 64 * scale + 1) * v + scale - 1 < 2 ^ 64 * scale := by
      have := (Nat.div_lt_iff_lt_mul hs).mp hlt
      omega
    have h2 : (2 ^ 64 * scale + 1) * 1 ≤ (2 ^ 64 * scale + 1) * v := Nat.mul_le_mul_left _ hv
    omega
  simp [this]

/-- **failing_message_is_skipped.** ("values that cannot be processed are … skipped with the rest of
the block unaffected") A message whose handler fails — whatever the store looks like when its turn
comes — influences the outcome of the loop exactly as if it were not in the queue: every other
message is handled, in the same order, on the same stores. -/
theorem failing_message_is_skipped {σ μ : Type} (h : σ → μ → Option σ) (bad : μ → Bool)
    (hbad : ∀ s m, bad m = true → h s m = none) (s : σ) (ms : List μ) :
    runLoop h s ms = runLoop h s (ms.filter fun m => !bad m) := by
  induction ms generalizing s with
  | nil => rfl
  | cons m ms ih =>
    by_cases hb : bad m = true
    · have : loopStep h s m = s := by simp [loopStep, hbad s m hb]
      simp only [runLoop, List.foldl_cons, List.filter_cons, hb, Bool.not_true, Bool.false_eq_true, if_false, this]
      exact ih s
    · have hb' : bad m = false := by simpa using hb
      simp only [runLoop, List.foldl_cons, List.filter_cons, hb', Bool.not_false, if_true]
      exact ih _

/-- **every_message_gets_its_turn.** The handler of the k-th message runs on the store the earlier
messages left, whatever their handlers returned (there is no early exit). -/
theorem every_message_gets_its_turn {σ μ : Type} (h : σ → μ → Option σ) (s : σ) (pre : List μ) (m : μ) (post : List μ) :
    runLoop h s (pre ++ m :: post) = runLoop h (loopStep h (runLoop h s pre) m) post := by
  simp [runLoop, List.foldl_append]

/-- **old_loop_starved_the_rest.** What the repaired defect was: with the early return, one failing
message hides every later one (here: the second message is never handled). -/
theorem old_loop_starved_the_rest :
    runLoopOld (fun (s : List Nat) (m : Nat) => if m = 0 then none else some (m :: s)) [] [0, 7] = [] ∧
    runLoop (fun (s : List Nat) (m : Nat) => if m = 0 then none else some (m :: s)) [] [0, 7] = [7] := by decide

/-- The estimate loop with ONE cached context per queue instead of one per message (what hoisting `CacheContext()` out
of the message loop gives): `part s m` is what a failing handler had already written when it gave up; those writes stay
in the shared cache and the next successful message's `commit()` persists them. -/
def runLoopShared {σ μ : Type} (h : σ → μ → Option σ) (part : σ → μ → σ) (s : σ) (ms : List μ) : σ :=
  -- (committed state, cache content)
  (ms.foldl (fun (acc : σ × σ) m =>
      match h acc.2 m with
      | some s' => (s', s')                 -- success: commit flushes the whole cache
      | none => (acc.1, part acc.2 m)) (s, s)).1

/-- **shared_cache_leaks_partial_writes.** With a shared cache a failing message is NOT skipped "with the rest of the
block unaffected": its partial write (here: the elected estimate `100 + m` recorded before the fee computation fails)
is persisted by the next message that succeeds; with a cache per message it is not. -/
theorem shared_cache_leaks_partial_writes :
    runLoopShared (fun (s : List Nat) (m : Nat) => if m = 0 then none else some (m :: s)) (fun s m => (100 + m) :: s) [] [0, 7]
      = [7, 100] ∧
    runLoop (fun (s : List Nat) (m : Nat) => if m = 0 then none else some (m :: s)) [] [0, 7] = [7] := by decide

/-- **estimate_loop_isolates_each_message.** (decide over the regenerated facts) in the current source the estimate loop
opens its cached context inside the loop over the queue's messages, commits inside that same loop, only after the
`if err != nil { …; continue }` guard, and hands the outer context to nobody once the cached one exists — the shape
`loopStep` models (a failing message leaves the store it found). -/
theorem estimate_loop_isolates_each_message :
    (Paloma.Gen.Atomicity.cachedFunctions.any fun c =>
      c.fn == "x/consensus/keeper.Keeper.CheckAndProcessEstimatedMessages" && c.cacheLoop == "msgs" && c.commitLoop == "msgs" &&
      c.commitAfterErrorGuard && c.outerContextUses.isEmpty && !c.deferredCommit) = true := by decide

/-- **block_loops_have_no_error_exit.** (decide over the regenerated facts) both per-message loops of
the consensus end-blocker exist, are nested loops, and contain no statement that leaves the function
with an error from inside a loop — the shape `runLoop` models. -/
theorem block_loops_have_no_error_exit :
    (Paloma.Gen.Panics.blockLoops.map (·.fn) ==
       ["x/consensus/keeper.Keeper.CheckAndProcessAttestedMessages", "x/consensus/keeper.Keeper.CheckAndProcessEstimatedMessages"] &&
     Paloma.Gen.Panics.blockLoops.all (fun l => l.errorReturnsInLoops.isEmpty && decide (1 ≤ l.loops))) = true := by decide

/-! ### the panic inventory regenerated from the typed source -/

set_option maxRecDepth 100000

/-- site kinds that are harmless by construction:
    `const-abi-type` — `whoops.Must(abi.NewType(<literal>))` on constant type strings;
    `codec-own-data` — Must(Un)marshal of values the chain itself wrote;
    `narrowing-conversion-guarded` — `.Uint64()`/`.Int64()` behind an `IsUint64()`/`IsInt64()` test in the same function;
    `index-guarded` — an index / slice expression `x[…]` in a function that tests `len(x)` (index expressions
    whose index is the range / `i < len(x)` loop variable over `x` itself, over the slice `x` was allocated
    from with `make(_, len(y))`, or a `sort.Slice(x, …)` callback parameter are not listed at all). -/
def safeKinds : List String := ["const-abi-type", "codec-own-data", "narrowing-conversion-guarded", "index-guarded"]

/-- every other potentially panicking construct (where a reason rests on an invariant of another
    property's model it names the theorem; reasons that are facts about the Go code not captured by any
    model — the static type check of a queue, the pairwise construction of two lists — are read off the
    source and are part of the trusted base of this PARTIAL check) reachable from a begin/end-blocker outside a
    `recover`, with the number of its occurrences in that function and the reason it cannot fire (key = function # construct) -/
def justified : List (String × Nat × String) := [
  ("x/evm/keeper.msgSender.SendValsetMsgForChain#cmsg.(*types.Message)", 1, "the value asserted was constructed as *types.Message three lines above in the same function"),
  ("x/evm/keeper.scoreValue#val.Sub(min).Quo(max.Sub(min))", 1, "guarded by the `max.Equal(min)` short circuit"),
  ("x/evm/types.Message_SubmitLogicCall.keccak256#[32]byte(append(padding, m.SenderAddress...))", 1, "SenderAddress is an account (20) or contract (32) address set by ExecuteJob; injectSenderIntoPayload refuses > 32 bytes"),
  ("x/evm/types.Message_UploadUserSmartContract.keccak256#[32]byte(append(padding, m.SenderAddress...))", 1, "SenderAddress is the 20-byte creator address"),
  ("x/metrix/keeper.Keeper.OnConsensusMessageAttested#e.HandledAtBlockHeight.Sub(e.AssignedAtBlockHeight).Uint64()", 1, "guarded: handled >= assigned and handled <= block height are checked first"),
  ("x/metrix/keeper.Keeper.updateTelemetry#val.ExecutionTime.Int64()", 1, "median of block counts, each <= block height"),
  ("x/metrix/keeper.Keeper.updateTelemetry#val.Fee.Int64()", 1, "never set to anything but zero on the pinned tree"),
  ("x/paloma/keeper.Keeper.CheckChainVersion#panic(…)", 1, "the deliberate version gate the property exempts"),
  ("x/valset/keeper.Keeper.isNewSnapshotWorthy#sdkmath.LegacyNewDecFromInt(sortedCurrent[i].ShareCount).QuoInt(currentSnapshot.TotalShares)", 1, "no division by zero on well-formed histories: proved in C10 (`Paloma.Valset.build_never_panics`, `stored_total_pos`; the model makes the Go panic an explicit outcome `buildPanics`) under the named SDK assumption `StakingWF` (bonded => tokens > 0: TriggerSnapshotBuild is only called from valset EndBlock, which app.go orders after staking EndBlock, where only validators with consensus power >= 1 stay bonded); without it the panic is reachable in the model (`build_panics_without_assumption`)"),
  ("x/valset/keeper.Keeper.isNewSnapshotWorthy#sdkmath.LegacyNewDecFromInt(sortedNew[i].ShareCount).QuoInt(newSnapshot.TotalShares)", 1, "no division by zero on well-formed histories: proved in C10 (`Paloma.Valset.build_never_panics`, `stored_total_pos`; the model makes the Go panic an explicit outcome `buildPanics`) under the named SDK assumption `StakingWF` (bonded => tokens > 0: TriggerSnapshotBuild is only called from valset EndBlock, which app.go orders after staking EndBlock, where only validators with consensus power >= 1 stay bonded); without it the panic is reachable in the model (`build_panics_without_assumption`)"),
  ("x/valset/keeper.Keeper.isNewSnapshotWorthy#percentageCurrent.Sub(percentageNow).Abs().MustFloat64", 1, "a difference of two fractions in [0,1]"),
  ("x/valset/keeper.Keeper.isNewSnapshotWorthy#sortedNew[i]", 3, "i < len(sortedCurrent), and the function returned earlier unless both snapshots hold the same number of validators"),
  ("x/evm/keeper.Keeper.routerAttester#consensusMsg.(*types.Message)", 1, "the turnstone queue only stores *types.Message (WithStaticTypeCheck at PutMessageInQueue)"),
  ("x/evm/keeper.Keeper.validatorBalancesAttester#consensusMsg.(*types.ValidatorBalancesAttestation)", 1, "the validators-balances queue only stores that type (WithStaticTypeCheck at PutMessageInQueue)"),
  ("x/evm/keeper.updateValsetAttester.attest#actionMsg.(*types.Message)", 1, "messages of the same turnstone queue (static type check)"),
  ("x/evm/keeper.compassHandoverAttester.Execute#a.msg.Action.(*types.Message_CompassHandover)", 1, "the attester is constructed by routerAttester's type switch on this very action"),
  ("x/evm/keeper.submitLogicCallAttester.Execute#a.msg.Action.(*types.Message_SubmitLogicCall)", 1, "the attester is constructed by routerAttester's type switch on this very action"),
  ("x/evm/keeper.updateValsetAttester.Execute#a.msg.Action.(*types.Message_UpdateValset)", 1, "the attester is constructed by routerAttester's type switch on this very action"),
  ("x/evm/keeper.uploadSmartContractAttester.Execute#a.msg.Action.(*types.Message_UploadSmartContract)", 1, "the attester is constructed by routerAttester's type switch on this very action"),
  ("x/evm/keeper.uploadUserSmartContractAttester.Execute#a.msg.Action.(*types.Message_UploadUserSmartContract)", 1, "the attester is constructed by routerAttester's type switch on this very action"),
  ("x/evm/keeper.clampToZero#[]math.LegacyDec{math.LegacyZeroDec()}[0]", 1, "index 0 of a one-element literal"),
  ("x/evm/types.BuildCompassConsensus#sig.Signature[64]", 1, "signatures are stored only after VerifySignature, whose Ecrecover refuses anything but 65 bytes: C06 theorems `stored_signature_bytes_verify_as_stored`, `nonstrict_wire_refused` (wire forms `short` / `long` are refused)"),
  ("x/evm/types.BuildCompassConsensus#sig.Signature[:32]", 1, "signatures are stored only after VerifySignature, whose Ecrecover refuses anything but 65 bytes: C06 theorems `stored_signature_bytes_verify_as_stored`, `nonstrict_wire_refused` (wire forms `short` / `long` are refused)"),
  ("x/evm/types.BuildCompassConsensus#sig.Signature[32:64]", 1, "signatures are stored only after VerifySignature, whose Ecrecover refuses anything but 65 bytes: C06 theorems `stored_signature_bytes_verify_as_stored`, `nonstrict_wire_refused` (wire forms `short` / `long` are refused)"),
  ("x/evm/types.SubmitLogicCall.VerifyAgainstTX#[32]byte(append(padding, m.SenderAddress...))", 1, "SenderAddress is an account (20) or contract (32) address set by ExecuteJob; injectSenderIntoPayload refuses > 32 bytes (C17)"),
  ("x/evm/types.UploadUserSmartContract.VerifyAgainstTX#[32]byte(append(padding, m.SenderAddress...))", 1, "SenderAddress is the 20-byte creator address"),
  ("x/evm/types.ValidatorBalancesAttestation.Keccak256WithSignedMessage#m.HexAddresses[i]", 1, "ValAddresses and HexAddresses are appended pairwise by CheckExternalBalancesForChain, the only constructor")
]

def siteOk (s : Paloma.Gen.Panics.Site) : Bool :=
  safeKinds.contains s.kind || justified.any (fun j => j.1 == s.fn ++ "#" ++ s.what)

/-- how many sites of a non-safe kind carry this key in the current source (a second occurrence of a
    justified expression in the same function is a new site: the recorded count then no longer matches) -/
def unsafeSites (key : String) : Nat :=
  (Paloma.Gen.Panics.sites.filter fun s => !safeKinds.contains s.kind && s.fn ++ "#" ++ s.what == key).length

/-- **panic_inventory_covered.** In the current source, every explicit `panic`, `Must*` call,
narrowing conversion of an `sdkmath` value, `sdkmath` division, unchecked type assertion,
slice-to-array conversion and index / slice expression not bounded by its own loop, in a
function reachable from a module's Begin/EndBlock entry point (calls, function values passed on,
and the callback tables of package-level variables included) without passing a `recover`, is a
harmless kind or individually justified; and the skyway
end-blocker still installs its `recover`. A new unguarded conversion / Must / panic on the
block path makes this `decide` fail. -/
theorem panic_inventory_covered :
    (Paloma.Gen.Panics.sites.all siteOk &&
     justified.all (fun j => unsafeSites j.1 == j.2.1) &&
     Paloma.Gen.Panics.recoverGuards.contains "x/skyway.EndBlocker" &&
     Paloma.Gen.Panics.entryPoints.contains "x/consensus.AppModule.EndBlock" &&
     Paloma.Gen.Panics.entryPoints.contains "x/evm.AppModule.EndBlock" &&
     Paloma.Gen.Panics.entryPoints.contains "x/valset.AppModule.EndBlock") = true := by decide

/-! ### non-vacuity -/
example : mulCeil (some 1100000000000000000) 21000 = .ok 23100 := by decide
example : mulCeil (some 1) 1 = .ok 1 := by decide
example : runLoop (fun (s : List Nat) (m : Nat) => if m % 2 = 0 then none else some (m :: s)) [] [1, 2, 3, 4, 5] = [5, 3, 1] := by decide
example : calcFees (some 1100000000000000000) (some 10000000000000000) (some 10000000000000000) 100 = some (110, 2, 2) := by decide

end Paloma.NoPanic
