/-
C09 — begin- and end-of-block processing never aborts (PARTIAL: the arithmetic and the panic
inventory of Paloma's own code are decided here; panics inside the SDK, wasm, IBC or from
resource exhaustion are outside the inventory and are only exercised by the hostile-value
fuzzing of the full application, see DESIGN.md).
-/
import PalomaModel.Gen.Panics
import PalomaModel.Gen.Atomicity

namespace Paloma.NoPanic

/-! ## model: fee arithmetic on the end-block path (x/consensus/keeper/estimate.go) -/

/-- `LegacyDec` has 18 decimals: a multiplicator is an integer scaled by 10^18; `none` is the
    zero value (nil pointer) an omitted protobuf field unmarshals to. -/
def scale : Nat := 1000000000000000000

inductive Outcome where
  | ok (v : Nat)
  | error            -- the message is skipped with an error; the block goes on
deriving Repr, DecidableEq

/-- `mul` in `calculateFeesForEstimate`: `⌈m · v⌉` as `uint64`, an *error* (never a panic) for a
    missing or negative multiplicator and for a result that does not fit. -/
def mulCeil (m : Option Int) (v : Nat) : Outcome :=
  match m with
  | none => .error
  | some mi =>
    if mi < 0 then .error
    else
      let r := (mi.toNat * v + scale - 1) / scale
      if r < 2 ^ 64 then .ok r else .error

/-- relayer fee, then community and security fee on top of it -/
def calcFees (rm cm sm : Option Int) (estimate : Nat) : Option (Nat × Nat × Nat) :=
  match mulCeil rm estimate with
  | .error => none
  | .ok r =>
    match mulCeil cm r, mulCeil sm r with
    | .ok c, .ok s => some (r, c, s)
    | _, _ => none

/-- what `MsgUpsertRelayerFee.ValidateBasic` admits -/
def admitted (m : Option Int) : Bool :=
  match m with
  | none => false
  | some mi => decide (0 ≤ mi)

/-! ## model: the per-message loops of the consensus end-blocker
(`CheckAndProcessEstimatedMessages`, `CheckAndProcessAttestedMessages`): every message is handled on
a branch of the store that is committed only when its handler succeeds; a failure is logged and the
loop goes on with the next message (regenerated fact `blockLoops`: no statement inside the loops
leaves the function with an error). `σ` is the store, `μ` a message. -/

/-- one iteration: commit the handler's branch on success, keep the store on failure -/
def loopStep {σ μ : Type} (h : σ → μ → Option σ) (s : σ) (m : μ) : σ := (h s m).getD s

/-- the loop as it is since /repo 1718b7eb (log and continue) -/
def runLoop {σ μ : Type} (h : σ → μ → Option σ) (s : σ) (ms : List μ) : σ := ms.foldl (loopStep h) s

/-- the loop as it was (return at the first failing message) — kept to state what was wrong -/
def runLoopOld {σ μ : Type} (h : σ → μ → Option σ) (s : σ) : List μ → σ
  | [] => s
  | m :: ms => match h s m with
    | none => s
    | some s' => runLoopOld h s' ms

/-! ## model: the relay-history bookkeeping of x/metrix (`OnConsensusMessageAttested`, `PurgeRelayMetrics`), run by the
module's `EndBlock` at every height divisible by 10.  A validator's history is the list of the message ids of its relay
records in store order (the other two fields of a record play no part in the purge); the Go slice expression is modelled
with its run-time bounds check, so a panic is an explicit outcome (`none`), not something totalised away. -/
namespace Metrix

/-- `cRecordHistoryScoringWindow` -/
def window : Nat := 1000
/-- `cRecordHistoryCap` -/
def cap : Nat := 100

/-- the Go slice expression `xs[i:]`: `none` is the run-time panic "slice bounds out of range" -/
def sliceFrom {α : Type} (xs : List α) (i : Int) : Option (List α) :=
  if 0 ≤ i ∧ i.toNat ≤ xs.length then some (xs.drop i.toNat) else none

/-- the loop of `PurgeRelayMetrics` over one history: index of the first record with `MessageId >= threshold` -/
def firstInside (thr : Nat) : List Nat → Option Nat
  | [] => none
  | x :: xs => if thr ≤ x then some 0 else (firstInside thr xs).map (· + 1)

/-- one validator: keep `Records[i:]` from the first record inside the window, or nothing when there is none -/
def purgeOne (thr : Nat) (xs : List Nat) : Option (List Nat) :=
  match firstInside thr xs with
  | some i => sliceFrom xs (Int.ofNat i)
  | none => some []

def purgeAll (thr : Nat) : List (List Nat) → Option (List (List Nat))
  | [] => some []
  | h :: t =>
    match purgeOne thr h with
    | none => none
    | some a => (purgeAll thr t).map (a :: ·)

/-- `PurgeRelayMetrics`: `cache` is the highest message id attested so far (`none`: nothing attested yet) -/
def purge (cache : Option Nat) (hist : List (List Nat)) : Option (List (List Nat)) :=
  match cache with
  | none => some hist
  | some c => if c ≤ window then some hist else purgeAll (c - window) hist

/-- the relay-history part of `AppModule.EndBlock` of x/metrix: `none` = the end blocker did not come back -/
def endBlock (height : Nat) (cache : Option Nat) (hist : List (List Nat)) : Option (List (List Nat)) :=
  if height % 10 = 0 then purge cache hist else some hist

/-- `OnConsensusMessageAttested` for the assignee's history `xs`: events with impossible block heights are skipped; the
    oldest record is dropped at the cap; the nonce cache keeps the highest id -/
def record (height : Nat) (assigned handled : Int) (id : Nat) (cache : Option Nat) (xs : List Nat) : Option Nat × List Nat :=
  if handled < assigned ∨ (height : Int) < handled then (cache, xs)
  else
    ((match cache with
      | none => some id
      | some c => if c < id then some id else some c),
     (if cap ≤ xs.length then xs.drop 1 else xs) ++ [id])

section Lemmas

theorem firstInside_lt (thr : Nat) (xs : List Nat) (i : Nat) (h : firstInside thr xs = some i) : i < xs.length := by
  induction xs generalizing i with
  | nil => simp [firstInside] at h
  | cons x xs ih =>
    unfold firstInside at h
    by_cases hx : thr ≤ x
    · simp [hx] at h; subst h; simp
    · simp only [hx, if_false, Option.map_eq_some_iff] at h
      obtain ⟨j, hj, rfl⟩ := h
      have := ih j hj
      simp; omega

theorem firstInside_drop (thr : Nat) (xs : List Nat) (i : Nat) (h : firstInside thr xs = some i) :
    xs.drop i = xs.dropWhile (fun x => decide (x < thr)) := by
  induction xs generalizing i with
  | nil => simp [firstInside] at h
  | cons x xs ih =>
    unfold firstInside at h
    by_cases hx : thr ≤ x
    · simp [hx] at h; subst h
      have : ¬ x < thr := by omega
      simp [List.dropWhile, this]
    · simp only [hx, if_false, Option.map_eq_some_iff] at h
      obtain ⟨j, hj, rfl⟩ := h
      have hlt : x < thr := by omega
      simp [List.dropWhile, hlt, ih j hj]

theorem firstInside_none (thr : Nat) (xs : List Nat) : firstInside thr xs = none ↔ ∀ x ∈ xs, x < thr := by
  induction xs with
  | nil => simp [firstInside]
  | cons x xs ih =>
    unfold firstInside
    by_cases hx : thr ≤ x
    · simp [hx]; omega
    · simp [hx, ih]; omega

theorem dropWhile_all (thr : Nat) (xs : List Nat) (h : ∀ x ∈ xs, x < thr) :
    xs.dropWhile (fun x => decide (x < thr)) = [] := by
  induction xs with
  | nil => rfl
  | cons x xs ih =>
    have hx : x < thr := h x (by simp)
    simp only [List.dropWhile, hx, decide_true]
    exact ih (fun y hy => h y (by simp [hy]))

end Lemmas

end Metrix

/-! ## model: a queued message refers to a record by id; the record may be gone when the message is attested.
`SetSmartContractAsActive` looks the deployment record up (`none`: no such record) and only goes on for a record that waits
for the ownership transfer; everything else is an error VALUE, which the attest loop (`loopStep`) turns into "skipped". -/

inductive DeployStatus where
  | inFlight | waitingForTransfer | failed
deriving Repr, DecidableEq

/-- `some ()` = the contract is made the chain's active one; `none` = the message fails with an error value -/
def activate (rec : Option DeployStatus) : Option Unit :=
  match rec with
  | some .waitingForTransfer => some ()
  | _ => none

/-! ## model: a queued message carries a reference a relayer supplied (the valset id of `MsgSetPublicAccessData`); nothing
checks it at submission, the attestation looks it up (`attestTransactionIntegrity`, x/evm/keeper/attest.go).
A valset is identified by the id of the snapshot it was built from; `0` is the EMPTY valset (the zero value of the local
variable whose address the Go code hands on).  A Go pointer is an `Option`: `none` is `nil`. -/

namespace Dangling

/-- `Valset.FindSnapshotByID`: `none` = `ErrNotFound` -/
def findSnapshot (snaps : List Nat) (id : Nat) : Option Nat :=
  if snaps.contains id then some id else none

/-- the pointer `attestTransactionIntegrity` hands to `VerifyAgainstTX`: `pad = none` — the message has no public access
    data; id 0 — no lookup; an id that names no snapshot — "we need to continue": the (address of the) empty valset. -/
def selectValset (pad : Option Nat) (snaps : List Nat) : Option Nat :=
  match pad with
  | none => some 0
  | some id =>
    if id = 0 then some 0
    else
      match findSnapshot snaps id with
      | some s => some s
      | none => some 0

inductive Verdict where
  | verified | notVerified
  | panic            -- a nil pointer is dereferenced: nothing recovers between here and `AppModule.EndBlock`
deriving Repr, DecidableEq

/-- `VerifyAgainstTX` of a message kind that encodes the valset into the expected call data (`usesValset`: logic call,
    valset update, user contract, handover; a compass upload does not read it).  `builtFor`: the valset the reported
    transaction's call data was encoded with (`none`: the call data is not an encoding of the message at all). -/
def verifyAgainst (usesValset : Bool) (valset : Option Nat) (builtFor : Option Nat) : Verdict :=
  if usesValset then
    match valset with
    | none => .panic
    | some v => if builtFor = some v then .verified else .notVerified
  else if builtFor.isSome then .verified else .notVerified

def attestIntegrity (usesValset : Bool) (pad : Option Nat) (snaps : List Nat) (builtFor : Option Nat) : Verdict :=
  verifyAgainst usesValset (selectValset pad snaps) builtFor

/-- the handler the attest loop runs: a verdict other than `verified` is an error VALUE (`none`); a panic has no value at
    all, which is why `handler` is only defined through `attestIntegrity_never_panics` below: it maps `panic` to `none`
    too, and the theorem says that this case does not occur. -/
def handler (usesValset : Bool) (pad : Option Nat) (snaps : List Nat) (builtFor : Option Nat) : Option Unit :=
  if attestIntegrity usesValset pad snaps builtFor = .verified then some () else none

end Dangling

/-! ## Property theorems (C09) -/

/-- **mulCeil_spec.** When a fee is produced it is exactly `⌈m·v⌉` and fits `uint64`; in every
other case (missing, negative, overflowing) the outcome is an error value — there is no third
possibility such as a panic. -/
theorem mulCeil_spec (m : Option Int) (v : Nat) :
    (∃ r mi, m = some mi ∧ 0 ≤ mi ∧ mulCeil m v = .ok r ∧ r < 2 ^ 64 ∧
        mi.toNat * v ≤ r * scale ∧ r * scale < mi.toNat * v + scale) ∨
    mulCeil m v = .error := by
  unfold mulCeil
  cases m with
  | none => right; rfl
  | some mi =>
    simp only
    by_cases hneg : mi < 0
    · right; simp [hneg]
    · simp only [hneg, if_false]
      by_cases hfit : (mi.toNat * v + scale - 1) / scale < 2 ^ 64
      · left
        refine ⟨_, mi, rfl, by omega, by simp [hfit], hfit, ?_, ?_⟩
        · have hs : 0 < scale := by decide
          have := Nat.div_add_mod (mi.toNat * v + scale - 1) scale
          have hm := Nat.mod_lt (mi.toNat * v + scale - 1) hs
          rw [Nat.mul_comm] at this
          omega
        · have hs : 0 < scale := by decide
          have := Nat.div_add_mod (mi.toNat * v + scale - 1) scale
          rw [Nat.mul_comm] at this
          omega
      · right; simp [hfit]

/-- **admitted_multiplicator_small_estimate_ok.** With a multiplicator admitted at submission
and an estimate whose product fits, the fee is produced (no spurious error). -/
theorem admitted_fee_produced (mi : Int) (v : Nat) (h : admitted (some mi) = true)
    (hfit : (mi.toNat * v + scale - 1) / scale < 2 ^ 64) :
    ∃ r, mulCeil (some mi) v = .ok r := by
  simp only [admitted, decide_eq_true_eq] at h
  unfold mulCeil
  have : ¬ mi < 0 := by omega
  simp [this, hfit]

/-- **mulCeil_error_iff.** The general form of the three samples below: the fee step fails exactly for
a missing multiplicator, a negative one, or a product whose ceiling does not fit 64 bits. -/
theorem mulCeil_error_iff (m : Option Int) (v : Nat) :
    mulCeil m v = .error ↔
      m = none ∨ (∃ mi, m = some mi ∧ (mi < 0 ∨ 2 ^ 64 ≤ (mi.toNat * v + scale - 1) / scale)) := by
  unfold mulCeil
  cases m with
  | none => simp
  | some mi =>
    simp only [reduceCtorEq, false_or, Option.some.injEq, exists_eq_left']
    by_cases hneg : mi < 0
    · simp [hneg]
    · simp only [hneg, if_false, false_or]
      by_cases hfit : (mi.toNat * v + scale - 1) / scale < 2 ^ 64
      · simp only [hfit, if_true, reduceCtorEq, false_iff]; omega
      · simp only [hfit, if_false, true_iff]; omega

/-- **calcFees_spec.** The three fees are produced exactly when all three steps succeed, and are then
the three ceilings (community and security fee on top of the relayer fee); otherwise the message is
skipped with an error value — `calculateFeesForEstimate` has no other outcome. -/
theorem calcFees_spec (rm cm sm : Option Int) (e : Nat) :
    (∃ r c s, calcFees rm cm sm e = some (r, c, s) ∧ mulCeil rm e = .ok r ∧ mulCeil cm r = .ok c ∧ mulCeil sm r = .ok s) ∨
    (calcFees rm cm sm e = none ∧
      (mulCeil rm e = .error ∨ ∃ r, mulCeil rm e = .ok r ∧ (mulCeil cm r = .error ∨ mulCeil sm r = .error))) := by
  unfold calcFees
  cases h1 : mulCeil rm e with
  | error => right; simp
  | ok r =>
    simp only
    cases h2 : mulCeil cm r with
    | error => right; simp [h2]
    | ok c =>
      cases h3 : mulCeil sm r with
      | error => right; simp [h3]
      | ok sf => left; exact ⟨r, c, sf, rfl, rfl, h2, h3⟩

/-- **hostile_multiplicator_is_error_not_panic.** The values that used to panic (negative,
omitted, astronomically large) all end in `.error`. -/
theorem hostile_multiplicator_is_error_not_panic (v : Nat) (hv : 0 < v) :
    mulCeil none v = .error ∧ mulCeil (some (-1)) v = .error ∧
    mulCeil (some (Int.ofNat (2 ^ 64 * scale + 1))) v = .error := by
  refine ⟨rfl, by simp [mulCeil], ?_⟩
  unfold mulCeil
  simp only [Int.ofNat_eq_natCast, Int.toNat_natCast]
  have hneg : ¬ ((2 ^ 64 * scale + 1 : Nat) : Int) < 0 := by omega
  simp only [hneg, if_false]
  have : ¬ ((2 ^ 64 * scale + 1) * v + scale - 1) / scale < 2 ^ 64 := by
    have hs : 0 < scale := by decide
    intro hlt
    have h1 : (2 ^ 64 * scale + 1) * v + scale - 1 < 2 ^ 64 * scale := by
      have := (Nat.div_lt_iff_lt_mul hs).mp hlt
      omega
    have h2 : (2 ^ 64 * scale + 1) * 1 ≤ (2 ^ 64 * scale + 1) * v := Nat.mul_le_mul_left _ hv
    omega
  simp [this]

/-- **failing_message_is_skipped.** ("values that cannot be processed are … skipped with the rest of
the block unaffected") A message whose handler fails — whatever the store looks like when its turn
comes — influences the outcome of the loop exactly as if it were not in the queue: every other
message is handled, in the same order, on the same stores. -/
theorem failing_message_is_skipped {σ μ : Type} (h : σ → μ → Option σ) (bad : μ → Bool)
    (hbad : ∀ s m, bad m = true → h s m = none) (s : σ) (ms : List μ) :
    runLoop h s ms = runLoop h s (ms.filter fun m => !bad m) := by
  induction ms generalizing s with
  | nil => rfl
  | cons m ms ih =>
    by_cases hb : bad m = true
    · have : loopStep h s m = s := by simp [loopStep, hbad s m hb]
      simp only [runLoop, List.foldl_cons, List.filter_cons, hb, Bool.not_true, Bool.false_eq_true, if_false, this]
      exact ih s
    · have hb' : bad m = false := by simpa using hb
      simp only [runLoop, List.foldl_cons, List.filter_cons, hb', Bool.not_false, if_true]
      exact ih _

/-- **every_message_gets_its_turn.** The handler of the k-th message runs on the store the earlier
messages left, whatever their handlers returned (there is no early exit). -/
theorem every_message_gets_its_turn {σ μ : Type} (h : σ → μ → Option σ) (s : σ) (pre : List μ) (m : μ) (post : List μ) :
    runLoop h s (pre ++ m :: post) = runLoop h (loopStep h (runLoop h s pre) m) post := by
  simp [runLoop, List.foldl_append]

/-- **old_loop_starved_the_rest.** What the repaired defect was: with the early return, one failing
message hides every later one (here: the second message is never handled). -/
theorem old_loop_starved_the_rest :
    runLoopOld (fun (s : List Nat) (m : Nat) => if m = 0 then none else some (m :: s)) [] [0, 7] = [] ∧
    runLoop (fun (s : List Nat) (m : Nat) => if m = 0 then none else some (m :: s)) [] [0, 7] = [7] := by decide

/-- The estimate loop with ONE cached context per queue instead of one per message (what hoisting `CacheContext()` out
of the message loop gives): `part s m` is what a failing handler had already written when it gave up; those writes stay
in the shared cache and the next successful message's `commit()` persists them. -/
def runLoopShared {σ μ : Type} (h : σ → μ → Option σ) (part : σ → μ → σ) (s : σ) (ms : List μ) : σ :=
  -- (committed state, cache content)
  (ms.foldl (fun (acc : σ × σ) m =>
      match h acc.2 m with
      | some s' => (s', s')                 -- success: commit flushes the whole cache
      | none => (acc.1, part acc.2 m)) (s, s)).1

/-- **shared_cache_leaks_partial_writes.** With a shared cache a failing message is NOT skipped "with the rest of the
block unaffected": its partial write (here: the elected estimate `100 + m` recorded before the fee computation fails)
is persisted by the next message that succeeds; with a cache per message it is not. -/
theorem shared_cache_leaks_partial_writes :
    runLoopShared (fun (s : List Nat) (m : Nat) => if m = 0 then none else some (m :: s)) (fun s m => (100 + m) :: s) [] [0, 7]
      = [7, 100] ∧
    runLoop (fun (s : List Nat) (m : Nat) => if m = 0 then none else some (m :: s)) [] [0, 7] = [7] := by decide

/-- **estimate_loop_isolates_each_message.** (decide over the regenerated facts) in the current source the estimate loop
opens its cached context inside the loop over the queue's messages, commits inside that same loop, only after the
`if err != nil { …; continue }` guard, and hands the outer context to nobody once the cached one exists — the shape
`loopStep` models (a failing message leaves the store it found). -/
theorem estimate_loop_isolates_each_message :
    (Paloma.Gen.Atomicity.cachedFunctions.any fun c =>
      c.fn == "x/consensus/keeper.Keeper.CheckAndProcessEstimatedMessages" && c.cacheLoop == "msgs" && c.commitLoop == "msgs" &&
      c.commitAfterErrorGuard && c.outerContextUses.isEmpty && !c.deferredCommit) = true := by decide

/-- **block_loops_have_no_error_exit.** (decide over the regenerated facts) both per-message loops of
the consensus end-blocker exist, are nested loops, and contain no statement that leaves the function
with an error from inside a loop — the shape `runLoop` models. -/
theorem block_loops_have_no_error_exit :
    (Paloma.Gen.Panics.blockLoops.map (·.fn) ==
       ["x/consensus/keeper.Keeper.CheckAndProcessAttestedMessages", "x/consensus/keeper.Keeper.CheckAndProcessEstimatedMessages"] &&
     Paloma.Gen.Panics.blockLoops.all (fun l => l.errorReturnsInLoops.isEmpty && decide (1 ≤ l.loops))) = true := by decide

/-! ### the metrix end blocker -/

namespace Metrix

/-- **purge_one_never_panics.** ("completes without panicking … at every block height class (multiples of 10 …)") Whatever a
validator's relay history looks like — empty, wholly inside the scoring window, wholly OLDER than it, straddling it, at its
edge, ids out of order — the slice expression of the purge is within bounds: the outcome is never the panic. -/
theorem purge_one_never_panics (thr : Nat) (xs : List Nat) : (purgeOne thr xs).isSome = true := by
  unfold purgeOne
  cases h : firstInside thr xs with
  | none => rfl
  | some i =>
    have := firstInside_lt thr xs i h
    simp [sliceFrom]; omega

/-- **purge_one_spec.** What the purge keeps: the history from its first record inside the window on. -/
theorem purge_one_spec (thr : Nat) (xs : List Nat) :
    purgeOne thr xs = some (xs.dropWhile (fun x => decide (x < thr))) := by
  unfold purgeOne
  cases h : firstInside thr xs with
  | none =>
    have hall := (firstInside_none thr xs).mp h
    have : xs.dropWhile (fun x => decide (x < thr)) = [] := dropWhile_all thr xs hall
    simp [this]
  | some i =>
    have hl := firstInside_lt thr xs i h
    have hd := firstInside_drop thr xs i h
    simp only [sliceFrom, Int.ofNat_eq_natCast, Int.toNat_natCast]
    have : (0 : Int) ≤ (i : Int) ∧ i ≤ xs.length := ⟨by omega, by omega⟩
    simp [this, hd]

/-- **fully_outdated_history_is_emptied.** The class the purge exists for: a validator all of whose records are older than
the window (it relayed long ago and was never picked again) loses its whole history — an ordinary outcome, not a failure. -/
theorem fully_outdated_history_is_emptied (thr : Nat) (xs : List Nat) (h : ∀ x ∈ xs, x < thr) : purgeOne thr xs = some [] := by
  rw [purge_one_spec, dropWhile_all thr xs h]

/-- **history_inside_window_untouched.** A history that begins inside the window is kept as it is. -/
theorem history_inside_window_untouched (thr x : Nat) (xs : List Nat) (h : thr ≤ x) : purgeOne thr (x :: xs) = some (x :: xs) := by
  rw [purge_one_spec]
  have : ¬ x < thr := by omega
  simp [List.dropWhile, this]

/-- the purge over all validators comes back when every single one does -/
theorem purgeAll_isSome (thr : Nat) (hist : List (List Nat)) : (purgeAll thr hist).isSome = true := by
  induction hist with
  | nil => rfl
  | cons h t ih =>
    unfold purgeAll
    rw [purge_one_spec]
    simp [ih]

/-- **metrix_end_block_never_panics.** The relay-history part of the metrix end blocker comes back at EVERY height, for
every value of the nonce cache (none, below / at / above the window) and every set of validator histories. -/
theorem metrix_end_block_never_panics (height : Nat) (cache : Option Nat) (hist : List (List Nat)) :
    (endBlock height cache hist).isSome = true := by
  unfold endBlock purge
  split
  · cases cache with
    | none => rfl
    | some c =>
      simp only
      split
      · rfl
      · exact purgeAll_isSome _ _
  · rfl

/-- **metrix_end_block_only_every_tenth.** Heights that are not a multiple of 10 leave the histories alone. -/
theorem metrix_end_block_only_every_tenth (height : Nat) (cache : Option Nat) (hist : List (List Nat)) (h : height % 10 ≠ 0) :
    endBlock height cache hist = some hist := by
  simp [endBlock, h]

/-- **record_respects_cap.** A history never grows beyond the cap. -/
theorem record_respects_cap (height : Nat) (assigned handled : Int) (id : Nat) (cache : Option Nat) (xs : List Nat)
    (h : xs.length ≤ cap) : (record height assigned handled id cache xs).2.length ≤ cap := by
  unfold record
  split
  · exact h
  · simp only [List.length_append, List.length_cons, List.length_nil]
    split
    · simp only [List.length_drop]; unfold cap at *; omega
    · unfold cap at *; omega

/-- **negative_slice_start_is_a_panic.** The panic outcome is a real value of the model: a start index of -1 (what an
index search reports for "not found") or one past the length is refused by the bounds check. -/
theorem negative_slice_start_is_a_panic : sliceFrom [1, 2, 3] (-1) = none ∧ sliceFrom [1, 2, 3] 4 = none ∧
    sliceFrom [1, 2, 3] 3 = some [] := by decide

end Metrix

/-- **vanished_record_is_an_error_value.** A queued message whose deployment record has been deleted (or has moved on to
another state) by the time it is attested fails with an error value; together with `failing_message_is_skipped` the attest
loop treats it as absent and the rest of the block is unaffected. -/
theorem vanished_record_is_an_error_value (rec : Option DeployStatus) :
    activate rec = none ↔ rec ≠ some .waitingForTransfer := by
  cases rec with
  | none => simp [activate]
  | some s => cases s <;> simp [activate]

/-- the attest loop over handover messages, each carrying the record its contract id resolves to at that moment: the ones
whose record is gone change nothing, the others are activated in order. -/
theorem vanished_records_are_skipped (s : List Nat) (ms : List (Nat × Option DeployStatus)) :
    runLoop (fun (st : List Nat) (m : Nat × Option DeployStatus) => (activate m.2).map fun _ => m.1 :: st) s ms =
    runLoop (fun (st : List Nat) (m : Nat × Option DeployStatus) => (activate m.2).map fun _ => m.1 :: st) s
      (ms.filter fun m => !(decide (m.2 ≠ some .waitingForTransfer))) := by
  apply failing_message_is_skipped
  intro st m hb
  have : activate m.2 = none := (vanished_record_is_an_error_value m.2).mpr (by simpa using hb)
  simp [this]

/-! ### references supplied by a relayer and looked up at attestation time -/

/-- **selected_valset_is_never_nil.** Whatever valset id the public access data names — none, 0, an existing snapshot, an
id above the snapshot counter, a pruned one — and whatever snapshots exist, `VerifyAgainstTX` is handed a valset, never
`nil`. -/
theorem selected_valset_is_never_nil (pad : Option Nat) (snaps : List Nat) :
    (Dangling.selectValset pad snaps).isSome = true := by
  unfold Dangling.selectValset
  cases pad with
  | none => rfl
  | some id =>
    by_cases h0 : id = 0
    · simp [h0]
    · simp only [h0, if_false]
      cases Dangling.findSnapshot snaps id <;> rfl

/-- **dangling_valset_id_selects_the_empty_valset.** An id that names no snapshot is not an error and not a nil pointer: the
attestation goes on with the empty valset ("a snapshot may not yet exist if the chain is just being added"). -/
theorem dangling_valset_id_selects_the_empty_valset (id : Nat) (snaps : List Nat) (h : id ∉ snaps) :
    Dangling.selectValset (some id) snaps = some 0 := by
  unfold Dangling.selectValset Dangling.findSnapshot
  by_cases h0 : id = 0
  · simp [h0]
  · simp [h0, h]

/-- **known_valset_id_selects_that_snapshot.** -/
theorem known_valset_id_selects_that_snapshot (id : Nat) (snaps : List Nat) (h : id ∈ snaps) (h0 : id ≠ 0) :
    Dangling.selectValset (some id) snaps = some id := by
  unfold Dangling.selectValset Dangling.findSnapshot
  simp [h0, h]

/-- **attest_integrity_never_panics.** ("no user- or validator-supplied value can halt block production") For every valset
id a relayer can put into the public access data, every set of snapshots, every kind of message and every reported
transaction, the integrity check of the attestation ends in a verdict — verified or an error value — never in a panic. -/
theorem attest_integrity_never_panics (usesValset : Bool) (pad : Option Nat) (snaps : List Nat) (builtFor : Option Nat) :
    Dangling.attestIntegrity usesValset pad snaps builtFor ≠ .panic := by
  unfold Dangling.attestIntegrity Dangling.verifyAgainst
  have h := selected_valset_is_never_nil pad snaps
  cases hs : Dangling.selectValset pad snaps with
  | none => simp [hs] at h
  | some v =>
    cases usesValset
    · by_cases hb : builtFor.isSome = true <;> simp [hb]
    · by_cases hb : builtFor = some v <;> simp [hb]

/-- **attest_integrity_spec.** The verdict is `verified` exactly when the reported call data was encoded with the valset the
attestation selects (for a kind that does not encode the valset: when it is an encoding of the message at all). -/
theorem attest_integrity_spec (usesValset : Bool) (pad : Option Nat) (snaps : List Nat) (builtFor : Option Nat) :
    Dangling.attestIntegrity usesValset pad snaps builtFor = .verified ↔
      (if usesValset then builtFor = Dangling.selectValset pad snaps else builtFor.isSome = true) := by
  unfold Dangling.attestIntegrity Dangling.verifyAgainst
  have h := selected_valset_is_never_nil pad snaps
  cases hs : Dangling.selectValset pad snaps with
  | none => simp [hs] at h
  | some v =>
    cases usesValset
    · by_cases hb : builtFor.isSome = true <;> simp [hb]
    · by_cases hb : builtFor = some v <;> simp [hb]

/-- **dangling_reference_with_foreign_call_data_is_an_error_value.** A message whose public access data names no snapshot and
whose reported transaction was encoded with a real (non-empty) valset fails with an error value. -/
theorem dangling_reference_is_an_error_value (id v : Nat) (snaps : List Nat) (h : id ∉ snaps) (hv : v ≠ 0) :
    Dangling.handler true (some id) snaps (some v) = none := by
  unfold Dangling.handler Dangling.attestIntegrity Dangling.verifyAgainst
  rw [dangling_valset_id_selects_the_empty_valset id snaps h]
  have : ¬ (some v = some 0) := by simpa using hv
  simp [this]

/-- **dangling_references_are_skipped.** The attest loop over messages each carrying (public access valset id, valset its
reported transaction was built for): those whose reference names no snapshot while the transaction was built for a real
valset change nothing; the rest of the queue is handled as if they were not there (instance of
`failing_message_is_skipped`). -/
theorem dangling_references_are_skipped (snaps : List Nat) (s : List Nat) (ms : List (Nat × Nat × Nat)) :
    runLoop (fun (st : List Nat) (m : Nat × Nat × Nat) => (Dangling.handler true (some m.2.1) snaps (some m.2.2)).map fun _ => m.1 :: st) s ms =
    runLoop (fun (st : List Nat) (m : Nat × Nat × Nat) => (Dangling.handler true (some m.2.1) snaps (some m.2.2)).map fun _ => m.1 :: st) s
      (ms.filter fun m => !(decide (m.2.1 ∉ snaps) && decide (m.2.2 ≠ 0))) := by
  apply failing_message_is_skipped
  intro st m hb
  simp only [Bool.and_eq_true, decide_eq_true_eq] at hb
  simp [dangling_reference_is_an_error_value m.2.1 m.2.2 snaps hb.1 hb.2]

/-- **nil_valset_is_a_panic.** The panic outcome is representable: a `VerifyAgainstTX` that reads the valset and is handed
`nil` does panic, so `attest_integrity_never_panics` is a statement about `selectValset`, not about the encoding. -/
theorem nil_valset_is_a_panic (builtFor : Option Nat) : Dangling.verifyAgainst true none builtFor = .panic := by
  simp [Dangling.verifyAgainst]

/-! ### the panic inventory regenerated from the typed source -/

set_option maxRecDepth 100000

/-- site kinds that are harmless by construction:
    `const-abi-type` — `whoops.Must(abi.NewType(<literal>))` on constant type strings;
    `codec-own-data` — Must(Un)marshal of values the chain itself wrote;
    `narrowing-conversion-guarded` — `.Uint64()`/`.Int64()` behind an `IsUint64()`/`IsInt64()` test in the same function;
    `index-guarded` — an index / slice expression `x[…]` in a function that tests `len(x)` (index expressions
    whose index is the range / `i < len(x)` loop variable over `x` itself, over the slice `x` was allocated
    from with `make(_, len(y))`, or a `sort.Slice(x, …)` callback parameter are not listed at all). -/
def safeKinds : List String := ["const-abi-type", "codec-own-data", "narrowing-conversion-guarded", "index-guarded"]

/-- every other potentially panicking construct (where a reason rests on an invariant of another
    property's model it names the theorem; reasons that are facts about the Go code not captured by any
    model — the static type check of a queue, the pairwise construction of two lists — are read off the
    source and are part of the trusted base of this PARTIAL check) reachable from a begin/end-blocker outside a
    `recover`, with the number of its occurrences in that function and the reason it cannot fire (key = function # construct) -/
def justified : List (String × Nat × String) := [
  ("x/evm/keeper.msgSender.SendValsetMsgForChain#cmsg.(*types.Message)", 1, "the value asserted was constructed as *types.Message three lines above in the same function"),
  ("x/evm/keeper.scoreValue#val.Sub(min).Quo(max.Sub(min))", 1, "guarded by the `max.Equal(min)` short circuit"),
  ("x/evm/types.Message_SubmitLogicCall.keccak256#[32]byte(append(padding, m.SenderAddress...))", 1, "SenderAddress is an account (20) or contract (32) address set by ExecuteJob; injectSenderIntoPayload refuses > 32 bytes"),
  ("x/evm/types.Message_UploadUserSmartContract.keccak256#[32]byte(append(padding, m.SenderAddress...))", 1, "SenderAddress is the 20-byte creator address"),
  ("x/metrix/keeper.Keeper.OnConsensusMessageAttested#e.HandledAtBlockHeight.Sub(e.AssignedAtBlockHeight).Uint64()", 1, "guarded: handled >= assigned and handled <= block height are checked first"),
  ("x/metrix/keeper.Keeper.updateTelemetry#val.ExecutionTime.Int64()", 1, "median of block counts, each <= block height"),
  ("x/metrix/keeper.Keeper.updateTelemetry#val.Fee.Int64()", 1, "never set to anything but zero on the pinned tree"),
  ("x/paloma/keeper.Keeper.CheckChainVersion#panic(…)", 1, "the deliberate version gate the property exempts"),
  ("x/valset/keeper.Keeper.isNewSnapshotWorthy#sdkmath.LegacyNewDecFromInt(sortedCurrent[i].ShareCount).QuoInt(currentSnapshot.TotalShares)", 1, "no division by zero on well-formed histories: proved in C10 (`Paloma.Valset.build_never_panics`, `stored_total_pos`; the model makes the Go panic an explicit outcome `buildPanics`) under the named SDK assumption `StakingWF` (bonded => tokens > 0: TriggerSnapshotBuild is only called from valset EndBlock, which app.go orders after staking EndBlock, where only validators with consensus power >= 1 stay bonded); without it the panic is reachable in the model (`build_panics_without_assumption`)"),
  ("x/valset/keeper.Keeper.isNewSnapshotWorthy#sdkmath.LegacyNewDecFromInt(sortedNew[i].ShareCount).QuoInt(newSnapshot.TotalShares)", 1, "no division by zero on well-formed histories: proved in C10 (`Paloma.Valset.build_never_panics`, `stored_total_pos`; the model makes the Go panic an explicit outcome `buildPanics`) under the named SDK assumption `StakingWF` (bonded => tokens > 0: TriggerSnapshotBuild is only called from valset EndBlock, which app.go orders after staking EndBlock, where only validators with consensus power >= 1 stay bonded); without it the panic is reachable in the model (`build_panics_without_assumption`)"),
  ("x/valset/keeper.Keeper.isNewSnapshotWorthy#percentageCurrent.Sub(percentageNow).Abs().MustFloat64", 1, "a difference of two fractions in [0,1]"),
  ("x/valset/keeper.Keeper.isNewSnapshotWorthy#sortedNew[i]", 3, "i < len(sortedCurrent), and the function returned earlier unless both snapshots hold the same number of validators"),
  ("x/evm/keeper.Keeper.routerAttester#consensusMsg.(*types.Message)", 1, "the turnstone queue only stores *types.Message (WithStaticTypeCheck at PutMessageInQueue)"),
  ("x/evm/keeper.Keeper.validatorBalancesAttester#consensusMsg.(*types.ValidatorBalancesAttestation)", 1, "the validators-balances queue only stores that type (WithStaticTypeCheck at PutMessageInQueue)"),
  ("x/evm/keeper.updateValsetAttester.attest#actionMsg.(*types.Message)", 1, "messages of the same turnstone queue (static type check)"),
  ("x/evm/keeper.compassHandoverAttester.Execute#a.msg.Action.(*types.Message_CompassHandover)", 1, "the attester is constructed by routerAttester's type switch on this very action"),
  ("x/evm/keeper.submitLogicCallAttester.Execute#a.msg.Action.(*types.Message_SubmitLogicCall)", 1, "the attester is constructed by routerAttester's type switch on this very action"),
  ("x/evm/keeper.updateValsetAttester.Execute#a.msg.Action.(*types.Message_UpdateValset)", 1, "the attester is constructed by routerAttester's type switch on this very action"),
  ("x/evm/keeper.uploadSmartContractAttester.Execute#a.msg.Action.(*types.Message_UploadSmartContract)", 1, "the attester is constructed by routerAttester's type switch on this very action"),
  ("x/evm/keeper.uploadUserSmartContractAttester.Execute#a.msg.Action.(*types.Message_UploadUserSmartContract)", 1, "the attester is constructed by routerAttester's type switch on this very action"),
  ("x/evm/keeper.clampToZero#[]math.LegacyDec{math.LegacyZeroDec()}[0]", 1, "index 0 of a one-element literal"),
  ("x/evm/types.BuildCompassConsensus#sig.Signature[64]", 1, "signatures are stored only after VerifySignature, whose Ecrecover refuses anything but 65 bytes: C06 theorems `stored_signature_bytes_verify_as_stored`, `nonstrict_wire_refused` (wire forms `short` / `long` are refused)"),
  ("x/evm/types.BuildCompassConsensus#sig.Signature[:32]", 1, "signatures are stored only after VerifySignature, whose Ecrecover refuses anything but 65 bytes: C06 theorems `stored_signature_bytes_verify_as_stored`, `nonstrict_wire_refused` (wire forms `short` / `long` are refused)"),
  ("x/evm/types.BuildCompassConsensus#sig.Signature[32:64]", 1, "signatures are stored only after VerifySignature, whose Ecrecover refuses anything but 65 bytes: C06 theorems `stored_signature_bytes_verify_as_stored`, `nonstrict_wire_refused` (wire forms `short` / `long` are refused)"),
  ("x/evm/types.SubmitLogicCall.VerifyAgainstTX#[32]byte(append(padding, m.SenderAddress...))", 1, "SenderAddress is an account (20) or contract (32) address set by ExecuteJob; injectSenderIntoPayload refuses > 32 bytes (C17)"),
  ("x/evm/types.UploadUserSmartContract.VerifyAgainstTX#[32]byte(append(padding, m.SenderAddress...))", 1, "SenderAddress is the 20-byte creator address"),
  ("x/evm/types.ValidatorBalancesAttestation.Keccak256WithSignedMessage#m.HexAddresses[i]", 1, "ValAddresses and HexAddresses are appended pairwise by CheckExternalBalancesForChain, the only constructor")
]

def siteOk (s : Paloma.Gen.Panics.Site) : Bool :=
  safeKinds.contains s.kind || justified.any (fun j => j.1 == s.fn ++ "#" ++ s.what)

/-- how many sites of a non-safe kind carry this key in the current source (a second occurrence of a
    justified expression in the same function is a new site: the recorded count then no longer matches) -/
def unsafeSites (key : String) : Nat :=
  (Paloma.Gen.Panics.sites.filter fun s => !safeKinds.contains s.kind && s.fn ++ "#" ++ s.what == key).length

/-- **panic_inventory_covered.** In the current source, every explicit `panic`, `Must*` call,
narrowing conversion of an `sdkmath` value, `sdkmath` division, unchecked type assertion,
slice-to-array conversion and index / slice expression not bounded by its own loop, in a
function reachable from a module's Begin/EndBlock entry point (calls, function values passed on,
and the callback tables of package-level variables included) without passing a `recover`, is a
harmless kind or individually justified; and the skyway
end-blocker still installs its `recover`. A new unguarded conversion / Must / panic on the
block path makes this `decide` fail. -/
theorem panic_inventory_covered :
    (Paloma.Gen.Panics.sites.all siteOk &&
     justified.all (fun j => unsafeSites j.1 == j.2.1) &&
     Paloma.Gen.Panics.recoverGuards.contains "x/skyway.EndBlocker" &&
     Paloma.Gen.Panics.entryPoints.contains "x/consensus.AppModule.EndBlock" &&
     Paloma.Gen.Panics.entryPoints.contains "x/evm.AppModule.EndBlock" &&
     Paloma.Gen.Panics.entryPoints.contains "x/valset.AppModule.EndBlock") = true := by decide

/-! ### non-vacuity -/
example : mulCeil (some 1100000000000000000) 21000 = .ok 23100 := by decide
example : mulCeil (some 1) 1 = .ok 1 := by decide
example : runLoop (fun (s : List Nat) (m : Nat) => if m % 2 = 0 then none else some (m :: s)) [] [1, 2, 3, 4, 5] = [5, 3, 1] := by decide
example : calcFees (some 1100000000000000000) (some 10000000000000000) (some 10000000000000000) 100 = some (110, 2, 2) := by decide
example : Metrix.endBlock 20 (some 1500) [[1, 2, 3], [900, 1200, 1500], [], [499, 500, 501]] = some [[], [900, 1200, 1500], [], [500, 501]] := by decide
example : Metrix.endBlock 21 (some 1500) [[1, 2, 3]] = some [[1, 2, 3]] := by decide
example : Metrix.purge (some 1000) [[1, 2, 3]] = some [[1, 2, 3]] := by decide
example : Metrix.record 50 20 30 7 (some 9) [4, 9] = (some 9, [4, 9, 7]) := by decide
example : Metrix.record 50 30 20 7 (some 9) [4, 9] = (some 9, [4, 9]) := by decide
example : runLoop (fun (st : List Nat) (m : Nat × Option DeployStatus) => (activate m.2).map fun _ => m.1 :: st) []
    [(1, none), (2, some .waitingForTransfer), (3, some .failed)] = [2] := by decide

example : Dangling.attestIntegrity true (some 999999) [1, 2, 3] (some 3) = .notVerified := by decide
example : Dangling.attestIntegrity true (some 999999) [1, 2, 3] (some 0) = .verified := by decide
example : Dangling.attestIntegrity true (some 2) [1, 2, 3] (some 2) = .verified := by decide
example : Dangling.attestIntegrity true (some 2) [1, 2, 3] (some 3) = .notVerified := by decide
example : Dangling.attestIntegrity false (some 999999) [1, 2, 3] none = .notVerified := by decide
example : runLoop (fun (st : List Nat) (m : Nat × Nat × Nat) => (Dangling.handler true (some m.2.1) [1, 2, 3] (some m.2.2)).map fun _ => m.1 :: st) []
    [(10, 999999, 3), (11, 3, 3), (12, 2, 3), (13, 4, 0)] = [13, 11] := by decide

end Paloma.NoPanic
