/-
C15 — bridge tax and transfer limits are applied exactly as configured.
Same model as C01 (`Model/Bridge.lean`): `send`, `cancel`, `execBatch`, `taxOf`, `limitStep`, `setTax`.

Window definition used by the limit clause (stated explicitly, see `window_total_le_limit`): the limit
windows of a token are the height intervals `[u.start, u.start + period)` where `u` ranges over the usage
records the chain stores for the token (`BridgeTransferUsage`, executable state that the harness compares
with the implementation).  A window is opened by the first accepted limited send after the previous
window ran out; windows are *anchored*, not sliding (`sliding_window_reading_is_false`).
-/
import PalomaModel.Props.C01

namespace Paloma.Bridge
open List

/-- is the op a change of the transfer-limit setting of `tok`? -/
def isSetLimit (tok : Nat) : Op → Bool
  | .setLimit t _ => t == tok
  | _ => false

/-- the accepted send of `tok` by a sender subject to the limit `l` that `op` is, if it is one:
    `(height, amount)` -/
def limEvents (tok : Nat) (l : LimitCfg) (s : St) : Op → List (Nat × Nat)
  | .send f u t amt h => if t = tok ∧ u ∉ l.exempt ∧ (send s f u t amt h).2.2 = .ok then [(h, amt)] else []
  | _ => []

/-- the accepted sends of `tok` by non-exempt senders in the segment `w` replayed from `s`, oldest
    first, each with its block height — a function of the history and the results the ops reported -/
def limitedSends (tok : Nat) (l : LimitCfg) : St → List Op → List (Nat × Nat)
  | _, [] => []
  | s, op :: rest => limEvents tok l s op ++ limitedSends tok l (apply s op) rest

/-- block heights of the send ops on `tok`, oldest first -/
def sendHeights (tok : Nat) : List Op → List Nat
  | [] => []
  | .send _ _ t _ h :: rest => if t = tok then h :: sendHeights tok rest else sendHeights tok rest
  | _ :: rest => sendHeights tok rest

/-- total of the logged amounts with height in `[a, a + p)` -/
def sumIn (a p : Nat) (L : List (Nat × Nat)) : Nat :=
  ((L.filter (fun e => decide (a ≤ e.1) && decide (e.1 < a + p))).map (·.2)).sum

/-- total of the logged amounts with height `≥ a` -/
def sumFrom (a : Nat) (L : List (Nat × Nat)) : Nat := ((L.filter (fun e => decide (a ≤ e.1))).map (·.2)).sum

/-! ## helper lemmas -/
section Lemmas

theorem sumIn_nil (a p : Nat) : sumIn a p [] = 0 := rfl
theorem sumFrom_nil (a : Nat) : sumFrom a [] = 0 := rfl

theorem sumIn_cons (a p : Nat) (e : Nat × Nat) (L : List (Nat × Nat)) :
    sumIn a p (e :: L) = (if a ≤ e.1 ∧ e.1 < a + p then e.2 else 0) + sumIn a p L := by
  unfold sumIn
  by_cases h : a ≤ e.1 ∧ e.1 < a + p
  · simp [List.filter_cons, h.1, h.2]
  · have : (decide (a ≤ e.1) && decide (e.1 < a + p)) = false := by
      simp only [Bool.and_eq_false_iff, decide_eq_false_iff_not]
      by_cases h1 : a ≤ e.1
      · right; exact fun h2 => h ⟨h1, h2⟩
      · left; exact h1
    simp [List.filter_cons, this, h]

theorem sumFrom_cons (a : Nat) (e : Nat × Nat) (L : List (Nat × Nat)) :
    sumFrom a (e :: L) = (if a ≤ e.1 then e.2 else 0) + sumFrom a L := by
  unfold sumFrom
  by_cases h : a ≤ e.1 <;> simp [List.filter_cons, h]

theorem sumIn_append (a p : Nat) (L₁ L₂ : List (Nat × Nat)) : sumIn a p (L₁ ++ L₂) = sumIn a p L₁ + sumIn a p L₂ := by
  unfold sumIn; simp [List.filter_append, List.map_append, List.sum_append]

theorem sumFrom_append (a : Nat) (L₁ L₂ : List (Nat × Nat)) : sumFrom a (L₁ ++ L₂) = sumFrom a L₁ + sumFrom a L₂ := by
  unfold sumFrom; simp [List.filter_append, List.map_append, List.sum_append]

theorem sumIn_eq_sumFrom (a p : Nat) (L : List (Nat × Nat)) (h : ∀ e ∈ L, e.1 < a + p) : sumIn a p L = sumFrom a L := by
  induction L with
  | nil => rfl
  | cons e L ih =>
    rw [sumIn_cons, sumFrom_cons, ih (fun x hx => h x (List.mem_cons_of_mem _ hx))]
    have := h e List.mem_cons_self
    by_cases h1 : a ≤ e.1 <;> simp [h1, this]

theorem sumIn_zero_of_ge (a p b : Nat) (L : List (Nat × Nat)) (hb : a + p ≤ b) (h : ∀ e ∈ L, b ≤ e.1) : sumIn a p L = 0 := by
  induction L with
  | nil => rfl
  | cons e L ih =>
    rw [sumIn_cons, ih (fun x hx => h x (List.mem_cons_of_mem _ hx))]
    have := h e List.mem_cons_self
    have : ¬ (a ≤ e.1 ∧ e.1 < a + p) := by omega
    simp [this]

theorem sumFrom_zero_of_lt (a : Nat) (L : List (Nat × Nat)) (h : ∀ e ∈ L, e.1 < a) : sumFrom a L = 0 := by
  induction L with
  | nil => rfl
  | cons e L ih =>
    rw [sumFrom_cons, ih (fun x hx => h x (List.mem_cons_of_mem _ hx))]
    have := h e List.mem_cons_self
    have : ¬ a ≤ e.1 := by omega
    simp [this]

/-- `limitStep` under an active limit for a non-exempt sender: the persisted usage is within the limit,
    and it either extends the running window or opens a new one at `h` — the latter exactly when there
    was no usage on record or the running window had run out -/
theorem limit_step_spec (l : LimitCfg) (usage : Option Usage) (sender amt h : Nat) (u' : Option Usage)
    (hne : sender ∉ l.exempt) (hp : l.period ≠ 0)
    (hstep : limitStep (some l) usage sender amt h = some u') :
    ∃ nu, u' = some nu ∧ nu.total ≤ l.limit ∧
      ((∃ u, usage = some u ∧ h - u.start < l.period ∧ nu.start = u.start ∧ nu.total = u.total + amt) ∨
       (nu.start = h ∧ nu.total = amt ∧ ∀ u, usage = some u → h - u.start ≥ l.period)) := by
  simp only [limitStep] at hstep
  have h1 : l.exempt.contains sender = false := by simpa using hne
  have h2 : (l.period == 0) = false := by simpa using hp
  simp only [h1, h2, Bool.false_eq_true, if_false] at hstep
  cases usage with
  | none =>
    simp only at hstep
    by_cases hgt : amt > l.limit
    · simp [hgt] at hstep
    · simp only [hgt, if_false, Option.some.injEq] at hstep
      exact ⟨_, hstep.symm, by simp; omega, Or.inr ⟨rfl, rfl, by intro u hu; cases hu⟩⟩
  | some u =>
    simp only at hstep
    by_cases hr : h - u.start ≥ l.period
    · simp only [hr, if_true] at hstep
      by_cases hgt : amt > l.limit
      · simp [hgt] at hstep
      · simp only [hgt, if_false, Option.some.injEq] at hstep
        exact ⟨_, hstep.symm, by simp; omega, Or.inr ⟨rfl, rfl, by intro u0 hu; cases hu; exact hr⟩⟩
    · simp only [hr, if_false] at hstep
      by_cases hgt : u.total + amt > l.limit
      · simp [hgt] at hstep
      · simp only [hgt, if_false, Option.some.injEq] at hstep
        exact ⟨_, hstep.symm, by simp; omega, Or.inl ⟨u, rfl, by omega, rfl, rfl⟩⟩

theorem limitStep_unrestricted (lim : Option LimitCfg) (usage : Option Usage) (sender amt h : Nat)
    (hfree : limitApplies lim sender = false) : limitStep lim usage sender amt h = some usage := by
  cases lim with
  | none => rfl
  | some l =>
    unfold limitStep
    simp only
    split
    · rfl
    · rename_i hex
      split
      · rfl
      · rename_i hp
        exfalso
        have h1 : l.exempt.contains sender = false := by simpa using hex
        have h2 : (l.period != 0) = true := by simpa using hp
        have h3 : sender ∉ l.exempt := by simpa using h1
        simp [limitApplies, h2] at hfree
        exact h3 hfree

theorem frame_usage : InnerRel (fun s s' => s'.usage = s.usage) :=
  InnerRel.ofFrame (·.usage) (fun _ _ _ => rfl) (fun _ _ => rfl) (fun _ _ _ _ => rfl) (fun _ _ => rfl)
    (fun _ _ _ _ => rfl) (fun _ _ => rfl) (fun _ _ => rfl)

theorem frame_limit_inner : InnerRel (fun s s' => s'.limit = s.limit) :=
  InnerRel.ofFrame (·.limit) (fun _ _ _ => rfl) (fun _ _ => rfl) (fun _ _ _ _ => rfl) (fun _ _ => rfl)
    (fun _ _ _ _ => rfl) (fun _ _ => rfl) (fun _ _ => rfl)

theorem updO_same {α : Type} (f : Nat → Option α) (k : Nat) (v : Option α) : updO f k v k = v := by simp [updO]
theorem updO_other {α : Type} (f : Nat → Option α) (k : Nat) (v : Option α) (x : Nat) (h : x ≠ k) :
    updO f k v x = f x := by simp [updO, h]

/-- one op of a segment with a constant, active limit `l` on `tok`: the limit stays, and either the op
    is not an accepted limited send of `tok` and the usage record is untouched, or it is one and the
    usage record moves as `limit_step_spec` says -/
theorem apply_lim (s : St) (op : Op) (tok : Nat) (l : LimitCfg) (hl : s.limit tok = some l) (hp : l.period ≠ 0)
    (hop : isSetLimit tok op = false) :
    (apply s op).limit tok = some l ∧
    ((limEvents tok l s op = [] ∧ (apply s op).usage tok = s.usage tok) ∨
     (∃ h amt nu, limEvents tok l s op = [(h, amt)] ∧ (apply s op).usage tok = some nu ∧ nu.total ≤ l.limit ∧
        ((∃ u0, s.usage tok = some u0 ∧ h - u0.start < l.period ∧ nu.start = u0.start ∧ nu.total = u0.total + amt) ∨
         (nu.start = h ∧ nu.total = amt ∧ ∀ u0, s.usage tok = some u0 → h - u0.start ≥ l.period)))) := by
  cases op with
  | send f u t amt h =>
    rcases send_cases s f u t amt h with ⟨hr, h1⟩ | ⟨hr, usage', hstep, _, _, _, _, h1⟩
    · refine ⟨(by simp only [apply, h1]; exact hl), Or.inl ⟨?_, (by simp only [apply, h1])⟩⟩
      simp [limEvents, hr]
    · have hlim : (apply s (.send f u t amt h)).limit tok = some l := by simp only [apply, h1]; exact hl
      refine ⟨hlim, ?_⟩
      by_cases ht : t = tok
      · subst ht
        by_cases hex : u ∈ l.exempt
        · left
          have hfree : limitApplies (s.limit t) u = false := by simp [limitApplies, hl, hex]
          rw [limitStep_unrestricted _ _ _ _ _ hfree] at hstep
          injection hstep with hstep
          refine ⟨by simp [limEvents, hex], ?_⟩
          simp only [apply, h1, sendOk, updO_same]; exact hstep.symm
        · right
          rw [hl] at hstep
          obtain ⟨nu, hnu, hle, hcase⟩ := limit_step_spec l (s.usage t) u amt h usage' hex hp hstep
          refine ⟨h, amt, nu, by simp [limEvents, hex, hr], ?_, hle, hcase⟩
          simp only [apply, h1, sendOk, updO_same]; exact hnu
      · left
        refine ⟨by simp [limEvents, ht], ?_⟩
        simp only [apply, h1, sendOk]
        exact updO_other _ _ _ _ (fun e => ht e.symm)
  | cancel f u id =>
    have h1 : (apply s (.cancel f u id)).limit = s.limit ∧ (apply s (.cancel f u id)).usage = s.usage := by
      show (cancel s f u id).1.limit = s.limit ∧ (cancel s f u id).1.usage = s.usage
      rcases cancel_cases s f u id with ⟨_, h1⟩ | ⟨_, t, _, _, h1⟩ <;> rw [h1] <;> exact ⟨rfl, rfl⟩
    exact ⟨(by rw [h1.1]; exact hl), Or.inl ⟨rfl, (by rw [h1.2])⟩⟩
  | build f t time =>
    exact ⟨(by rw [show (apply s (.build f t time)).limit = s.limit from frame_limit_inner.build s f t time]; exact hl),
      Or.inl ⟨rfl, (by rw [show (apply s (.build f t time)).usage = s.usage from frame_usage.build s f t time])⟩⟩
  | fund u t amt => exact ⟨hl, Or.inl ⟨rfl, rfl⟩⟩
  | setTax t c =>
    exact ⟨(by rw [show (apply s (.setTax t c)).limit = s.limit from (setTax_other s t c).2.2.2.2.2.2.1]; exact hl),
      Or.inl ⟨rfl, (by rw [show (apply s (.setTax t c)).usage = s.usage from (setTax_other s t c).2.2.2.2.2.1])⟩⟩
  | setLimit t c =>
    have ht : tok ≠ t := by
      intro e; simp [isSetLimit, e] at hop
    exact ⟨(by simp only [apply, setLimit]; rw [updO_other _ _ _ _ ht]; exact hl), Or.inl ⟨rfl, rfl⟩⟩
  | claim n c =>
    exact ⟨(by rw [show (apply s (.claim n c)).limit = s.limit from (addClaim_other s n c).2.2.2.2.2.2.1]; exact hl),
      Or.inl ⟨rfl, (by rw [show (apply s (.claim n c)).usage = s.usage from (addClaim_other s n c).2.2.2.2.2.1])⟩⟩
  | endBlock f h now toks ests =>
    exact ⟨(by rw [show (apply s (.endBlock f h now toks ests)).limit = s.limit from
                frame_limit_inner.endBlock s f h now toks ests]; exact hl),
      Or.inl ⟨rfl, (by rw [show (apply s (.endBlock f h now toks ests)).usage = s.usage from
                frame_usage.endBlock s f h now toks ests])⟩⟩

/-- what the segment replayed so far says about the usage record -/
structure WinInv (tok : Nat) (l : LimitCfg) (s : St) (L : List (Nat × Nat)) : Prop where
  /-- the logged amounts of the running window are within the stored total -/
  cur : ∀ u, s.usage tok = some u → sumFrom u.start L ≤ u.total
  /-- every logged height is before the end of the running window -/
  below : ∀ u, s.usage tok = some u → ∀ e ∈ L, e.1 < u.start + l.period
  /-- once a limited send was accepted there is a usage record, within the limit -/
  some : L ≠ [] → ∃ u, s.usage tok = some u ∧ u.total ≤ l.limit

theorem winInv_step (s : St) (op : Op) (tok : Nat) (l : LimitCfg) (L : List (Nat × Nat))
    (hl : s.limit tok = some l) (hp : l.period ≠ 0) (hop : isSetLimit tok op = false) (hk : WinInv tok l s L) :
    WinInv tok l (apply s op) (L ++ limEvents tok l s op) := by
  rcases (apply_lim s op tok l hl hp hop).2 with ⟨hev, hus⟩ | ⟨h, amt, nu, hev, hus, hle, hcase⟩
  · rw [hev, List.append_nil]
    exact ⟨by rw [hus]; exact hk.cur, by rw [hus]; exact hk.below, by rw [hus]; exact hk.some⟩
  · rw [hev]
    rcases hcase with ⟨u0, hu0, hlt, hst, htot⟩ | ⟨hst, htot, hroll⟩
    · -- the running window is extended
      refine ⟨?_, ?_, ?_⟩
      · intro u hu
        rw [hus] at hu; injection hu with hu; subst hu
        rw [sumFrom_append, sumFrom_cons, sumFrom_nil, hst, htot]
        have := hk.cur u0 hu0
        split <;> omega
      · intro u hu e he
        rw [hus] at hu; injection hu with hu; subst hu
        rw [hst]
        rcases List.mem_append.mp he with he | he
        · exact hk.below u0 hu0 e he
        · simp only [List.mem_singleton] at he; subst he; simp only; omega
      · intro _; exact ⟨nu, hus, hle⟩
    · -- a new window is opened at `h`
      have hold : ∀ e ∈ L, e.1 < h := by
        intro e he
        obtain ⟨u0, hu0, _⟩ := hk.some (List.ne_nil_of_mem he)
        have := hk.below u0 hu0 e he
        have := hroll u0 hu0
        omega
      refine ⟨?_, ?_, ?_⟩
      · intro u hu
        rw [hus] at hu; injection hu with hu; subst hu
        rw [sumFrom_append, sumFrom_cons, sumFrom_nil, hst, sumFrom_zero_of_lt h L hold, htot]
        simp
      · intro u hu e he
        rw [hus] at hu; injection hu with hu; subst hu
        rw [hst]
        rcases List.mem_append.mp he with he | he
        · have := hold e he; omega
        · simp only [List.mem_singleton] at he; subst he; simp only; omega
      · intro _; exact ⟨nu, hus, hle⟩

theorem winInv_foldl (tok : Nat) (l : LimitCfg) (hp : l.period ≠ 0) (w : List Op) :
    ∀ (s : St) (L : List (Nat × Nat)), s.limit tok = some l → (∀ op ∈ w, isSetLimit tok op = false) →
      WinInv tok l s L →
      WinInv tok l (w.foldl apply s) (L ++ limitedSends tok l s w) ∧ (w.foldl apply s).limit tok = some l := by
  induction w with
  | nil => intro s L hl _ hk; simpa [limitedSends] using ⟨hk, hl⟩
  | cons op rest ih =>
    intro s L hl hops hk
    have hop := hops op List.mem_cons_self
    have h1 := winInv_step s op tok l L hl hp hop hk
    have h2 := (apply_lim s op tok l hl hp hop).1
    have := ih (apply s op) (L ++ limEvents tok l s op) h2 (fun o ho => hops o (List.mem_cons_of_mem _ ho)) h1
    simpa [limitedSends, List.append_assoc] using this

theorem limEvents_heights (tok : Nat) (l : LimitCfg) (s : St) (op : Op) :
    ∀ e ∈ limEvents tok l s op, e.1 ∈ sendHeights tok [op] := by
  intro e he
  cases op with
  | send f u t amt h =>
    simp only [limEvents] at he
    split at he
    · rename_i hc
      simp only [List.mem_singleton] at he
      subst he
      simp [sendHeights, hc.1]
    · cases he
  | _ => simp [limEvents] at he

theorem sendHeights_cons (tok : Nat) (op : Op) (rest : List Op) :
    sendHeights tok (op :: rest) = sendHeights tok [op] ++ sendHeights tok rest := by
  cases op with
  | send f u t amt h => simp only [sendHeights]; split <;> simp
  | _ => simp [sendHeights]

theorem limitedSends_heights (tok : Nat) (l : LimitCfg) (w : List Op) :
    ∀ (s : St), ∀ e ∈ limitedSends tok l s w, e.1 ∈ sendHeights tok w := by
  induction w with
  | nil => intro s e he; simp [limitedSends] at he
  | cons op rest ih =>
    intro s e he
    simp only [limitedSends, List.mem_append] at he
    rw [sendHeights_cons, List.mem_append]
    rcases he with he | he
    · exact Or.inl (limEvents_heights tok l s op e he)
    · exact Or.inr (ih _ e he)

/-- the future of a window: in a segment with monotone heights, the accepted limited sends that fall
    into the running window `[u.start, u.start + period)` keep the stored total within the limit -/
theorem window_future (tok : Nat) (l : LimitCfg) (hp : l.period ≠ 0) (w : List Op) :
    ∀ (s : St) (u : Usage), s.limit tok = some l → s.usage tok = some u →
      (∀ op ∈ w, isSetLimit tok op = false) → (sendHeights tok w).Pairwise (· ≤ ·) →
      sumIn u.start l.period (limitedSends tok l s w) = 0 ∨
      u.total + sumIn u.start l.period (limitedSends tok l s w) ≤ l.limit := by
  induction w with
  | nil => intro s u _ _ _ _; left; rfl
  | cons op rest ih =>
    intro s u hl hu hops hmono
    have hop := hops op List.mem_cons_self
    have hops' : ∀ o ∈ rest, isSetLimit tok o = false := fun o ho => hops o (List.mem_cons_of_mem _ ho)
    rw [sendHeights_cons] at hmono
    have hmono' : (sendHeights tok rest).Pairwise (· ≤ ·) := (List.pairwise_append.mp hmono).2.1
    have hcross := (List.pairwise_append.mp hmono).2.2
    obtain ⟨hl', hcase⟩ := apply_lim s op tok l hl hp hop
    simp only [limitedSends, sumIn_append]
    rcases hcase with ⟨hev, hus⟩ | ⟨h, amt, nu, hev, hus, hle, hc⟩
    · rw [hev, sumIn_nil, Nat.zero_add]
      exact ih (apply s op) u hl' (by rw [hus]; exact hu) hops' hmono'
    · rw [hev, sumIn_cons, sumIn_nil]
      have hh : h ∈ sendHeights tok [op] := limEvents_heights tok l s op (h, amt) (by rw [hev]; exact List.mem_singleton.mpr rfl)
      rcases hc with ⟨u0, hu0, hlt, hst, htot⟩ | ⟨hst, htot, hroll⟩
      · rw [hu] at hu0; injection hu0 with hu0; subst hu0
        have hnu : nu = { start := u.start, total := u.total + amt } := by
          cases nu; simp only at hst htot; simp [hst, htot]
        have := ih (apply s op) nu hl' hus hops' hmono'
        rw [hst, htot] at this
        simp only
        split <;> omega
      · have hge := hroll u hu
        have hb : u.start + l.period ≤ h := by omega
        have hz : sumIn u.start l.period (limitedSends tok l (apply s op) rest) = 0 := by
          apply sumIn_zero_of_ge u.start l.period h _ hb
          intro e he
          exact hcross h hh e.1 (limitedSends_heights tok l rest _ e he)
        rw [hz]
        have : ¬ (u.start ≤ h ∧ h < u.start + l.period) := by omega
        simp [this]

/-- exact form of the window bookkeeping, for a segment that starts without a usage record and whose
    send heights do not decrease -/
structure WinExact (tok : Nat) (l : LimitCfg) (s : St) (L : List (Nat × Nat)) : Prop where
  hasRec : L ≠ [] → ∃ u, s.usage tok = Option.some u
  /-- the stored total is exactly the logged amounts since the window start -/
  total : ∀ u, s.usage tok = some u → u.total = sumFrom u.start L
  /-- the window start is the height of a logged send -/
  anchor : ∀ u, s.usage tok = some u → ∃ e ∈ L, e.1 = u.start
  below : ∀ u, s.usage tok = some u → ∀ e ∈ L, e.1 < u.start + l.period

theorem winExact_step (s : St) (op : Op) (tok : Nat) (l : LimitCfg) (L : List (Nat × Nat))
    (hl : s.limit tok = some l) (hp : l.period ≠ 0) (hop : isSetLimit tok op = false)
    (hmono : ∀ e ∈ L, ∀ h ∈ sendHeights tok [op], e.1 ≤ h)
    (hk : WinExact tok l s L) : WinExact tok l (apply s op) (L ++ limEvents tok l s op) := by
  rcases (apply_lim s op tok l hl hp hop).2 with ⟨hev, hus⟩ | ⟨h, amt, nu, hev, hus, hle, hcase⟩
  · rw [hev, List.append_nil]
    exact ⟨by rw [hus]; exact hk.hasRec, by rw [hus]; exact hk.total, by rw [hus]; exact hk.anchor, by rw [hus]; exact hk.below⟩
  · rw [hev]
    have hh : h ∈ sendHeights tok [op] :=
      limEvents_heights tok l s op (h, amt) (by rw [hev]; exact List.mem_singleton.mpr rfl)
    rcases hcase with ⟨u0, hu0, hlt, hst, htot⟩ | ⟨hst, htot, hroll⟩
    · refine ⟨fun _ => ⟨nu, hus⟩, ?_, ?_, ?_⟩
      · intro u hu
        rw [hus] at hu; injection hu with hu; subst hu
        obtain ⟨e, he, hes⟩ := hk.anchor u0 hu0
        have hge : u0.start ≤ h := by rw [← hes]; exact hmono e he h hh
        rw [sumFrom_append, sumFrom_cons, sumFrom_nil, hst, htot, hk.total u0 hu0]
        simp [hge]
      · intro u hu
        rw [hus] at hu; injection hu with hu; subst hu
        obtain ⟨e, he, hes⟩ := hk.anchor u0 hu0
        exact ⟨e, List.mem_append_left _ he, by rw [hst]; exact hes⟩
      · intro u hu e he
        rw [hus] at hu; injection hu with hu; subst hu
        rw [hst]
        rcases List.mem_append.mp he with he | he
        · exact hk.below u0 hu0 e he
        · simp only [List.mem_singleton] at he; subst he; simp only; omega
    · have hold : ∀ e ∈ L, e.1 < h := by
        intro e he
        obtain ⟨u0, hu0⟩ := hk.hasRec (List.ne_nil_of_mem he)
        have := hk.below u0 hu0 e he
        have := hroll u0 hu0
        omega
      refine ⟨fun _ => ⟨nu, hus⟩, ?_, ?_, ?_⟩
      · intro u hu
        rw [hus] at hu; injection hu with hu; subst hu
        rw [sumFrom_append, sumFrom_cons, sumFrom_nil, hst, sumFrom_zero_of_lt h L hold, htot]
        simp
      · intro u hu
        rw [hus] at hu; injection hu with hu; subst hu
        exact ⟨(h, amt), by simp, hst.symm⟩
      · intro u hu e he
        rw [hus] at hu; injection hu with hu; subst hu
        rw [hst]
        rcases List.mem_append.mp he with he | he
        · have := hold e he; omega
        · simp only [List.mem_singleton] at he; subst he; simp only; omega

theorem winExact_foldl (tok : Nat) (l : LimitCfg) (hp : l.period ≠ 0) (w : List Op) :
    ∀ (s : St) (L : List (Nat × Nat)), s.limit tok = some l → (∀ op ∈ w, isSetLimit tok op = false) →
      (sendHeights tok w).Pairwise (· ≤ ·) → (∀ e ∈ L, ∀ h ∈ sendHeights tok w, e.1 ≤ h) →
      WinExact tok l s L → WinExact tok l (w.foldl apply s) (L ++ limitedSends tok l s w) := by
  induction w with
  | nil => intro s L _ _ _ _ hk; simpa [limitedSends] using hk
  | cons op rest ih =>
    intro s L hl hops hmono hL hk
    have hop := hops op List.mem_cons_self
    rw [sendHeights_cons] at hmono hL
    have hmono' := (List.pairwise_append.mp hmono).2.1
    have hcross := (List.pairwise_append.mp hmono).2.2
    have h1 := winExact_step s op tok l L hl hp hop (fun e he h hh => hL e he h (List.mem_append_left _ hh)) hk
    have h2 := (apply_lim s op tok l hl hp hop).1
    have := ih (apply s op) (L ++ limEvents tok l s op) h2 (fun o ho => hops o (List.mem_cons_of_mem _ ho)) hmono'
      (by
        intro e he h hh
        rcases List.mem_append.mp he with he | he
        · exact hL e he h (List.mem_append_right _ hh)
        · exact hcross e.1 (limEvents_heights tok l s op e he) h hh) h1
    simpa [limitedSends, List.append_assoc] using this


end Lemmas

/-! ## Property theorems (C15) -/

/-- **tax_spec.** The tax charged on amount `a` at rate `num/den` is `a·num/den` truncated for a
non-exempt sender and `0` for an exempt sender, a zero rate or a token without a tax setting. -/
theorem tax_spec (c : TaxCfg) (sender a : Nat) :
    (sender ∉ c.exempt → c.num ≠ 0 → taxOf (some c) sender a = a * c.num / c.den) ∧
    (sender ∈ c.exempt → taxOf (some c) sender a = 0) ∧
    (c.num = 0 → taxOf (some c) sender a = 0) ∧
    taxOf none sender a = 0 := by
  refine ⟨?_, ?_, ?_, rfl⟩
  · intro h1 h2
    simp [taxOf, h2, h1]
  · intro h1
    simp only [taxOf]
    split
    · rfl
    · simp [h1]
  · intro h1
    simp [taxOf, h1]

/-- **tax_is_floor.** For a stored rate (`den > 0`, see `stored_tax_den_pos`) the tax of a non-exempt
sender is the floor of `a · num/den`: the unique `t` with `t·den ≤ a·num < (t+1)·den`. -/
theorem tax_is_floor (c : TaxCfg) (sender a : Nat) (hd : 0 < c.den) (hne : sender ∉ c.exempt) (hn : c.num ≠ 0) :
    taxOf (some c) sender a * c.den ≤ a * c.num ∧ a * c.num < (taxOf (some c) sender a + 1) * c.den := by
  rw [(tax_spec c sender a).1 hne hn]
  constructor
  · exact Nat.div_mul_le_self _ _
  · rw [Nat.add_mul, Nat.one_mul]
    exact Nat.lt_div_mul_add hd

/-- **stored_tax_den_pos.** No reachable state stores a tax rate with denominator 0 (`SetBridgeTax`
refuses a rate `big.Rat` cannot parse), so the truncated division above never divides by zero. -/
theorem stored_tax_den_pos (ops : List Op) (tok : Nat) (c : TaxCfg) (h : (run ops).tax tok = some c) : 0 < c.den := by
  have key : StepRel (Preserves (fun s => ∀ tok c, s.tax tok = some c → 0 < c.den)) := {
    refl := fun _ h => h
    trans := fun h1 h2 h => h2 (h1 h)
    build := by intro s f tok time hp; rw [show (buildOne s f tok time).1.tax = s.tax from frame_tax.build s f tok time]; exact hp
    cancelBatch := by
      intro s f tok nonce hp
      rw [show (cancelBatch s f tok nonce).1.tax = s.tax from frame_tax.cancelBatch s f tok nonce]; exact hp
    setEstimate := by
      intro s f tok nonce est hp
      rw [show (setEstimate s f tok nonce est).1.tax = s.tax from frame_tax.setEstimate s f tok nonce est]; exact hp
    observe := by
      intro s f n c hn hc hp
      rw [show (observe s f n c).1.tax = s.tax from frame_tax.observe s f n c hn hc]; exact hp
    send := by
      intro s f u tok amt h hp
      rcases send_cases s f u tok amt h with ⟨_, h1⟩ | ⟨_, usage', _, _, _, _, _, h1⟩ <;> rw [h1] <;> exact hp
    cancel := by
      intro s f u id hp
      rcases cancel_cases s f u id with ⟨_, h1⟩ | ⟨_, t, _, _, h1⟩ <;> rw [h1] <;> exact hp
    fund := fun _ _ _ _ hp => hp
    setTax := by
      intro s tok c hp tok' c' h'
      unfold setTax at h'
      split at h'
      · simp only [updO] at h'
        split at h'
        · cases h'
        · exact hp tok' c' h'
      · split at h'
        · exact hp tok' c' h'
        · rename_i cfg hden
          simp only [updO] at h'
          split at h'
          · injection h' with h'; subst h'
            have : cfg.den ≠ 0 := by simpa using hden
            omega
          · exact hp tok' c' h'
    setLimit := fun _ _ _ hp => hp
    addClaim := by intro s n c hp; rw [(addClaim_other s n c).2.2.2.2.2.2.2.1]; exact hp }
  exact key.foldl ops St.init (by intro tok c h; simp [St.init] at h) tok c h

/-- **cost_exact.** An accepted send debits the sender exactly `amount + tax` (`amount` for an exempt
sender), credits the escrow with the same, changes nobody else's balance, and records that very tax with
the transfer. -/
theorem cost_exact (s : St) (f : Fault) (u tok amt h : Nat) (hok : (send s f u tok amt h).2.2 = .ok) :
    let s' := (send s f u tok amt h).1
    let tax := taxOf (s.tax tok) u amt
    amt + tax ≤ s.bal u tok ∧
    s'.bal = upd2 s.bal u tok (s.bal u tok - (amt + tax)) ∧
    s'.escrow tok = s.escrow tok + (amt + tax) ∧
    s'.pool = { id := s.lastTx + 1, sender := u, token := tok, amount := amt, tax := tax } :: s.pool := by
  rcases send_cases s f u tok amt h with ⟨hr, _⟩ | ⟨_, usage', _, _, _, _, hbal, h1⟩
  · rw [hr] at hok; cases hok
  · simp only [h1]
    refine ⟨hbal, rfl, ?_, rfl⟩
    simp [sendOk, upd, newTx, Tx.owed]

/-- **send_overflow.** (amounts up to 2^256) An accepted send never overflowed `sdkmath.Int`: the product
`amount · num` of the tax computation and the sum `amount + tax` are below `2^256`; a send that would
overflow is rejected and changes nothing. -/
theorem send_overflow (s : St) (f : Fault) (u tok amt h : Nat) :
    ((send s f u tok amt h).2.2 = .ok → taxOverflows (s.tax tok) u amt = false ∧ amt + taxOf (s.tax tok) u amt < 2 ^ 256) ∧
    ((taxOverflows (s.tax tok) u amt = true ∨ amt + taxOf (s.tax tok) u amt ≥ 2 ^ 256) →
      (send s f u tok amt h).2.2 = .rejected ∧ (send s f u tok amt h).1 = s) := by
  rcases send_cases s f u tok amt h with ⟨hr, h1⟩ | ⟨hr, usage', _, hov, hmax, _, _, _⟩
  · exact ⟨fun hok => (by rw [hr] at hok; cases hok), fun _ => ⟨hr, h1⟩⟩
  · refine ⟨fun _ => ⟨hov, hmax⟩, ?_⟩
    intro hbad
    rcases hbad with hb | hb
    · rw [hov] at hb; cases hb
    · have : maxInt = 2 ^ 256 := rfl
      omega

/-- **tax_overflow_spec.** What `taxOverflows` means: the sender is taxed and `amount · num ≥ 2^256`. -/
theorem tax_overflow_spec (c : TaxCfg) (sender a : Nat) :
    taxOverflows (some c) sender a = true ↔ (c.num ≠ 0 ∧ sender ∉ c.exempt ∧ a * c.num ≥ 2 ^ 256) := by
  simp only [taxOverflows, maxInt]
  by_cases h1 : c.num = 0
  · simp [h1]
  · by_cases h2 : sender ∈ c.exempt
    · simp [h1, h2]
    · simp [h1, h2]

/-- **recorded_tax_is_acceptance_tax** ("the tax is recorded with the transfer").  Every transfer the
bridge knows — waiting in the pool, inside an open batch, refunded or burned — was accepted by a `send`
op of the history that reported success, and the tax it carries is the tax computed *at that moment*
from the setting then in force, whatever governance did to the rate or the exemptions afterwards. -/
theorem recorded_tax_is_acceptance_tax (ops : List Op) (t : Tx)
    (ht : t ∈ (run ops).pool ++ batched (run ops) ++ (run ops).refunded ++ (run ops).burned) :
    ∃ pre f h rest, ops = pre ++ .send f t.sender t.token t.amount h :: rest ∧
      (send (run pre) f t.sender t.token t.amount h).2.2 = .ok ∧
      t.tax = taxOf ((run pre).tax t.token) t.sender t.amount := by
  have hacc : t ∈ (run ops).accepted := (reachable_inv ops).life.mem_iff.mpr ht
  obtain ⟨pre, f, h, rest, he, hok, ht'⟩ := accepted_provenance ops t hacc
  refine ⟨pre, f, h, rest, he, hok, ?_⟩
  have : t.tax = (newTx (run pre) t.sender t.token t.amount).tax := by rw [← ht']
  exact this

/-- **refund_in_full** ("returned in full on cancellation", over whole histories).  Every refunded
transfer was accepted by an `ok` send at some point `preS` of the history and cancelled by an `ok`
cancel of its own sender at a later point `preC`; that cancel raised the sender's balance by exactly
`amount + tax`, the tax being the one charged at acceptance (`taxOf` under the setting in force at
`preS`), and took the same sum out of the escrow. -/
theorem refund_in_full (ops : List Op) (t : Tx) (ht : t ∈ (run ops).refunded) :
    ∃ preS fS hS restS preC fC restC,
      ops = preS ++ .send fS t.sender t.token t.amount hS :: restS ∧
      (send (run preS) fS t.sender t.token t.amount hS).2.2 = .ok ∧
      ops = preC ++ .cancel fC t.sender t.id :: restC ∧
      (cancel (run preC) fC t.sender t.id).2.2 = .ok ∧
      (run (preC ++ [.cancel fC t.sender t.id])).bal t.sender t.token =
        (run preC).bal t.sender t.token + (t.amount + taxOf ((run preS).tax t.token) t.sender t.amount) ∧
      (run (preC ++ [.cancel fC t.sender t.id])).escrow t.token + (t.amount + taxOf ((run preS).tax t.token) t.sender t.amount) =
        (run preC).escrow t.token := by
  obtain ⟨preS, fS, hS, restS, heS, hokS, htax⟩ :=
    recorded_tax_is_acceptance_tax ops t (by simp [ht])
  obtain ⟨preC, fC, restC, heC, hokC, _, hbal, hesc, hle⟩ := refunded_provenance ops t ht
  refine ⟨preS, fS, hS, restS, preC, fC, restC, heS, hokS, heC, hokC, ?_, ?_⟩
  · rw [hbal, upd2_same, htax]
  · rw [hesc, upd_same, ← htax]; omega

/-- **tax_burned_on_execution** (single step; the history form is `burn_in_full`).  A successfully applied executed-batch claim lowers the token's supply
(and the escrow) by the sum of amount *plus recorded tax* over the batch's transfers — and by
`recorded_tax_is_acceptance_tax` every one of those taxes is the tax charged at acceptance. -/
theorem tax_burned_on_execution (s : St) (f : Fault) (tok nonce eh : Nat)
    (hok : (execBatch s f tok nonce eh).2.2 = .ok) :
    ∃ b ∈ s.batches, b.token = tok ∧ b.nonce = nonce ∧
      (execBatch s f tok nonce eh).1.supply tok + ((b.txs.map (fun t => t.amount + t.tax)).sum) = s.supply tok ∧
      (execBatch s f tok nonce eh).1.escrow tok + ((b.txs.map (fun t => t.amount + t.tax)).sum) = s.escrow tok ∧
      (execBatch s f tok nonce eh).1.burned = b.txs ++ s.burned := by
  rcases execBatch_cases s f tok nonce eh with ⟨hr, _⟩ | ⟨_, b, hfind, _, he, hs, h1⟩
  · rw [hr] at hok; cases hok
  · have ⟨hm, hbt, hbn⟩ := findBatch_some hfind
    have hmap : (b.txs.map Tx.owed) = b.txs.map (fun t => t.amount + t.tax) := by
      apply List.map_congr_left; intro t _; rfl
    rw [hmap] at he hs
    refine ⟨b, hm, hbt, hbn, ?_, ?_, by rw [h1]; rfl⟩
    · rw [h1]; simp only [execOk, hmap]; rw [← hbt, upd_same]; omega
    · rw [h1]; simp only [execOk, hmap]; rw [← hbt, upd_same]; omega


/-- **burn_in_full** ("the tax is … burned on execution", over whole histories).  Every burned transfer `t`
was accepted by an `ok` send at some point `preS` of the history — its recorded tax being `taxOf` under the
setting in force there — and was burned in ONE end-block `preE ++ [endBlock …]` of the history (the one
`burned_provenance` of C01 identifies by claim and batch).  That end-block prepended `nb ∋ t` to `burned` and
`na` to the observation log, and for every token it lowered the supply by exactly the sum of *amount plus
recorded tax* over the transfers it burned (and raised it by the deposits it applied), and lowered the escrow
by the same burned sum; every transfer of `nb` carries the tax charged at its own acceptance. -/
theorem burn_in_full (ops : List Op) (t : Tx) (ht : t ∈ (run ops).burned) :
    ∃ preS fS hS restS preE f h now toks ests restE nb na,
      ops = preS ++ .send fS t.sender t.token t.amount hS :: restS ∧
      (send (run preS) fS t.sender t.token t.amount hS).2.2 = .ok ∧
      t.tax = taxOf ((run preS).tax t.token) t.sender t.amount ∧
      ops = preE ++ .endBlock f h now toks ests :: restE ∧
      (run (preE ++ [.endBlock f h now toks ests])).burned = nb ++ (run preE).burned ∧ t ∈ nb ∧
      (run (preE ++ [.endBlock f h now toks ests])).applied = na ++ (run preE).applied ∧
      (∀ tok, (run (preE ++ [.endBlock f h now toks ests])).supply tok +
                ((nb.filter (fun x => x.token == tok)).map (fun x => x.amount + x.tax)).sum =
              (run preE).supply tok + depositsOk tok na ∧
              (run (preE ++ [.endBlock f h now toks ests])).escrow tok +
                ((nb.filter (fun x => x.token == tok)).map (fun x => x.amount + x.tax)).sum = (run preE).escrow tok) ∧
      (∀ x ∈ nb, ∃ preX fX hX restX, preE = preX ++ .send fX x.sender x.token x.amount hX :: restX ∧
        (send (run preX) fX x.sender x.token x.amount hX).2.2 = .ok ∧
        x.tax = taxOf ((run preX).tax x.token) x.sender x.amount) := by
  obtain ⟨preS, fS, hS, restS, heS, hokS, htax⟩ := recorded_tax_is_acceptance_tax ops t (by simp [ht])
  obtain ⟨preE, f, h, now, toks, ests, restE, n, nonce, eh, heE, hnot, hin, _⟩ := burned_provenance ops t ht
  obtain ⟨nb, na, hb, ha, hd⟩ :=
    (supply_changes_only_by_fund_deposit_burn preE (.endBlock f h now toks ests)).2.1 f h now toks ests rfl
  refine ⟨preS, fS, hS, restS, preE, f, h, now, toks, ests, restE, nb, na, heS, hokS, htax, heE, hb, ?_, ha, hd, ?_⟩
  · rw [hb, List.mem_append] at hin
    rcases hin with h1 | h1
    · exact h1
    · exact absurd h1 hnot
  · intro x hx
    -- x is burned after the end-block, hence was accepted by a send of `preE ++ [endBlock]`, which is in `preE`
    have hx' : x ∈ (run (preE ++ [.endBlock f h now toks ests])).burned := by rw [hb]; exact List.mem_append_left _ hx
    obtain ⟨preX, fX, hX, restX, heX, hokX, htaxX⟩ :=
      recorded_tax_is_acceptance_tax (preE ++ [.endBlock f h now toks ests]) x (by simp [hx'])
    -- the send op is not the last op (an end-block)
    rcases List.eq_nil_or_concat restX with hr | ⟨restX', lastX, hr⟩
    · subst hr
      have := congrArg List.getLast? heX
      simp at this
    · subst hr
      have h1 : preE ++ [Op.endBlock f h now toks ests] = (preX ++ .send fX x.sender x.token x.amount hX :: restX') ++ [lastX] := by
        rw [heX]; simp
      have h2 := List.append_inj' h1 rfl
      exact ⟨preX, fX, hX, restX', h2.1, hokX, htaxX⟩

/-- **window_total_le_limit** (the limit clause, over whole histories).  Take any state `s` in which
`tok` has an active limit `l`, and any continuation `w₁ ++ w₂` during which governance does not touch
that setting; let `u` be the usage record stored after `w₁` — so `[u.start, u.start + period)` is one of
the token's limit windows.  Then the accepted sends of non-exempt senders in the whole continuation
whose block height lies in that window total at most the limit.  (`limitedSends` is computed from the
ops and the results they reported, heights are the ops' own block heights, `hmono` says block heights do
not decrease — SDK behaviour, an external ASSUMPTION; without it a send at a height *below* `u.start` would
be taken for a send of the running window, `h - u.start` being truncated to 0 — that cannot happen on a chain
whose heights increase.)  Sends accepted before `s` are a different regime: choose `s` right after the limit
was last set.  The stored counter itself is bounded by `usage_total_bounds` / `usage_total_exact`. -/
theorem window_total_le_limit (s : St) (w₁ w₂ : List Op) (tok : Nat) (l : LimitCfg) (u : Usage)
    (hl : s.limit tok = some l) (hp : l.period ≠ 0)
    (hconst : ∀ op ∈ w₁ ++ w₂, isSetLimit tok op = false)
    (hmono : (sendHeights tok w₂).Pairwise (· ≤ ·))
    (hu : (w₁.foldl apply s).usage tok = some u) :
    sumIn u.start l.period (limitedSends tok l s (w₁ ++ w₂)) ≤ l.limit := by
  have h1 := winInv_foldl tok l hp w₁ s [] hl (fun o ho => hconst o (List.mem_append_left _ ho))
    ⟨fun _ _ => (by simp [sumFrom_nil]), fun _ _ e he => (by cases he), fun h => absurd rfl h⟩
  simp only [List.nil_append] at h1
  obtain ⟨hk, hl1⟩ := h1
  have hsplit : ∀ (a b : List Op) (s0 : St), limitedSends tok l s0 (a ++ b) =
      limitedSends tok l s0 a ++ limitedSends tok l (a.foldl apply s0) b := by
    intro a
    induction a with
    | nil => intro b s0; rfl
    | cons x xs ih => intro b s0; simp only [List.cons_append, limitedSends, List.foldl_cons, ih, List.append_assoc]
  rw [hsplit, sumIn_append, sumIn_eq_sumFrom _ _ _ (hk.below u hu)]
  have hpast := hk.cur u hu
  have hfut := window_future tok l hp w₂ (w₁.foldl apply s) u hl1 hu
    (fun o ho => hconst o (List.mem_append_right _ ho)) hmono
  rcases hfut with hz | hle
  · rw [hz, Nat.add_zero]
    by_cases hnil : limitedSends tok l s w₁ = []
    · rw [hnil]; simp [sumFrom_nil]
    · obtain ⟨u', hu', hle'⟩ := hk.some hnil
      rw [hu] at hu'; injection hu' with hu'; subst hu'
      omega
  · omega

/-- **window_total_le_limit_run.** The same over `run`: a history `pre`, then a continuation without a
change of the token's limit setting. -/
theorem window_total_le_limit_run (pre w₁ w₂ : List Op) (tok : Nat) (l : LimitCfg) (u : Usage)
    (hl : (run pre).limit tok = some l) (hp : l.period ≠ 0)
    (hconst : ∀ op ∈ w₁ ++ w₂, isSetLimit tok op = false)
    (hmono : (sendHeights tok w₂).Pairwise (· ≤ ·))
    (hu : (run (pre ++ w₁)).usage tok = some u) :
    sumIn u.start l.period (limitedSends tok l (run pre) (w₁ ++ w₂)) ≤ l.limit :=
  window_total_le_limit (run pre) w₁ w₂ tok l u hl hp hconst hmono (by rw [← run_append]; exact hu)


/-- **usage_total_bounds** (the stored counter, as an invariant of every segment with a constant active
limit).  After any continuation `w` of any state `s` during which governance does not touch the token's limit
setting: once a limited send was accepted there is a usage record and its total is within the limit; and for
the record `u` on file, the accepted limited sends of the segment at heights `≥ u.start` total at most
`u.total`, and all of them lie before the end of the window.  (`≤`, not `=`: the record may carry allowance
used before `s`; and a send at a height *below* `u.start` — possible only if block heights decreased — is
counted in `u.total` but not in the sum.  The exact form is `usage_total_exact`.) -/
theorem usage_total_bounds (s : St) (w : List Op) (tok : Nat) (l : LimitCfg)
    (hl : s.limit tok = some l) (hp : l.period ≠ 0) (hconst : ∀ op ∈ w, isSetLimit tok op = false) :
    (limitedSends tok l s w ≠ [] → ∃ u, (w.foldl apply s).usage tok = some u ∧ u.total ≤ l.limit) ∧
    (∀ u, (w.foldl apply s).usage tok = some u →
      sumFrom u.start (limitedSends tok l s w) ≤ u.total ∧
      ∀ e ∈ limitedSends tok l s w, e.1 < u.start + l.period) := by
  have h1 := (winInv_foldl tok l hp w s [] hl hconst
    ⟨fun _ _ => (by simp [sumFrom_nil]), fun _ _ e he => (by cases he), fun h => absurd rfl h⟩).1
  simp only [List.nil_append] at h1
  exact ⟨h1.some, fun u hu => ⟨h1.cur u hu, h1.below u hu⟩⟩

/-- **usage_total_exact.** For a segment that starts without a usage record (`hfresh`, e.g. right after the
token's first limit was set) and whose send heights do not decrease (`hmono`: SDK behaviour, external
assumption): the stored total IS the sum of the accepted sends of non-exempt senders with height in the
stored window `[u.start, u.start + period)`, it is within the limit, and the window was opened by one of
those sends. -/
theorem usage_total_exact (s : St) (w : List Op) (tok : Nat) (l : LimitCfg) (u : Usage)
    (hl : s.limit tok = some l) (hp : l.period ≠ 0) (hconst : ∀ op ∈ w, isSetLimit tok op = false)
    (hfresh : s.usage tok = none) (hmono : (sendHeights tok w).Pairwise (· ≤ ·))
    (hu : (w.foldl apply s).usage tok = some u) :
    u.total = sumIn u.start l.period (limitedSends tok l s w) ∧ u.total ≤ l.limit ∧
    ∃ e ∈ limitedSends tok l s w, e.1 = u.start := by
  have h1 := winExact_foldl tok l hp w s [] hl hconst hmono (fun e he => by cases he)
    ⟨fun h => absurd rfl h, fun u hu => (by rw [hfresh] at hu; cases hu), fun u hu => (by rw [hfresh] at hu; cases hu),
     fun u hu => (by rw [hfresh] at hu; cases hu)⟩
  simp only [List.nil_append] at h1
  obtain ⟨e, he, hes⟩ := h1.anchor u hu
  refine ⟨?_, ?_, e, he, hes⟩
  · rw [sumIn_eq_sumFrom _ _ _ (h1.below u hu)]; exact h1.total u hu
  · obtain ⟨u', hu', hle⟩ := (usage_total_bounds s w tok l hl hp hconst).1 (List.ne_nil_of_mem he)
    rw [hu] at hu'; injection hu' with hu'; subst hu'; exact hle

/-- a *sliding* reading of the limit clause: every `period` consecutive heights -/
def SlidingBound (l : LimitCfg) (L : List (Nat × Nat)) : Prop := ∀ a, sumIn a l.period L ≤ l.limit

/-- **sliding_bound_is_false.** The *sliding* reading of the limit clause, as a formal predicate
(`SlidingBound`: every `period` consecutive heights total at most the limit), is refuted by a history through
`run` that satisfies every hypothesis of `window_total_le_limit` (constant limit, monotone heights): limit 100
per 10 blocks, 1@0, 99@9, 100@10 are all accepted, 199 within heights `[1, 11)`.  The implementation is a
fixed-window limiter; the clause as worded ("within any one limit window") is `window_total_le_limit`. -/
theorem sliding_bound_is_false :
    ∃ (pre w : List Op) (tok : Nat) (l : LimitCfg),
      (run pre).limit tok = some l ∧ l.period ≠ 0 ∧ (∀ op ∈ w, isSetLimit tok op = false) ∧
      (sendHeights tok w).Pairwise (· ≤ ·) ∧ ¬ SlidingBound l (limitedSends tok l (run pre) w) :=
  ⟨[.fund 1 1 1000, .setLimit 1 (some { period := 10, limit := 100, exempt := [] })],
   [.send Fault.none 1 1 1 0, .send Fault.none 1 1 99 9, .send Fault.none 1 1 100 10], 1,
   { period := 10, limit := 100, exempt := [] }, by decide, by decide, by decide, by decide,
   fun h => absurd (h 1) (by decide)⟩

/-- **usage_within_limit.** Whenever a limited send is accepted, the usage record it leaves is within
the limit in force (single step, any state). -/
theorem usage_within_limit (s : St) (f : Fault) (u tok amt h : Nat) (l : LimitCfg)
    (hl : s.limit tok = some l) (hne : u ∉ l.exempt) (hp : l.period ≠ 0)
    (hok : (send s f u tok amt h).2.2 = .ok) :
    ∃ nu, (send s f u tok amt h).1.usage tok = some nu ∧ nu.total ≤ l.limit := by
  have := (apply_lim s (.send f u tok amt h) tok l hl hp rfl).2
  rcases this with ⟨hev, _⟩ | ⟨_, _, nu, _, hus, hle, _⟩
  · simp [limEvents, hne, hok] at hev
  · exact ⟨nu, hus, hle⟩

/-- **sliding_window_reading_is_false.** Under a *sliding* reading ("any `period` consecutive blocks")
the limit clause does not hold, of the model and of the implementation alike: with limit 100 per 10
blocks, 1@0, 99@9 and 100@10 are all accepted — 199 within the two consecutive blocks 9 and 10.  The
windows are anchored at the stored `StartBlockHeight`, as `window_total_le_limit` states. -/
theorem sliding_window_reading_is_false :
    let ops : List Op := [.fund 1 1 1000, .setLimit 1 (some { period := 10, limit := 100, exempt := [] }),
      .send Fault.none 1 1 1 0, .send Fault.none 1 1 99 9, .send Fault.none 1 1 100 10]
    ((run ops).accepted.map (·.amount)) = [100, 99, 1] ∧ (run ops).usage 1 = some { start := 10, total := 100 } ∧
    (run (ops.take 4)).usage 1 = some { start := 0, total := 100 } := by decide

/-- **rejected_consumes_nothing.** A rejected send leaves every piece of state, in particular the window
usage, untouched — whatever the reason (limit, overflow, balance, zero amount, injected fault). -/
theorem rejected_consumes_nothing (s : St) (f : Fault) (u tok amt h : Nat)
    (hr : (send s f u tok amt h).2.2 ≠ .ok) : (send s f u tok amt h).1 = s :=
  (failed_op_is_noop s f).1 u tok amt h hr

/-- **limit_rejects_only_over_limit.** The limit refuses a send only when accepting it would push the
window total above the limit: if the send is by a sender subject to the limit `l` and the new total
(the amount alone when a new window starts, the running total plus the amount otherwise) is within the
limit, the limit step lets it pass. -/
theorem limit_rejects_only_over_limit (l : LimitCfg) (usage : Option Usage) (sender amt h : Nat)
    (hrej : limitStep (some l) usage sender amt h = none) :
    sender ∉ l.exempt ∧ l.period ≠ 0 ∧
    ((∃ u, usage = some u ∧ h - u.start < l.period ∧ u.total + amt > l.limit) ∨
     ((∀ u, usage = some u → h - u.start ≥ l.period) ∧ amt > l.limit)) := by
  unfold limitStep at hrej
  simp only at hrej
  split at hrej
  · cases hrej
  · rename_i hex
    split at hrej
    · cases hrej
    · rename_i hp
      refine ⟨by simpa using hex, by simpa using hp, ?_⟩
      cases usage with
      | none =>
        simp only at hrej
        right
        refine ⟨(by intro u hu; cases hu), ?_⟩
        split at hrej
        · assumption
        · cases hrej
      | some u =>
        simp only at hrej
        by_cases hr : h - u.start ≥ l.period
        · right
          refine ⟨(by intro u0 hu; cases hu; exact hr), ?_⟩
          simp only [hr, if_true] at hrej
          split at hrej
          · assumption
          · cases hrej
        · left
          simp only [hr, if_false] at hrej
          refine ⟨u, rfl, by omega, ?_⟩
          split at hrej
          · assumption
          · cases hrej

/-- **unrestricted_send** ("exempt senders and tokens without a limit are unrestricted", lifted to
`send`).  For a sender the limit does not apply to — no limit setting for the token, period `NONE`, or
the sender on the exempt list — a send is accepted exactly when the tax computation does not overflow,
amount plus tax is below 2^256, the amount is not zero, the balance suffices and no collaborator call
fails: whatever the amount, the limit and the usage on record play no role, and the usage record is left
as it was. -/
theorem unrestricted_send (s : St) (f : Fault) (u tok amt h : Nat) (hfree : limitApplies (s.limit tok) u = false) :
    ((send s f u tok amt h).2.2 = .ok ↔
      (taxOverflows (s.tax tok) u amt = false ∧ amt + taxOf (s.tax tok) u amt < 2 ^ 256 ∧ amt ≠ 0 ∧
       amt + taxOf (s.tax tok) u amt ≤ s.bal u tok ∧ (f.tick tLock).2 = false ∧
       (((f.tick tLock).1).tick tChainInfo).2 = false)) ∧
    (send s f u tok amt h).1.usage tok = s.usage tok := by
  have hstep := limitStep_unrestricted (s.limit tok) (s.usage tok) u amt h hfree
  constructor
  · unfold send
    rw [hstep]
    simp only
    have hm : maxInt = 2 ^ 256 := rfl
    by_cases h1 : taxOverflows (s.tax tok) u amt = true
    · simp [h1]
    · by_cases h2 : amt + taxOf (s.tax tok) u amt ≥ maxInt
      · have : ¬ amt + taxOf (s.tax tok) u amt < 2 ^ 256 := by omega
        simp [h1, h2, this]
      · by_cases h3 : (f.tick tLock).2 = true
        · simp [h1, h2, h3]
        · by_cases h4 : amt = 0
          · subst h4; simp [h1, h3]; split <;> simp
          · by_cases h5 : s.bal u tok < amt + taxOf (s.tax tok) u amt
            · have : ¬ amt + taxOf (s.tax tok) u amt ≤ s.bal u tok := by omega
              simp [h1, h2, h3, h4, h5, this]
            · by_cases h6 : (((f.tick tLock).1).tick tChainInfo).2 = true
              · simp [h1, h2, h3, h4, h5, h6]
              · have a1 : amt + taxOf (s.tax tok) u amt < 2 ^ 256 := by omega
                have a2 : amt + taxOf (s.tax tok) u amt ≤ s.bal u tok := by omega
                simp [h1, h2, h3, h4, h5, h6, a1, a2]
  · rcases send_cases s f u tok amt h with ⟨_, h1⟩ | ⟨_, usage', hl, _, _, _, _, h1⟩
    · rw [h1]
    · rw [hstep] at hl
      injection hl with hl
      rw [h1]
      simp only [sendOk, updO_same]
      exact hl.symm

/-- **window_test_int.** The model's window test uses truncated subtraction of naturals; Go subtracts
`int64` block heights.  Against a period `> 0` (the only case in which the test is evaluated) the two
agree for *all* heights, also for a height below the window start. -/
theorem window_test_int (h start period : Nat) (hp : period ≠ 0) :
    (h - start ≥ period) ↔ ((h : Int) - (start : Int) ≥ (period : Int)) := by
  omega

/-! ### non-vacuity -/
example : taxOf (some { num := 1, den := 3, exempt := [7] }) 1 100 = 33 ∧
    taxOf (some { num := 1, den := 3, exempt := [7] }) 7 100 = 0 := by decide
example : limitStep (some { period := 10, limit := 100, exempt := [] }) (some { start := 5, total := 60 }) 1 40 14
    = some (some { start := 5, total := 100 }) := by decide
example : limitStep (some { period := 10, limit := 100, exempt := [] }) (some { start := 5, total := 60 }) 1 41 14
    = none := by decide
example : limitStep (some { period := 10, limit := 100, exempt := [] }) (some { start := 5, total := 60 }) 1 41 15
    = some (some { start := 15, total := 41 }) := by decide

/-- a history through `run`: limit 100 per 10 blocks, user 2 exempt; two windows, a rejected send in
between, an exempt sender; then the tax rate changes and the first transfer is cancelled: the refund is
the tax charged at acceptance -/
def demo15 : List Op :=
  [ .fund 1 1 1000, .fund 2 1 1000,
    .setTax 1 (some { num := 1, den := 10, exempt := [] }),
    .setLimit 1 (some { period := 10, limit := 100, exempt := [2] }),
    .send Fault.none 1 1 60 5,      -- opens window [5,15): tax 6
    .send Fault.none 1 1 41 14,     -- rejected: 101 > 100
    .send Fault.none 1 1 40 14,     -- accepted: 100
    .send Fault.none 2 1 500 14,    -- exempt sender: unrestricted
    .send Fault.none 1 1 70 15,     -- new window [15,25)
    .setTax 1 (some { num := 1, den := 2, exempt := [] }),
    .cancel Fault.none 1 1 ]

example : limitedSends 1 { period := 10, limit := 100, exempt := [2] } (run (demo15.take 4)) (demo15.drop 4)
      = [(5, 60), (14, 40), (15, 70)] ∧
    (run (demo15.take 8)).usage 1 = some { start := 5, total := 100 } ∧
    sumIn 5 10 (limitedSends 1 { period := 10, limit := 100, exempt := [2] } (run (demo15.take 4)) (demo15.drop 4)) = 100 ∧
    (run demo15).usage 1 = some { start := 15, total := 70 } ∧
    ((run demo15).refunded.map (fun t => (t.id, t.amount, t.tax))) = [(1, 60, 6)] ∧
    (run demo15).bal 1 1 = 1000 - 44 - 77 ∧ (run demo15).escrow 1 = 44 + 500 + 50 + 77 := by decide

/-- the hypotheses of the window theorem are jointly satisfiable on that history: limit set in `pre`, the
window `[5, 15)` is the one stored after `w₁`, a later send (height 15) follows in `w₂` -/
example : sumIn 5 10 (limitedSends 1 { period := 10, limit := 100, exempt := [2] } (run (demo15.take 4)) (demo15.drop 4)) ≤ 100 :=
  window_total_le_limit_run (demo15.take 4) ((demo15.drop 4).take 4) ((demo15.drop 4).drop 4) 1
    { period := 10, limit := 100, exempt := [2] } { start := 5, total := 100 }
    (by decide) (by decide) (by decide) (by decide) (by decide)

/-- `usage_total_exact` instantiated on `demo15`: the segment after the limit was set starts without a usage
record; after four ops the record is `[5, 15)` with total 100 = 60 + 40 -/
example : (100 : Nat) = sumIn 5 10 (limitedSends 1 { period := 10, limit := 100, exempt := [2] }
      (run (demo15.take 4)) ((demo15.drop 4).take 4)) :=
  (usage_total_exact (run (demo15.take 4)) ((demo15.drop 4).take 4) 1 { period := 10, limit := 100, exempt := [2] }
    { start := 5, total := 100 } (by decide) (by decide) (by decide) (by decide) (by decide) (by decide)).1

/-- tax burned on execution, through `run`: rate 1/3, 100 sent (tax 33), batch built, executed-batch claim
attested in an end-block: the supply falls by 133, the burned transfer carries the acceptance tax although the
rate was changed before the execution -/
def demoBurn : List Op :=
  [ .fund 1 1 1000, .setTax 1 (some { num := 1, den := 3, exempt := [] }),
    .send Fault.none 1 1 100 10, .build Fault.none 1 1000,
    .setTax 1 (some { num := 1, den := 2, exempt := [] }),
    .claim 1 (.executed 1 1 5), .endBlock Fault.none 7 1001 [1] [] ]

example : ((run demoBurn).burned.map (fun t => (t.id, t.amount, t.tax))) = [(1, 100, 33)] ∧
    (run (demoBurn.take 6)).supply 1 = 1000 ∧ (run demoBurn).supply 1 = 1000 - 133 ∧
    (run (demoBurn.take 6)).escrow 1 = 133 ∧ (run demoBurn).escrow 1 = 0 ∧
    (run demoBurn).applied = [(1, .executed 1 1 5, .ok)] := by decide

/-- Two sends of one non-exempt sender on a fresh token, `dh` blocks apart (the `walk` op of the correspondence): the first
    passes exactly when it is within the limit, and then the second passes exactly when — still inside the window opened
    by the first (`dh < period`) — both together are within the limit, or — the window having run out — it alone is. -/
theorem two_sends_window (p l a1 h0 dh a2 : Nat) (hp : p ≠ 0) :
    limitStep (some { period := p, limit := l, exempt := [] }) none 1 a1 h0
      = (if a1 ≤ l then some (some { start := h0, total := a1 }) else none) ∧
    (limitStep (some { period := p, limit := l, exempt := [] }) (some { start := h0, total := a1 }) 1 a2 (h0 + dh)).isSome
      = (if dh < p then decide (a1 + a2 ≤ l) else decide (a2 ≤ l)) := by
  have h2 : (p == 0) = false := by simpa using hp
  constructor
  · simp only [limitStep, List.contains_nil, Bool.false_eq_true, if_false, h2]
    by_cases h : a1 ≤ l
    · have : ¬ a1 > l := by omega
      simp [h, this]
    · have : a1 > l := by omega
      simp [h, this]
  · simp only [limitStep, List.contains_nil, Bool.false_eq_true, if_false, h2]
    have e : h0 + dh - h0 = dh := by omega
    simp only [e]
    by_cases hd : dh < p
    · have : ¬ dh ≥ p := by omega
      simp only [this, if_false, hd, if_true]
      by_cases h : a1 + a2 ≤ l
      · have : ¬ a1 + a2 > l := by omega
        simp [h, this]
      · have : a1 + a2 > l := by omega
        simp [h, this]
    · have : dh ≥ p := by omega
      simp only [this, if_true, hd, if_false]
      by_cases h : a2 ≤ l
      · have : ¬ a2 > l := by omega
        simp [h, this]
      · have : a2 > l := by omega
        simp [h, this]

/-- the walk on which a 360-day year shows (replay of the seeded change C15-r3m2): one block before a year is over the window still runs -/
example : (limitStep (some { period := 21024000, limit := 568, exempt := [] }) (some { start := 159416737, total := 447 }) 1 122 (159416737 + 21023999)).isSome = false := by
  rw [(two_sends_window 21024000 568 447 159416737 21023999 122 (by decide)).2]; decide

end Paloma.Bridge
