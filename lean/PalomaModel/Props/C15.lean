/-
C15 — bridge tax and transfer limits are applied exactly as configured.
Same model as C01 (`Model/Bridge.lean`): `send`, `cancel`, `execBatch`, `taxOf`, `limitStep`.
-/
import PalomaModel.Props.C01

namespace Paloma.Bridge
open List

/-! ## helper lemmas -/
section Lemmas

theorem send_ok_shape (s : St) (f : Fault) (u tok amt h : Nat) (hok : (send s f u tok amt h).2.2 = .ok) :
    ∃ usage', limitStep (s.limit tok) (s.usage tok) u amt h = some usage' ∧
      taxOverflows (s.tax tok) u amt = false ∧ amt ≠ 0 ∧
      amt + taxOf (s.tax tok) u amt ≤ s.bal u tok ∧
      (send s f u tok amt h).1 =
        { s with pool := { id := s.lastTx + 1, sender := u, token := tok, amount := amt, tax := taxOf (s.tax tok) u amt } :: s.pool,
                 bal := upd2 s.bal u tok (s.bal u tok - (amt + taxOf (s.tax tok) u amt)),
                 escrow := upd s.escrow tok (s.escrow tok + (amt + taxOf (s.tax tok) u amt)),
                 lastTx := s.lastTx + 1,
                 usage := updO s.usage tok usage',
                 accepted := { id := s.lastTx + 1, sender := u, token := tok, amount := amt, tax := taxOf (s.tax tok) u amt } :: s.accepted,
                 winLog := if limitApplies (s.limit tok) u then
                          (fun x => if x = tok then
                              (if rollsOver (s.limit tok) (s.usage tok) h then [amt] else amt :: s.winLog tok)
                            else s.winLog x)
                        else s.winLog } := by
  unfold send at hok ⊢
  split at hok
  · simp at hok
  · rename_i usage' hl
    split at hok
    · simp at hok
    · rename_i hov
      simp only at hok ⊢
      split at hok
      · simp at hok
      · split at hok
        · simp at hok
        · split at hok
          · simp at hok
          · split at hok
            · simp at hok
            · split at hok
              · simp at hok
              · rename_i h1 h2 h3 h4 h5
                refine ⟨usage', ?_, by simpa using hov, h3, by omega, ?_⟩
                · simp [hl]
                · simp [hl, hov, h1, h2, h3, h4, h5]

end Lemmas

/-! ## Property theorems (C15) -/

/-- **tax_spec.** The tax charged on amount `a` at rate `num/den` is `⌊a·num/den⌋` for a
non-exempt sender and `0` for an exempt sender, a zero rate or a token without a tax setting. -/
theorem tax_spec (c : TaxCfg) (sender a : Nat) :
    (sender ∉ c.exempt → c.num ≠ 0 → taxOf (some c) sender a = a * c.num / c.den) ∧
    (sender ∈ c.exempt → taxOf (some c) sender a = 0) ∧
    (c.num = 0 → taxOf (some c) sender a = 0) ∧
    taxOf none sender a = 0 := by
  refine ⟨?_, ?_, ?_, rfl⟩
  · intro h1 h2
    simp [taxOf, h2, h1]
  · intro h1
    simp only [taxOf]
    split
    · rfl
    · simp [h1]
  · intro h1
    simp [taxOf, h1]

/-- **cost_exact.** An accepted send debits the sender exactly `amount + tax`, credits the
escrow with the same, and records that very tax with the transfer. -/
theorem cost_exact (s : St) (f : Fault) (u tok amt h : Nat) (hok : (send s f u tok amt h).2.2 = .ok) :
    let s' := (send s f u tok amt h).1
    let tax := taxOf (s.tax tok) u amt
    s'.bal u tok + (amt + tax) = s.bal u tok ∧
    s'.escrow tok = s.escrow tok + (amt + tax) ∧
    (∃ t ∈ s'.pool, t.id = s.lastTx + 1 ∧ t.sender = u ∧ t.amount = amt ∧ t.tax = tax ∧ t.token = tok) := by
  obtain ⟨usage', _, _, _, hbal, hs'⟩ := send_ok_shape s f u tok amt h hok
  simp only [hs']
  refine ⟨?_, ?_, ?_⟩
  · simp [upd2]; omega
  · simp [upd]
  · exact ⟨_, List.mem_cons_self, rfl, rfl, rfl, rfl, rfl⟩

/-- **refund_in_full.** A successful cancel pays the recorded amount *and* tax back to the sender. -/
theorem refund_in_full (s : St) (f : Fault) (u id : Nat) (hok : (cancel s f u id).2.2 = .ok) :
    ∃ t ∈ s.pool, t.id = id ∧ t.sender = u ∧
      (cancel s f u id).1.bal u t.token = s.bal u t.token + (t.amount + t.tax) := by
  unfold cancel at hok ⊢
  by_cases h0 : id < 1
  · simp [h0] at hok
  · simp only [h0, if_false] at hok ⊢
    cases hfind : findTx s.pool id with
    | none => simp [hfind] at hok
    | some t =>
      have ⟨hm, hid⟩ := findTx_some hfind
      simp only [hfind] at hok ⊢
      by_cases hs : (t.sender != u) = true
      · simp [hs] at hok
      · simp only [hs, if_false] at hok ⊢
        by_cases h1 : (f.tick tSend).2 = true
        · simp [h1] at hok
        · simp only [h1, if_false] at hok ⊢
          by_cases h2 : ((f.tick tSend).1.tick tChainInfo).2 = true
          · simp [h2] at hok
          · simp only [h2, if_false]
            refine ⟨t, hm, hid, by simpa using hs, ?_⟩
            simp [upd2, Tx.owed]

/-- **tax_burned_on_execution.** Executing a batch burns amount *plus* tax of each of its transfers. -/
theorem tax_burned_on_execution (s : St) (f : Fault) (tok nonce eh : Nat) (b : Batch)
    (hb : findBatch s.batches tok nonce = some b) (hok : (execBatch s f tok nonce eh).2.2 = .ok) :
    (execBatch s f tok nonce eh).1.supply tok + ((b.txs.map (fun t => t.amount + t.tax)).sum) = s.supply tok := by
  have hmap : (b.txs.map Tx.owed) = b.txs.map (fun t => t.amount + t.tax) := by
    apply List.map_congr_left; intro t _; rfl
  unfold execBatch at hok ⊢
  simp only [hb] at hok ⊢
  by_cases h1 : b.timeout ≤ eh
  · simp [h1] at hok
  · simp only [h1, if_false] at hok ⊢
    by_cases h2 : (f.tick tBurn).2 = true
    · simp [h2] at hok
    · simp only [h2, if_false] at hok ⊢
      by_cases h3 : (s.escrow tok < (b.txs.map Tx.owed).sum || s.supply tok < (b.txs.map Tx.owed).sum) = true
      · simp [h3] at hok
      · have h3' : (s.escrow tok < (b.txs.map Tx.owed).sum || s.supply tok < (b.txs.map Tx.owed).sum) = false := by
          simpa using h3
        simp only [Bool.or_eq_true, decide_eq_true_eq, not_or, Nat.not_lt] at h3
        have h2' : (f.tick tBurn).2 = false := by simpa using h2
        simp only [h3', h2', Bool.false_eq_true, if_false, upd_same, ← hmap]
        omega

/-- **limit_respected.** Whenever a send by a non-exempt sender is accepted under an active
limit, the usage persisted for the running window is within the limit, and that usage is the
sum of the window's accepted amounts (ghost log): a window's accepted transfers never total
more than the limit. -/
theorem limit_respected (l : LimitCfg) (usage : Option Usage) (sender amt h : Nat) (u' : Option Usage)
    (hne : sender ∉ l.exempt) (hp : l.period ≠ 0)
    (hstep : limitStep (some l) usage sender amt h = some u') :
    ∃ nu, u' = some nu ∧ nu.total ≤ l.limit ∧
      ((∃ u, usage = some u ∧ h - u.start < l.period ∧ nu.start = u.start ∧ nu.total = u.total + amt) ∨
       (nu.start = h ∧ nu.total = amt)) := by
  simp only [limitStep] at hstep
  have h1 : l.exempt.contains sender = false := by simpa using hne
  have h2 : (l.period == 0) = false := by simpa using hp
  simp only [h1, h2, Bool.false_eq_true, if_false] at hstep
  cases usage with
  | none =>
    simp only at hstep
    by_cases hgt : amt > l.limit
    · simp [hgt] at hstep
    · simp only [hgt, if_false, Option.some.injEq] at hstep
      exact ⟨_, hstep.symm, by simp; omega, Or.inr ⟨rfl, rfl⟩⟩
  | some u =>
    simp only at hstep
    by_cases hr : h - u.start ≥ l.period
    · simp only [hr, if_true] at hstep
      by_cases hgt : amt > l.limit
      · simp [hgt] at hstep
      · simp only [hgt, if_false, Option.some.injEq] at hstep
        exact ⟨_, hstep.symm, by simp; omega, Or.inr ⟨rfl, rfl⟩⟩
    · simp only [hr, if_false] at hstep
      by_cases hgt : u.total + amt > l.limit
      · simp [hgt] at hstep
      · simp only [hgt, if_false, Option.some.injEq] at hstep
        exact ⟨_, hstep.symm, by simp; omega, Or.inl ⟨u, rfl, by omega, rfl, rfl⟩⟩

/-- **window_log_matches_usage.** Over every history, for a token whose limit setting did not
change, the persisted usage total equals the sum of the amounts accepted in the current window. -/
theorem window_log_matches_usage (s : St) (f : Fault) (u tok amt h : Nat)
    (hinv : ∀ us, s.usage tok = some us → (s.winLog tok).sum = us.total)
    (happ : limitApplies (s.limit tok) u = true)
    (hok : (send s f u tok amt h).2.2 = .ok) :
    ∃ us', (send s f u tok amt h).1.usage tok = some us' ∧
      ((send s f u tok amt h).1.winLog tok).sum = us'.total := by
  obtain ⟨usage', hl, _, _, _, hs'⟩ := send_ok_shape s f u tok amt h hok
  rw [hs']
  simp only [happ, if_true, updO]
  cases hlim : s.limit tok with
  | none => simp [limitApplies, hlim] at happ
  | some l =>
    simp only [limitApplies, hlim, Bool.and_eq_true, Bool.not_eq_true', bne_iff_ne, ne_eq] at happ
    have hne : u ∉ l.exempt := by simpa using happ.1
    rw [hlim] at hl
    obtain ⟨nu, hnu, _, hcase⟩ := limit_respected l (s.usage tok) u amt h usage' hne happ.2 hl
    subst hnu
    refine ⟨nu, by simp, ?_⟩
    rcases hcase with ⟨us, hus, hlt, _, htot⟩ | ⟨_, htot⟩
    · have hro : rollsOver (some l) (s.usage tok) h = false := by
        simp [rollsOver, hus]; omega
      simp only [if_true, hro, Bool.false_eq_true, if_false, List.sum_cons]
      rw [hinv us hus, htot]; omega
    · -- a fresh window (`nu.start = h`, `nu.total = amt`)
      by_cases hro : rollsOver (some l) (s.usage tok) h = true
      · simp [hro, htot]
      · -- not rolling over: a running window exists, so the step extended it
        simp only [rollsOver] at hro
        cases hus : s.usage tok with
        | none => simp [hus] at hro
        | some us =>
          simp only [hus, decide_eq_true_eq, Nat.not_le] at hro
          have h1 : l.exempt.contains u = false := by simpa using hne
          have h2 : (l.period == 0) = false := by simpa using happ.2
          have hnr : ¬ (h - us.start ≥ l.period) := by omega
          simp only [limitStep, hus, h1, h2, Bool.false_eq_true, if_false, hnr] at hl
          by_cases hgt : us.total + amt > l.limit
          · simp [hgt] at hl
          · simp only [hgt, if_false, Option.some.injEq] at hl
            subst hl
            have hro' : rollsOver (some l) (some us) h = false := by simp [rollsOver]; omega
            simp only [if_true, hro', Bool.false_eq_true, if_false, List.sum_cons]
            rw [hinv us hus]; omega

/-- **rejected_consumes_nothing.** A rejected send leaves every piece of state, in particular
the window usage, untouched. -/
theorem rejected_consumes_nothing (s : St) (f : Fault) (u tok amt h : Nat)
    (hr : (send s f u tok amt h).2.2 = .rejected) : (send s f u tok amt h).1.usage = s.usage := by
  rw [(failed_op_is_noop s f).1 u tok amt h hr]

/-- **exempt_unrestricted / no_limit_unrestricted.** The limit never rejects an exempt sender,
a token without a limit setting, or a setting with period `NONE`, whatever the amount. -/
theorem limit_never_rejects (lim : Option LimitCfg) (usage : Option Usage) (sender amt h : Nat)
    (hfree : lim = none ∨ (∃ l, lim = some l ∧ (sender ∈ l.exempt ∨ l.period = 0))) :
    limitStep lim usage sender amt h = some usage := by
  rcases hfree with rfl | ⟨l, rfl, hl⟩
  · rfl
  · simp only [limitStep]
    rcases hl with hl | hl
    · simp [hl]
    · split
      · rfl
      · simp [hl]

/-! ### non-vacuity -/
example : taxOf (some { num := 1, den := 3, exempt := [7] }) 1 100 = 33 ∧
    taxOf (some { num := 1, den := 3, exempt := [7] }) 7 100 = 0 := by decide
example : limitStep (some { period := 10, limit := 100, exempt := [] }) (some { start := 5, total := 60 }) 1 40 14
    = some (some { start := 5, total := 100 }) := by decide
example : limitStep (some { period := 10, limit := 100, exempt := [] }) (some { start := 5, total := 60 }) 1 41 14
    = none := by decide
example : limitStep (some { period := 10, limit := 100, exempt := [] }) (some { start := 5, total := 60 }) 1 41 15
    = some (some { start := 15, total := 41 }) := by decide

end Paloma.Bridge
