/-
C13 — validators are never punished for doing what the chain asked.

Part A (bad-signature evidence), on the bridge model (`Model/Bridge.lean`).  "Issued" is defined from the
executable state: a checkpoint is issued when it is the signing bytes (`Batch.ckpt`) of a batch that is
open in some state of the history.  Every such checkpoint is archived at once and for ever, evidence can
only jail for a checkpoint that is not archived, and the jailed validator is the one that *registered*
the key the signature recovers to (`St.keys`, written by `registerKey`).

Part B (prune-time jailing): `pruneJail` (the decision of `jailValidatorsWhichMissedAttestation`) and a
small queue machine (`PSt`: messages with their evidence, a jailed set; ops: put / add evidence / prune).
-/
import PalomaModel.Props.C01
import PalomaModel.Gen.Atomicity
import PalomaModel.Model.Libcons

namespace Paloma.Bridge
open List

/-- bridge operations, evidence submission by anybody, key (re-)registration by a validator -/
inductive Op13 where
  | bridge (op : Op)
  | evidence (c : Ckpt) (key : Nat)
  | register (v key : Nat)

def apply13 (s : St) : Op13 → St
  | .bridge op => apply s op
  | .evidence c key => (evidence s c key).1
  | .register v key => (registerKey s v key).1

def run13 (ops : List Op13) : St := ops.foldl apply13 St.init

/-! ## helper lemmas -/
section Lemmas

theorem run13_append (a b : List Op13) : run13 (a ++ b) = b.foldl apply13 (run13 a) := by
  unfold run13; rw [List.foldl_append]

theorem run13_snoc (a : List Op13) (op : Op13) : run13 (a ++ [op]) = apply13 (run13 a) op := by
  rw [run13_append]; rfl

/-- lifting a step relation to histories with evidence and registration -/
theorem StepRel.foldl13 {R : St → St → Prop} (hR : StepRel R)
    (hev : ∀ s c key, R s (evidence s c key).1) (hreg : ∀ s v key, R s (registerKey s v key).1)
    (ops : List Op13) : ∀ s, R s (ops.foldl apply13 s) := by
  induction ops with
  | nil => intro s; exact hR.refl s
  | cons op rest ih =>
    intro s
    refine hR.trans ?_ (ih _)
    cases op with
    | bridge op => exact hR.apply s op
    | evidence c key => exact hev s c key
    | register v key => exact hreg s v key

theorem evidence_cases (s : St) (c : Ckpt) (key : Nat) :
    ((evidence s c key).1 = s) ∨
    (c ∉ s.archive ∧ ∃ v, lookupKey s.keys key = some v ∧ v ∉ s.jailed ∧
      (evidence s c key).1 = { s with jailed := v :: s.jailed }) := by
  unfold evidence
  split
  · exact Or.inl rfl
  · rename_i harch
    split
    · exact Or.inl rfl
    · rename_i v hv
      split
      · exact Or.inl rfl
      · rename_i hj
        exact Or.inr ⟨by simpa using harch, v, hv, by simpa using hj, rfl⟩

theorem registerKey_cases (s : St) (v key : Nat) :
    ((registerKey s v key).1 = s) ∨
    ((s.keys.any (fun p => p.1 != v && p.2 == key)) = false ∧
      (registerKey s v key).1 = { s with keys := setKey s.keys v key }) := by
  unfold registerKey
  split
  · exact Or.inl rfl
  · split
    · exact Or.inl rfl
    · rename_i h
      exact Or.inr ⟨Bool.eq_false_iff.mpr h, rfl⟩

/-! ### the archive only grows, and holds the checkpoint of every open batch -/

def ArchSub (s s' : St) : Prop := ∀ c ∈ s.archive, c ∈ s'.archive

theorem archSub_stepRel : StepRel ArchSub where
  refl := fun _ _ h => h
  trans := fun h1 h2 c hc => h2 c (h1 c hc)
  build := by
    intro s f tok time c hc
    rcases buildOne_cases s f tok time with ⟨_, h⟩ | ⟨_, _, h⟩ <;> rw [h]
    · exact hc
    · exact List.mem_cons_of_mem _ hc
  cancelBatch := by
    intro s f tok nonce c hc
    rcases cancelBatch_cases s f tok nonce with ⟨_, h⟩ | ⟨_, b, _, h⟩ <;> rw [h] <;> exact hc
  setEstimate := by
    intro s f tok nonce est c hc
    rcases setEstimate_cases s f tok nonce est with ⟨_, h⟩ | ⟨_, b, _, _, h⟩ <;> rw [h]
    · exact hc
    · exact List.mem_cons_of_mem _ hc
  observe := by
    intro s f n c _ _ x hx
    rw [observe_state]
    rcases applyClaim_cases { s with lastObserved := n } f c with
      ⟨_, h⟩ | ⟨_, ⟨_, _, _, b, _, _, _, _, _, h⟩ | ⟨_, _, _, _, _, _, h⟩⟩ <;> simp only [h] <;> exact hx
  send := by
    intro s f u tok amt h c hc
    rcases send_cases s f u tok amt h with ⟨_, h1⟩ | ⟨_, usage', _, _, _, _, _, h1⟩ <;> rw [h1] <;> exact hc
  cancel := by
    intro s f u id c hc
    rcases cancel_cases s f u id with ⟨_, h1⟩ | ⟨_, t, _, _, h1⟩ <;> rw [h1] <;> exact hc
  fund := fun _ _ _ _ _ hc => hc
  setTax := by intro s tok cfg c hc; rw [(setTax_other s tok cfg).2.2.1]; exact hc
  setLimit := fun _ _ _ _ hc => hc
  addClaim := by intro s n cl c hc; rw [(addClaim_other s n cl).2.2.1]; exact hc

theorem archSub_foldl13 (ops : List Op13) (s : St) : ArchSub s (ops.foldl apply13 s) := by
  refine StepRel.foldl13 archSub_stepRel ?_ ?_ ops s
  · intro s c key x hx
    rcases evidence_cases s c key with h | ⟨_, v, _, _, h⟩ <;> rw [h] <;> exact hx
  · intro s v key x hx
    rcases registerKey_cases s v key with h | ⟨_, h⟩ <;> rw [h] <;> exact hx

/-- every open batch's current signing bytes are archived -/
def OpenArchived (s : St) : Prop := ∀ b ∈ s.batches, b.ckpt ∈ s.archive

theorem openArchived_congr {s s' : St} (h : OpenArchived s) (h1 : s'.batches = s.batches)
    (h2 : s'.archive = s.archive) : OpenArchived s' := by
  unfold OpenArchived; rw [h1, h2]; exact h

theorem openArchived_stepRel : StepRel (Preserves OpenArchived) where
  refl := fun _ h => h
  trans := fun h1 h2 h => h2 (h1 h)
  build := by
    intro s f tok time hp
    rcases buildOne_cases s f tok time with ⟨_, h⟩ | ⟨_, _, h⟩ <;> rw [h]
    · exact hp
    · intro b hb
      simp only [buildOk, List.mem_cons] at hb ⊢
      rcases hb with rfl | hb
      · exact Or.inl rfl
      · exact Or.inr (hp b hb)
  cancelBatch := by
    intro s f tok nonce hp
    rcases cancelBatch_cases s f tok nonce with ⟨_, h⟩ | ⟨_, b, _, h⟩ <;> rw [h]
    · exact hp
    · intro b' hb'
      exact hp b' ((removeBatch_sublist _ _ _).subset hb')
  setEstimate := by
    intro s f tok nonce est hp
    rcases setEstimate_cases s f tok nonce est with ⟨_, h⟩ | ⟨_, b, _, _, h⟩ <;> rw [h]
    · exact hp
    · intro b' hb'
      simp only [estimateOk, List.mem_map] at hb'
      obtain ⟨x, hx, rfl⟩ := hb'
      simp only [estimateOk, List.mem_cons]
      split
      · rename_i hk
        simp only [Bool.and_eq_true, beq_iff_eq] at hk
        left
        simp [Batch.ckpt, hk.1, hk.2]
      · exact Or.inr (hp x hx)
  observe := by
    intro s f n c _ _ hp
    rw [observe_state]
    rcases applyClaim_cases { s with lastObserved := n } f c with
      ⟨_, h⟩ | ⟨_, ⟨_, _, _, b, _, _, _, _, _, h⟩ | ⟨_, _, _, _, _, _, h⟩⟩ <;> simp only [h]
    · exact hp
    · intro b' hb'
      exact hp b' ((removeBatch_sublist _ _ _).subset hb')
    · exact hp
  send := by
    intro s f u tok amt h hp
    rcases send_cases s f u tok amt h with ⟨_, h1⟩ | ⟨_, usage', _, _, _, _, _, h1⟩ <;> rw [h1] <;> exact hp
  cancel := by
    intro s f u id hp
    rcases cancel_cases s f u id with ⟨_, h1⟩ | ⟨_, t, _, _, h1⟩ <;> rw [h1] <;> exact hp
  fund := fun _ _ _ _ hp => hp
  setTax := fun s tok cfg hp => openArchived_congr hp (setTax_other s tok cfg).2.1 (setTax_other s tok cfg).2.2.1
  setLimit := fun _ _ _ hp => hp
  addClaim := fun s n cl hp => openArchived_congr hp (addClaim_other s n cl).2.1 (addClaim_other s n cl).2.2.1

theorem openArchived_run13 (ops : List Op13) : OpenArchived (run13 ops) := by
  refine StepRel.foldl13 openArchived_stepRel ?_ ?_ ops St.init (by intro b hb; simp [St.init] at hb)
  · intro s c key hp
    rcases evidence_cases s c key with h | ⟨_, v, _, _, h⟩ <;> rw [h] <;> exact hp
  · intro s v key hp
    rcases registerKey_cases s v key with h | ⟨_, h⟩ <;> rw [h] <;> exact hp

/-! ### bridge operations never touch the jailed set or the key registry -/

theorem frame_jailed : StepRel (fun s s' => s'.jailed = s.jailed) :=
  StepRel.ofFrame (·.jailed)
    (InnerRel.ofFrame (·.jailed) (fun _ _ _ => rfl) (fun _ _ => rfl) (fun _ _ _ _ => rfl) (fun _ _ => rfl)
      (fun _ _ _ _ => rfl) (fun _ _ => rfl) (fun _ _ => rfl))
    (fun _ _ _ _ _ => rfl) (fun _ _ => rfl) (fun _ _ _ _ => rfl)
    (fun s tok c => (setTax_other s tok c).2.2.2.2.1) (fun _ _ _ => rfl) (fun s n c => (addClaim_other s n c).2.2.2.2.1)

theorem frame_keys : StepRel (fun s s' => s'.keys = s.keys) :=
  StepRel.ofFrame (·.keys)
    (InnerRel.ofFrame (·.keys) (fun _ _ _ => rfl) (fun _ _ => rfl) (fun _ _ _ _ => rfl) (fun _ _ => rfl)
      (fun _ _ _ _ => rfl) (fun _ _ => rfl) (fun _ _ => rfl))
    (fun _ _ _ _ _ => rfl) (fun _ _ => rfl) (fun _ _ _ _ => rfl)
    (fun s tok c => (setTax_other s tok c).2.2.2.1) (fun _ _ _ => rfl) (fun s n c => (addClaim_other s n c).2.2.2.1)

/-- the jailed set is written by an evidence op only: the looked-up holder of the signing key is
    prepended, and only when the checkpoint is not archived -/
theorem apply13_jailed (s : St) (op : Op13) :
    (apply13 s op).jailed = s.jailed ∨
    ∃ c key v, op = .evidence c key ∧ c ∉ s.archive ∧ lookupKey s.keys key = some v ∧
      (apply13 s op).jailed = v :: s.jailed := by
  cases op with
  | bridge op => exact Or.inl (frame_jailed.apply s op)
  | evidence c key =>
    rcases evidence_cases s c key with h | ⟨hc, v, hv, _, h⟩
    · left; simp only [apply13, h]
    · right; exact ⟨c, key, v, rfl, hc, hv, by simp only [apply13, h]⟩
  | register v key =>
    left
    rcases registerKey_cases s v key with h | ⟨_, h⟩ <;> simp only [apply13, h]

/-! ### the key registry: a key has at most one holder -/

theorem lookupKey_some {keys : List (Nat × Nat)} {key v : Nat} (h : lookupKey keys key = some v) :
    (v, key) ∈ keys := by
  unfold lookupKey at h
  cases hf : keys.find? (fun p => p.2 == key) with
  | none => simp [hf] at h
  | some p =>
    simp only [hf, Option.map_some, Option.some.injEq] at h
    have hm := List.mem_of_find?_eq_some hf
    have hp : p.2 = key := by simpa using List.find?_some hf
    obtain ⟨a, b⟩ := p
    simp only at h hp
    subst h; subst hp
    exact hm

theorem mem_setKey {keys : List (Nat × Nat)} {v k : Nat} {x : Nat × Nat} (h : x ∈ setKey keys v k) :
    x = (v, k) ∨ x ∈ keys := by
  induction keys with
  | nil => simp only [setKey, List.mem_singleton] at h; exact Or.inl h
  | cons p ps ih =>
    simp only [setKey] at h
    split at h
    · simp only [List.mem_cons] at h ⊢
      rcases h with h | h
      · exact Or.inl h
      · exact Or.inr (Or.inr h)
    · simp only [List.mem_cons] at h ⊢
      rcases h with h | h
      · exact Or.inr (Or.inl h)
      · rcases ih h with h' | h'
        · exact Or.inl h'
        · exact Or.inr (Or.inr h')

/-- a remote key determines its holder -/
def KeysUnique (s : St) : Prop := ∀ p ∈ s.keys, ∀ q ∈ s.keys, p.2 = q.2 → p.1 = q.1

theorem keysUnique_register (s : St) (v key : Nat) (h : KeysUnique s) : KeysUnique (registerKey s v key).1 := by
  rcases registerKey_cases s v key with h1 | ⟨hany, h1⟩ <;> rw [h1]
  · exact h
  · have hno : ∀ q ∈ s.keys, q.2 = key → q.1 = v := by
      intro q hq hk
      have := List.any_eq_false.mp hany q hq
      simp only [Bool.and_eq_true, bne_iff_ne, ne_eq, beq_iff_eq, not_and] at this
      exact Classical.byContradiction fun hne => this hne hk
    intro p hp q hq hpq
    simp only at hp hq
    rcases mem_setKey hp with rfl | hp' <;> rcases mem_setKey hq with rfl | hq'
    · rfl
    · exact (hno q hq' hpq.symm).symm
    · exact hno p hp' hpq
    · exact h p hp' q hq' hpq

theorem keysUnique_run13 (ops : List Op13) : KeysUnique (run13 ops) := by
  unfold run13
  suffices h : ∀ s, KeysUnique s → KeysUnique (ops.foldl apply13 s) from
    h _ (by intro p hp; simp [St.init] at hp)
  induction ops with
  | nil => intro s h; exact h
  | cons op rest ih =>
    intro s h
    apply ih
    cases op with
    | bridge op =>
      have := frame_keys.apply s op
      unfold KeysUnique; simp only [apply13]; rw [this]; exact h
    | evidence c key =>
      rcases evidence_cases s c key with h1 | ⟨_, v, _, _, h1⟩ <;>
        (unfold KeysUnique; simp only [apply13]; rw [h1]; exact h)
    | register v key => exact keysUnique_register s v key h

end Lemmas

end Paloma.Bridge

/-! ## Part B definitions and helper lemmas: prune-time jailing -/
namespace Paloma.Libcons

/-- who gets jailed when a contested / undelivered message is pruned
(`jailValidatorsWhichMissedAttestation`): nobody if no snapshot validator supplied evidence or fewer
than 10 % of the shares did; otherwise the snapshot validators without evidence. `evs` are the
validators that supplied evidence. -/
def pruneJail (s : Snapshot) (evs : List Nat) : List Nat :=
  match (tally s evs).sum with
  | none => []
  | some votes =>
    if 10 * votes < s.total then []
    else if s.vals.isEmpty || s.total == 0 then []
    else (s.vals.map (·.1)).filter (fun a => !evs.contains a)

/-- the evidence a message holds after the accepted submissions `subs` (validator, proof), oldest
first, each validator any number of times: `QueuedSignedMessage.AddEvidence` folded over the history -/
def evidenceAfter (subs : List Evidence) : List Evidence := subs.foldl addEvidence []

/-- `PruneJob` on a message holding the evidence `evs`: nobody is jailed for a message without a
delivery / error report (`punishValidatorForMissingRelay`) nor when the evidence does reach consensus
(`jailValidatorsWhichMissedAttestation` bails out); otherwise `pruneJail` over the suppliers.
(`Driver.Queue.stepPrune` prints exactly this for `evs = evidenceAfter submissions`.) -/
def pruneOutcome (delivered : Bool) (snap : Snapshot) (evs : List Evidence) : List Nat :=
  if !delivered then []
  else match verifyEvidence snap evs with
    | .winnerIn _ => []
    | .notAchieved => pruneJail snap (evs.map (·.1))

section Lemmas

theorem addEvidence_keeps (l : List Evidence) (e : Evidence) (v : Nat) (hv : v ∈ l.map (·.1)) :
    v ∈ (addEvidence l e).map (·.1) := by
  induction l with
  | nil => simp at hv
  | cons x xs ih =>
    unfold addEvidence
    split
    · simpa using hv
    · simp only [List.map_cons, List.mem_cons] at hv ⊢
      rcases hv with h | h
      · exact Or.inl h
      · exact Or.inr (ih h)

theorem addEvidence_adds (l : List Evidence) (e : Evidence) : e.1 ∈ (addEvidence l e).map (·.1) := by
  induction l with
  | nil => simp [addEvidence]
  | cons x xs ih =>
    unfold addEvidence
    split
    · rename_i h
      simp only [List.map_cons, List.mem_cons]
      exact Or.inl (by simpa using (beq_iff_eq.mp h).symm)
    · simp only [List.map_cons, List.mem_cons]
      exact Or.inr ih

theorem foldl_addEvidence_keeps (subs : List Evidence) : ∀ (init : List Evidence) (v : Nat),
    (v ∈ init.map (·.1) ∨ v ∈ subs.map (·.1)) → v ∈ (subs.foldl addEvidence init).map (·.1) := by
  induction subs with
  | nil => intro init v h; simpa using h
  | cons e es ih =>
    intro init v h
    simp only [List.foldl_cons]
    apply ih
    rcases h with h | h
    · exact Or.inl (addEvidence_keeps init e v h)
    · simp only [List.map_cons, List.mem_cons] at h
      rcases h with h | h
      · exact Or.inl (by rw [h]; exact addEvidence_adds init e)
      · exact Or.inr h

/-- `AddEvidence` only ever holds validators that were there or the submitter -/
theorem addEvidence_mem (l : List Evidence) (e : Evidence) (v : Nat) (hv : v ∈ (addEvidence l e).map (·.1)) :
    v ∈ l.map (·.1) ∨ v = e.1 := by
  induction l with
  | nil => simp only [addEvidence, List.map_cons, List.map_nil, List.mem_singleton] at hv; exact Or.inr hv
  | cons x xs ih =>
    unfold addEvidence at hv
    split at hv
    · exact Or.inl (by simpa using hv)
    · simp only [List.map_cons, List.mem_cons] at hv ⊢
      rcases hv with h | h
      · exact Or.inl (Or.inl h)
      · rcases ih h with h' | h'
        · exact Or.inl (Or.inr h')
        · exact Or.inr h'

/-- a message never holds two proofs of one validator -/
theorem addEvidence_nodup (l : List Evidence) (e : Evidence) (h : (l.map (·.1)).Nodup) :
    ((addEvidence l e).map (·.1)).Nodup := by
  induction l with
  | nil => simp [addEvidence]
  | cons x xs ih =>
    have hc := List.nodup_cons.mp (by simpa only [List.map_cons] using h)
    unfold addEvidence
    split
    · simpa only [List.map_cons] using h
    · rename_i hne
      simp only [List.map_cons]
      refine List.nodup_cons.mpr ⟨?_, ih hc.2⟩
      intro hm
      rcases addEvidence_mem xs e x.1 hm with h' | h'
      · exact hc.1 h'
      · exact hne (by simp [h'])

theorem foldl_addEvidence_nodup (subs : List Evidence) : ∀ (init : List Evidence),
    (init.map (·.1)).Nodup → ((subs.foldl addEvidence init).map (·.1)).Nodup := by
  induction subs with
  | nil => intro init h; exact h
  | cons e es ih => intro init h; exact ih _ (addEvidence_nodup init e h)

/-- shares of the snapshot entries whose validator is in `evs` -/
def attestedShares (s : Snapshot) (evs : List Nat) : Nat :=
  ((s.vals.filter (fun p => evs.contains p.1)).map (·.2)).sum

theorem lookup_of_nodup {vs : List (Nat × Nat)} (hnd : (vs.map (·.1)).Nodup) {p : Nat × Nat} (hp : p ∈ vs) :
    lookup vs p.1 = some p.2 := by
  induction vs with
  | nil => cases hp
  | cons x xs ih =>
    have hc := List.nodup_cons.mp (by simpa only [List.map_cons] using hnd)
    unfold lookup
    rcases List.mem_cons.mp hp with rfl | hm
    · simp
    · have hne : x.1 ≠ p.1 := fun e => hc.1 (List.mem_map.mpr ⟨p, hm, e.symm⟩)
      have : (x.1 == p.1) = false := by simpa using hne
      simp only [List.find?_cons, this]
      exact ih hc.2 hm

theorem lookup_none_of_not_mem {vs : List (Nat × Nat)} {a : Nat} (h : a ∉ vs.map (·.1)) : lookup vs a = none := by
  unfold lookup
  rw [List.find?_eq_none.mpr]
  · rfl
  · intro x hx
    have : x.1 ≠ a := fun e => h (List.mem_map.mpr ⟨x, hx, e⟩)
    simpa using this

/-- shares of the entries of `l` whose validator is in `evs` -/
def shareSum (evs : List Nat) (l : List (Nat × Nat)) : Nat :=
  ((l.filter (fun q => evs.contains q.1)).map (·.2)).sum

theorem shareSum_nil (evs : List Nat) : shareSum evs [] = 0 := rfl

theorem shareSum_cons (evs : List Nat) (x : Nat × Nat) (xs : List (Nat × Nat)) :
    shareSum evs (x :: xs) = (if x.1 ∈ evs then x.2 else 0) + shareSum evs xs := by
  unfold shareSum
  by_cases h : x.1 ∈ evs
  · have : evs.contains x.1 = true := by simpa using h
    simp [List.filter_cons, this, h]
  · have : evs.contains x.1 = false := by simpa using h
    simp [List.filter_cons, this, h]

theorem lookup_cons (x : Nat × Nat) (xs : List (Nat × Nat)) (a : Nat) :
    lookup (x :: xs) a = if x.1 = a then some x.2 else lookup xs a := by
  unfold lookup
  by_cases h : x.1 = a
  · simp [h]
  · have : (x.1 == a) = false := by simpa using h
    simp [List.find?_cons, this, h]

theorem shareSum_split (a : Nat) (as : List Nat) (ha : a ∉ as) : ∀ (l : List (Nat × Nat)), (l.map (·.1)).Nodup →
    shareSum (a :: as) l = (lookup l a).getD 0 + shareSum as l := by
  intro l
  induction l with
  | nil => intro _; simp [shareSum_nil, lookup]
  | cons x xs ih =>
    intro hx
    have hxc := List.nodup_cons.mp (by simpa only [List.map_cons] using hx)
    have ih' := ih hxc.2
    rw [shareSum_cons, shareSum_cons, lookup_cons, ih']
    by_cases hxa : x.1 = a
    · have hnot : a ∉ xs.map (·.1) := by rw [← hxa]; exact hxc.1
      have hnas : x.1 ∉ as := by rw [hxa]; exact ha
      rw [lookup_none_of_not_mem hnot]
      simp [hxa, ha]
    · have hmem : x.1 ∈ a :: as ↔ x.1 ∈ as := by simp [hxa]
      by_cases hin : x.1 ∈ as
      · simp only [hmem.mpr hin, hin, if_true, hxa, if_false]; omega
      · have : ¬ x.1 ∈ a :: as := fun h => hin (hmem.mp h)
        simp only [this, hin, if_false, hxa]; omega

/-- over distinct suppliers and a snapshot that lists every validator once, the votes counted by
    `VerifyEvidence` are exactly the shares of the snapshot validators that supplied evidence -/
theorem foundShares_sum_eq (vs : List (Nat × Nat)) (t : Nat) (hnd : (vs.map (·.1)).Nodup) :
    ∀ (evs : List Nat), evs.Nodup → (foundShares ⟨vs, t⟩ evs).sum = attestedShares ⟨vs, t⟩ evs := by
  intro evs
  induction evs with
  | nil =>
    intro _
    simp only [foundShares, attestedShares, List.filterMap_nil, List.sum_nil, List.contains_nil]
    rw [List.filter_eq_nil_iff.mpr (by simp)]
    rfl
  | cons a as ih =>
    intro had
    have hc := List.nodup_cons.mp had
    have ih' := ih hc.2
    have hs := shareSum_split a as hc.1 vs hnd
    unfold shareSum at hs
    unfold foundShares attestedShares at *
    simp only [Snapshot.share?] at *
    rw [hs, ← ih']
    simp only [List.filterMap_cons]
    cases hl : lookup vs a with
    | none =>
      have hl' : Snapshot.share? ⟨vs, t⟩ a = none := hl
      simp [hl']
    | some sh =>
      have hl' : Snapshot.share? ⟨vs, t⟩ a = some sh := hl
      simp [hl']

end Lemmas

/-! ### a small queue machine around `pruneOutcome`: messages with their evidence, a jailed set -/

structure PSt where
  /-- message id ↦ evidence held (`QueuedSignedMessage.Evidence`) -/
  msgs : List (Nat × List Evidence)
  jailed : List Nat

def PSt.init : PSt := { msgs := [], jailed := [] }

def PSt.evidenceOf (s : PSt) (id : Nat) : Option (List Evidence) := (s.msgs.find? (fun m => m.1 == id)).map (·.2)

inductive POp where
  /-- a message enters the queue (ids are allocated by the queue: an id in use is not reused) -/
  | put (id : Nat)
  /-- `MsgAddEvidence` by validator `e.1` with proof hash `e.2` -/
  | evidence (id : Nat) (e : Evidence)
  /-- `PruneJob`: `delivered` = the message carries public-access / error data, `snap` = the current snapshot -/
  | prune (id : Nat) (delivered : Bool) (snap : Snapshot)

def pstep (s : PSt) : POp → PSt
  | .put id => if s.msgs.any (fun m => m.1 == id) then s else { s with msgs := s.msgs ++ [(id, [])] }
  | .evidence id e => { s with msgs := s.msgs.map (fun m => if m.1 == id then (m.1, addEvidence m.2 e) else m) }
  | .prune id delivered snap =>
    match s.evidenceOf id with
    | none => s
    | some evs => { msgs := s.msgs.filter (fun m => !(m.1 == id)),
                    jailed := pruneOutcome delivered snap evs ++ s.jailed }

def prun (ops : List POp) : PSt := ops.foldl pstep PSt.init

section Lemmas2

theorem prun_snoc (a : List POp) (op : POp) : prun (a ++ [op]) = pstep (prun a) op := by
  unfold prun; rw [List.foldl_append]; rfl

/-- ids in the queue are distinct -/
theorem pstep_ids_nodup (s : PSt) (op : POp) (h : (s.msgs.map (·.1)).Nodup) : ((pstep s op).msgs.map (·.1)).Nodup := by
  cases op with
  | put id =>
    simp only [pstep]
    split
    · exact h
    · rename_i hany
      simp only [List.map_append, List.map_cons, List.map_nil]
      refine List.nodup_append.mpr ⟨h, by simp, ?_⟩
      intro a ha b hb
      simp only [List.mem_singleton] at hb
      subst hb
      intro hab; subst hab
      apply hany
      rcases List.mem_map.mp ha with ⟨x, hx, rfl⟩
      exact List.any_eq_true.mpr ⟨x, hx, by simp⟩
  | evidence id e =>
    simp only [pstep]
    have : (s.msgs.map (fun m => if m.1 == id then (m.1, addEvidence m.2 e) else m)).map (·.1) = s.msgs.map (·.1) := by
      rw [List.map_map]
      apply List.map_congr_left
      intro m _
      simp only [Function.comp]
      split <;> rfl
    rw [this]; exact h
  | prune id dl snap =>
    simp only [pstep]
    split
    · exact h
    · exact h.sublist ((List.filter_sublist).map _)

theorem prun_ids_nodup (ops : List POp) : ((prun ops).msgs.map (·.1)).Nodup := by
  unfold prun
  suffices h : ∀ s : PSt, (s.msgs.map (·.1)).Nodup → ((ops.foldl pstep s).msgs.map (·.1)).Nodup from
    h _ (by simp [PSt.init])
  induction ops with
  | nil => intro s h; exact h
  | cons op rest ih => intro s h; exact ih _ (pstep_ids_nodup s op h)

theorem find_of_nodup {β : Type} : ∀ (l : List (Nat × β)), (l.map (·.1)).Nodup → ∀ m ∈ l,
    (l.find? (fun x => x.1 == m.1)).map (·.2) = some m.2 := by
  intro l
  induction l with
  | nil => intro _ m hm; cases hm
  | cons x xs ih =>
    intro hnd m hm
    have hc := List.nodup_cons.mp (by simpa only [List.map_cons] using hnd)
    rcases List.mem_cons.mp hm with rfl | hm'
    · simp
    · have hne : x.1 ≠ m.1 := fun e => hc.1 (List.mem_map.mpr ⟨m, hm', e.symm⟩)
      have : (x.1 == m.1) = false := by simpa using hne
      simp only [List.find?_cons, this]
      exact ih hc.2 m hm'

theorem evidenceOf_of_mem {s : PSt} (hnd : (s.msgs.map (·.1)).Nodup) {m : Nat × List Evidence} (hm : m ∈ s.msgs) :
    s.evidenceOf m.1 = some m.2 := find_of_nodup s.msgs hnd m hm

theorem pstep_prune_some (s : PSt) (id : Nat) (dl : Bool) (snap : Snapshot) (evs : List Evidence)
    (h : s.evidenceOf id = some evs) :
    (pstep s (.prune id dl snap)).jailed = pruneOutcome dl snap evs ++ s.jailed := by
  simp only [pstep, h]

theorem evidenceOf_some_mem {s : PSt} {id : Nat} {evs : List Evidence} (h : s.evidenceOf id = some evs) :
    (id, evs) ∈ s.msgs := by
  unfold PSt.evidenceOf at h
  cases hf : s.msgs.find? (fun m => m.1 == id) with
  | none => simp [hf] at h
  | some p =>
    simp only [hf, Option.map_some, Option.some.injEq] at h
    have hm := List.mem_of_find?_eq_some hf
    have hp : p.1 = id := by simpa using List.find?_some hf
    obtain ⟨a, b⟩ := p
    simp only at h hp
    subst h; subst hp
    exact hm

/-- the jailed set is written by a prune op only -/
theorem pstep_jailed (s : PSt) (op : POp) :
    (pstep s op).jailed = s.jailed ∨
    ∃ id dl snap evs, op = .prune id dl snap ∧ s.evidenceOf id = some evs ∧
      (pstep s op).jailed = pruneOutcome dl snap evs ++ s.jailed := by
  cases op with
  | put id => left; simp only [pstep]; split <;> rfl
  | evidence id e => left; rfl
  | prune id dl snap =>
    simp only [pstep]
    cases h : s.evidenceOf id with
    | none => left; rfl
    | some evs => right; exact ⟨id, dl, snap, evs, rfl, h, rfl⟩

/-- once a validator's evidence is on a message it stays there until the message is pruned -/
theorem pstep_keeps_evidence (s : PSt) (op : POp) (id : Nat) (evs : List Evidence) (v : Nat)
    (h : s.evidenceOf id = some evs) (hv : v ∈ evs.map (·.1)) (hnd : (s.msgs.map (·.1)).Nodup)
    (hop : ∀ dl snap, op ≠ .prune id dl snap) :
    ∃ evs', (pstep s op).evidenceOf id = some evs' ∧ v ∈ evs'.map (·.1) := by
  have hmem := evidenceOf_some_mem h
  have hnd' := pstep_ids_nodup s op hnd
  cases op with
  | put id' =>
    have hm' : (id, evs) ∈ (pstep s (.put id')).msgs := by
      simp only [pstep]; split
      · exact hmem
      · exact List.mem_append_left _ hmem
    exact ⟨evs, evidenceOf_of_mem hnd' hm', hv⟩
  | evidence id' e =>
    by_cases hid : id = id'
    · subst hid
      have hm' : (id, addEvidence evs e) ∈ (pstep s (.evidence id e)).msgs := by
        simp only [pstep]
        exact List.mem_map.mpr ⟨(id, evs), hmem, by simp⟩
      exact ⟨addEvidence evs e, evidenceOf_of_mem hnd' hm', addEvidence_keeps evs e v hv⟩
    · have hm' : (id, evs) ∈ (pstep s (.evidence id' e)).msgs := by
        simp only [pstep]
        exact List.mem_map.mpr ⟨(id, evs), hmem, by simp [hid]⟩
      exact ⟨evs, evidenceOf_of_mem hnd' hm', hv⟩
  | prune id' dl snap =>
    have hid : id ≠ id' := fun e => hop dl snap (by rw [e])
    have hm' : (id, evs) ∈ (pstep s (.prune id' dl snap)).msgs := by
      simp only [pstep]
      split
      · exact hmem
      · exact List.mem_filter.mpr ⟨hmem, by simp [hid]⟩
    exact ⟨evs, evidenceOf_of_mem hnd' hm', hv⟩

theorem foldl_keeps_evidence (ops : List POp) (id : Nat) (v : Nat) (hop : ∀ op ∈ ops, ∀ dl snap, op ≠ .prune id dl snap) :
    ∀ (s : PSt) (evs : List Evidence), (s.msgs.map (·.1)).Nodup → s.evidenceOf id = some evs → v ∈ evs.map (·.1) →
      ∃ evs', (ops.foldl pstep s).evidenceOf id = some evs' ∧ v ∈ evs'.map (·.1) := by
  induction ops with
  | nil => intro s evs _ h hv; exact ⟨evs, h, hv⟩
  | cons op rest ih =>
    intro s evs hnd h hv
    obtain ⟨evs1, h1, hv1⟩ := pstep_keeps_evidence s op id evs v h hv hnd (hop op List.mem_cons_self)
    exact ih (fun o ho => hop o (List.mem_cons_of_mem _ ho)) _ evs1 (pstep_ids_nodup s op hnd) h1 hv1

end Lemmas2

end Paloma.Libcons

/-! ## Property theorems (C13) -/

namespace Paloma.Bridge
open List

/-- **open_batch_checkpoint_archived.** In every reachable state, the signing bytes of every open batch
— what the chain is asking validators to sign right now, after a build *or* after a gas-estimate
re-issue — are in the archive. -/
theorem open_batch_checkpoint_archived (ops : List Op13) :
    ∀ b ∈ (run13 ops).batches, b.ckpt ∈ (run13 ops).archive :=
  openArchived_run13 ops

/-- **archive_grows.** An archived checkpoint is never removed, whatever happens later (re-estimation,
cancellation, execution of the batch, evidence, key changes, faults). -/
theorem archive_grows (before after : List Op13) (c : Ckpt) (hc : c ∈ (run13 before).archive) :
    c ∈ (run13 (before ++ after)).archive := by
  rw [run13_append]
  exact archSub_foldl13 after (run13 before) c hc

/-- **issued_checkpoint_archived_forever.** "Issued" defined from the executable state: if `b` is an open
batch in the state after *some prefix* of the history — at any stage of its life — its checkpoint at
that moment is archived in every later state. -/
theorem issued_checkpoint_archived_forever (before after : List Op13) (b : Batch)
    (hb : b ∈ (run13 before).batches) : b.ckpt ∈ (run13 (before ++ after)).archive :=
  archive_grows before after b.ckpt (open_batch_checkpoint_archived before b hb)

/-- **archive_written_where_checkpoints_are_issued.** In the current source (regenerated table) the
two functions that store a batch's signing bytes — the build and the gas-estimate re-issue — both
archive the checkpoint, and nothing but the archive's own setter / getter touches its store key
(so an archived checkpoint is never deleted). -/
theorem archive_written_where_checkpoints_are_issued :
    (Paloma.Gen.Atomicity.archiveSetters.contains "x/skyway/keeper.Keeper.BuildOutgoingTXBatch" &&
     Paloma.Gen.Atomicity.archiveSetters.contains "x/skyway/keeper.Keeper.UpdateBatchGasEstimate" &&
     Paloma.Gen.Atomicity.archiveKeyUsers ==
       ["x/skyway/keeper.Keeper.GetPastEthSignatureCheckpoint", "x/skyway/keeper.Keeper.SetPastEthSignatureCheckpoint"]) = true := by decide

/-- **genuine_confirmation_safe.** Once a checkpoint has been the signing bytes of an open batch,
evidence built from a signature over it — by whatever key, submitted by whoever — is refused at every
later time and changes nothing, whatever happened in between (re-estimation, cancellation, execution of
the batch, other evidence, key re-registration). -/
theorem genuine_confirmation_safe (before after : List Op13) (b : Batch) (key : Nat)
    (hb : b ∈ (run13 before).batches) :
    evidence (run13 (before ++ after)) b.ckpt key = (run13 (before ++ after), .rejected) := by
  have := issued_checkpoint_archived_forever before after b hb
  unfold evidence
  simp [this]

/-- **jail_provenance.** A validator `v` is in the jailed set only if the history contains an evidence
op — checkpoint `c`, signature recovering to `key` — such that at that moment (i) `c` was not archived,
hence (ii) `c` had not been the signing bytes of any batch open in any earlier state of the history
(it had not been issued so far), and (iii) `key` was the remote key *registered by `v`* in the chain's
own registry (`lookupKey`, `(v, key) ∈ keys`): the signature is by that validator's registered key. -/
theorem jail_provenance (ops : List Op13) (v : Nat) (hv : v ∈ (run13 ops).jailed) :
    ∃ pre c key rest, ops = pre ++ .evidence c key :: rest ∧
      c ∉ (run13 pre).archive ∧
      (∀ pre' more b, pre = pre' ++ more → b ∈ (run13 pre').batches → b.ckpt ≠ c) ∧
      lookupKey (run13 pre).keys key = some v ∧ (v, key) ∈ (run13 pre).keys := by
  rcases first_appearance apply13 (·.jailed) v ops St.init hv with h | ⟨pre, op, rest, he, hn, hm⟩
  · simp [St.init] at h
  · rcases apply13_jailed (pre.foldl apply13 St.init) op with h1 | ⟨c, key, w, hop, hc, hw, h1⟩
    · rw [h1] at hm; exact absurd hm hn
    · rw [h1, List.mem_cons] at hm
      rcases hm with hm | hm
      · subst hm
        refine ⟨pre, c, key, rest, by rw [he, hop], hc, ?_, hw, lookupKey_some hw⟩
        intro pre' more b hpre hb hck
        apply hc
        have := issued_checkpoint_archived_forever pre' more b hb
        rw [← hpre, hck] at this
        exact this
      · exact absurd hm hn

/-- **registered_key_unique.** In every reachable state a remote key has at most one holder, so "the
validator that registered the key" is well defined; and the jailing step looks the holder up. -/
theorem registered_key_unique (ops : List Op13) (v w key : Nat)
    (hv : (v, key) ∈ (run13 ops).keys) (hw : (w, key) ∈ (run13 ops).keys) : v = w :=
  keysUnique_run13 ops (v, key) hv (w, key) hw rfl

/-- **unregistered_key_refused.** A signature by a key nobody registered (or no longer registered: the
validator rotated it away) jails nobody and changes nothing, whatever the checkpoint. -/
theorem unregistered_key_refused (s : St) (c : Ckpt) (key : Nat) (h : ∀ v, (v, key) ∉ s.keys) :
    evidence s c key = (s, .rejected) := by
  unfold evidence
  split
  · rfl
  · cases hl : lookupKey s.keys key with
    | none => rfl
    | some v => exact absurd (lookupKey_some hl) (h v)

/-- **evidence_jails_exactly.** What an accepted piece of evidence does: the holder of the signing key is
added to the jailed set (if not yet there) and nothing else changes. -/
theorem evidence_jails_exactly (s : St) (c : Ckpt) (key : Nat) :
    (evidence s c key).1 = s ∨
    (c ∉ s.archive ∧ ∃ v, (v, key) ∈ s.keys ∧ (evidence s c key).1 = { s with jailed := v :: s.jailed }) := by
  rcases evidence_cases s c key with h | ⟨hc, v, hv, _, h⟩
  · exact Or.inl h
  · exact Or.inr ⟨hc, v, lookupKey_some hv, h⟩

/-- **never_issued_is_so_far** (the strongest reading of "never issued" is not implementable, and is
false of the model and of the implementation alike).  The chain cannot know the future: a validator whose
registered key signed a checkpoint *before* the chain issued it is jailed on evidence (at that time it
had signed something Paloma had not issued), and a later build may issue exactly that checkpoint.
`jail_provenance` is therefore stated — at full strength for what any implementation can decide — as
"not issued in any earlier state of the history". -/
theorem never_issued_is_so_far :
    ∃ (pre post : List Op13) (v : Nat) (c : Ckpt),
      v ∈ (run13 pre).jailed ∧ (∀ b ∈ (run13 pre).batches, b.ckpt ≠ c) ∧ c ∉ (run13 pre).archive ∧
      ∃ b ∈ (run13 (pre ++ post)).batches, b.ckpt = c :=
  ⟨[.register 7 70, .evidence (1, 1, 0, 0) 70],
   [.bridge (.fund 1 1 100), .bridge (.send Fault.none 1 1 10 5), .bridge (.build Fault.none 1 1000)],
   7, (1, 1, 0, 0), by decide, by decide, by decide, by decide⟩

/-! ### non-vacuity: build, elect an estimate, replay confirmations as evidence, rotate a key -/
def demo13 : List Op13 :=
  [ .register 3 33, .register 4 44,
    .bridge (.fund 1 1 100), .bridge (.send Fault.none 1 1 10 5), .bridge (.build Fault.none 1 1000),
    .bridge (.endBlock Fault.none 7 1001 [1] [(1, 1, 21000)]) ]

example : (run13 demo13).archive = [(1, 1, 21000, 0), (1, 1, 0, 0)] ∧
    ((run13 demo13).batches.map Batch.ckpt) = [(1, 1, 21000, 0)] ∧
    -- the re-issued and the build-time checkpoint are both safe, for the registered key 33 of validator 3
    (evidence (run13 demo13) (1, 1, 21000, 0) 33).2 = .rejected ∧
    (evidence (run13 demo13) (1, 1, 0, 0) 33).2 = .rejected ∧
    -- a forged variant jails the holder of the key, an unregistered key jails nobody
    (evidence (run13 demo13) (1, 1, 21000, 1) 33).1.jailed = [3] ∧
    (evidence (run13 demo13) (1, 1, 21000, 1) 99).1.jailed = [] ∧
    -- validator 3 rotates to key 35: its old key no longer points to it; key 44 cannot be taken over
    (evidence (run13 (demo13 ++ [.register 3 35])) (1, 1, 21000, 1) 33).1.jailed = [] ∧
    (evidence (run13 (demo13 ++ [.register 3 35])) (1, 1, 21000, 1) 35).1.jailed = [3] ∧
    (run13 (demo13 ++ [.register 3 44])).keys = [(3, 33), (4, 44)] := by decide

end Paloma.Bridge

namespace Paloma.Libcons

/-- **prune_spares_attesters.** A validator that supplied evidence is never jailed at prune time. -/
theorem prune_spares_attesters (s : Snapshot) (evs : List Nat) (v : Nat) (hv : v ∈ evs) :
    v ∉ pruneJail s evs := by
  unfold pruneJail
  split
  · simp
  · split
    · simp
    · split
      · simp
      · intro hm
        have := (List.mem_filter.mp hm).2
        simp [hv] at this

/-- **prune_floor_counted.** Nobody is jailed when the votes `VerifyEvidence` counts are below 10 % of
the snapshot total. -/
theorem prune_floor_counted (s : Snapshot) (evs : List Nat)
    (h : 10 * (foundShares s evs).sum < s.total) : pruneJail s evs = [] := by
  unfold pruneJail tally
  simp only
  split
  · rfl
  · rename_i votes hs
    split at hs
    · cases hs
    · injection hs with hs
      subst hs
      simp [h]

/-- **evidence_suppliers_distinct.** A message never holds two proofs of one validator, whatever the
submission history (`AddEvidence` replaces). -/
theorem evidence_suppliers_distinct (subs : List Evidence) : ((evidenceAfter subs).map (·.1)).Nodup :=
  foldl_addEvidence_nodup subs [] (by simp)

/-- **prune_floor.** Nobody is jailed when fewer than 10 % of the snapshot shares attested — the shares
of the *distinct* snapshot validators that supplied evidence, each counted once, whatever the
submission history (re-submissions, several proofs) — for a snapshot that lists every validator once
(C10 proves that of `createNewSnapshot`). -/
theorem prune_floor (vs : List (Nat × Nat)) (total : Nat) (subs : List Evidence)
    (hnd : (vs.map (·.1)).Nodup)
    (h : 10 * attestedShares ⟨vs, total⟩ ((evidenceAfter subs).map (·.1)) < total) :
    pruneJail ⟨vs, total⟩ ((evidenceAfter subs).map (·.1)) = [] := by
  apply prune_floor_counted
  rw [foundShares_sum_eq vs total hnd _ (evidence_suppliers_distinct subs)]
  exact h

/-- **prune_floor_of_shares.** The same with the snapshot's total being the sum of its shares (how
`createNewSnapshot` builds it): fewer than 10 % of the snapshot's shares. -/
theorem prune_floor_of_shares (vs : List (Nat × Nat)) (subs : List Evidence) (hnd : (vs.map (·.1)).Nodup)
    (h : 10 * attestedShares ⟨vs, (vs.map (·.2)).sum⟩ ((evidenceAfter subs).map (·.1)) < (vs.map (·.2)).sum) :
    pruneJail ⟨vs, (vs.map (·.2)).sum⟩ ((evidenceAfter subs).map (·.1)) = [] :=
  prune_floor vs _ subs hnd h

/-- only snapshot validators are ever jailed at prune time -/
theorem prune_only_snapshot (s : Snapshot) (evs : List Nat) (v : Nat) (hv : v ∈ pruneJail s evs) :
    v ∈ s.vals.map (·.1) := by
  unfold pruneJail at hv
  split at hv
  · simp at hv
  · split at hv
    · simp at hv
    · split at hv
      · simp at hv
      · exact (List.mem_filter.mp hv).1

/-- **evidence_never_lost.** Whatever the order of submissions and however often validators re-submit
(same or different proof), every validator that ever supplied evidence for a message is in the
message's evidence list. -/
theorem evidence_never_lost (subs : List Evidence) (v : Nat) (hv : v ∈ subs.map (·.1)) :
    v ∈ (evidenceAfter subs).map (·.1) :=
  foldl_addEvidence_keeps subs [] v (Or.inr hv)

/-- **prune_spares_every_submitter** (third clause over whole evidence histories).  A validator that
supplied evidence for a message at any point of its life — first, in the middle, before or after a
re-submission by somebody else or by itself — is not jailed when the message is pruned. -/
theorem prune_spares_every_submitter (s : Snapshot) (subs : List Evidence) (v : Nat) (hv : v ∈ subs.map (·.1)) :
    v ∉ pruneJail s ((evidenceAfter subs).map (·.1)) :=
  prune_spares_attesters s _ v (evidence_never_lost subs v hv)

/-- **prune_jail_provenance** (queue machine).  Over every history of puts, evidence submissions and
prunes on any number of messages: a validator is in the jailed set only because some prune op of the
history, of a message with a delivery / error report whose evidence `evs` did not reach consensus,
found it in the snapshot of that moment, *not* among the suppliers of the evidence the message held, and
the suppliers' counted votes were at least 10 % of that snapshot's total. -/
theorem prune_jail_provenance (ops : List POp) (v : Nat) (hv : v ∈ (prun ops).jailed) :
    ∃ pre id snap rest evs, ops = pre ++ .prune id true snap :: rest ∧
      (prun pre).evidenceOf id = some evs ∧ verifyEvidence snap evs = .notAchieved ∧
      v ∈ snap.vals.map (·.1) ∧ v ∉ evs.map (·.1) ∧
      ¬ (10 * (foundShares snap (evs.map (·.1))).sum < snap.total) := by
  rcases Paloma.Bridge.first_appearance pstep (·.jailed) v ops PSt.init hv with h | ⟨pre, op, rest, he, hn, hm⟩
  · simp [PSt.init] at h
  · rcases pstep_jailed (pre.foldl pstep PSt.init) op with h1 | ⟨id, dl, snap, evs, hop, hev, h1⟩
    · rw [h1] at hm; exact absurd hm hn
    · rw [h1, List.mem_append] at hm
      rcases hm with hm | hm
      · unfold pruneOutcome at hm
        cases dl with
        | false => simp at hm
        | true =>
          simp only [Bool.not_true, Bool.false_eq_true, if_false] at hm
          cases hver : verifyEvidence snap evs with
          | winnerIn ws => simp [hver] at hm
          | notAchieved =>
            simp only [hver] at hm
            refine ⟨pre, id, snap, rest, evs, by rw [he, hop], hev, hver, prune_only_snapshot _ _ _ hm, ?_, ?_⟩
            · intro hin
              exact prune_spares_attesters snap _ v hin hm
            · intro hlt
              rw [prune_floor_counted snap _ hlt] at hm
              cases hm
      · exact absurd hm hn

/-- **supplier_never_jailed_by_its_message** (queue machine, third clause).  If validator `v` supplied
evidence for message `id` (the message being in the queue at that moment) and the message is pruned
later — any number of other submissions, other messages and other prunes in between — then `v` is not
among the validators that prune jails. -/
theorem supplier_never_jailed_by_its_message (pre mid : List POp) (id : Nat) (e : Evidence)
    (dl : Bool) (snap : Snapshot)
    (hq : ((prun pre).evidenceOf id).isSome)
    (hmid : ∀ op ∈ mid, ∀ dl' snap', op ≠ .prune id dl' snap') :
    ∃ evs, (prun (pre ++ .evidence id e :: mid)).evidenceOf id = some evs ∧
      (prun (pre ++ .evidence id e :: mid ++ [.prune id dl snap])).jailed =
        pruneOutcome dl snap evs ++ (prun (pre ++ .evidence id e :: mid)).jailed ∧
      e.1 ∉ pruneOutcome dl snap evs := by
  obtain ⟨evs0, h0⟩ := Option.isSome_iff_exists.mp hq
  -- after the submission the message holds `e.1`
  have hnd := prun_ids_nodup pre
  have hm1 : (id, addEvidence evs0 e) ∈ (pstep (prun pre) (.evidence id e)).msgs := by
    simp only [pstep]
    exact List.mem_map.mpr ⟨(id, evs0), evidenceOf_some_mem h0, by simp⟩
  have h1 := evidenceOf_of_mem (pstep_ids_nodup _ (.evidence id e) hnd) hm1
  obtain ⟨evs, h2, hv⟩ := foldl_keeps_evidence mid id e.1 hmid _ _ (pstep_ids_nodup _ (.evidence id e) hnd) h1
    (addEvidence_adds evs0 e)
  have hrun : prun (pre ++ .evidence id e :: mid) = mid.foldl pstep (pstep (prun pre) (.evidence id e)) := by
    unfold prun; rw [List.foldl_append]; rfl
  refine ⟨evs, by rw [hrun]; exact h2, ?_, ?_⟩
  · rw [prun_snoc, hrun]
    exact pstep_prune_some _ id dl snap evs h2
  · unfold pruneOutcome
    split
    · simp
    · split
      · simp
      · exact prune_spares_attesters snap _ e.1 hv

/-! ### non-vacuity -/
example : pruneJail ⟨[(1,5),(2,5),(3,5)], 15⟩ [1] = [2, 3] := by decide
example : pruneJail ⟨[(1,1),(2,7),(3,7)], 15⟩ [1] = [] := by decide
-- validator 1 submits, 2 and 3 follow, 1 re-submits another proof: all three stay on record, only 4 is jailed
example : evidenceAfter [(1, 7), (2, 8), (3, 9), (1, 5)] = [(1, 5), (2, 8), (3, 9)] ∧
    pruneJail ⟨[(1,5),(2,5),(3,5),(4,5)], 20⟩ ((evidenceAfter [(1, 7), (2, 8), (3, 9), (1, 5)]).map (·.1)) = [4] := by decide
-- the 10 % floor counts every supplier once: validator 1 (1 of 20 shares = 5 %) submitting twice jails nobody
example : pruneJail ⟨[(1,1),(2,19)], 20⟩ ((evidenceAfter [(1, 7), (1, 8)]).map (·.1)) = [] ∧
    attestedShares ⟨[(1,1),(2,19)], 20⟩ ((evidenceAfter [(1, 7), (1, 8)]).map (·.1)) = 1 := by decide
-- the queue machine: two messages; validator 1 supplies evidence for message 7 only; message 8 is pruned
-- undelivered (nobody jailed), message 7 delivered and contested (2 and 3 jailed, 1 spared)
example : (prun [.put 7, .put 8, .evidence 7 (1, 5), .prune 8 false ⟨[(1,5),(2,5),(3,5)], 15⟩,
                 .evidence 7 (1, 6), .prune 7 true ⟨[(1,5),(2,5),(3,5)], 15⟩]).jailed = [2, 3] := by decide

end Paloma.Libcons
