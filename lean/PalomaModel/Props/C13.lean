/-
C13 — validators are never punished for doing what the chain asked.
Part A (bad-signature evidence) is proved on the bridge model (`Model/Bridge.lean`): every
checkpoint the chain ever published for signing is archived for ever, and evidence can only jail
for a checkpoint that is not archived. Part B (prune-time jailing) is `Model/Prune` below.
-/
import PalomaModel.Props.C01
import PalomaModel.Gen.Atomicity
import PalomaModel.Model.Libcons

namespace Paloma.Bridge
open List

/-! ## helper lemmas -/
section Lemmas

/-- a step only ever *prepends the same entries* to `archive` and `issued` -/
def Ext (s s' : St) : Prop := ∃ l, s'.archive = l ++ s.archive ∧ s'.issued = l ++ s.issued

theorem Ext.refl (s : St) : Ext s s := ⟨[], rfl, rfl⟩
theorem Ext.trans {a b c : St} (h1 : Ext a b) (h2 : Ext b c) : Ext a c := by
  obtain ⟨l1, ha1, hi1⟩ := h1
  obtain ⟨l2, ha2, hi2⟩ := h2
  exact ⟨l2 ++ l1, by rw [ha2, ha1, List.append_assoc], by rw [hi2, hi1, List.append_assoc]⟩

theorem send_ext (s : St) (f : Fault) (u tok amt h : Nat) : Ext s (send s f u tok amt h).1 := by
  unfold send
  split
  · exact Ext.refl s
  · split
    · exact Ext.refl s
    · simp only
      split
      · exact Ext.refl s
      · split
        · exact Ext.refl s
        · split
          · exact Ext.refl s
          · split
            · exact Ext.refl s
            · split
              · exact Ext.refl s
              · exact ⟨[], rfl, rfl⟩

theorem cancel_ext (s : St) (f : Fault) (u id : Nat) : Ext s (cancel s f u id).1 := by
  unfold cancel
  split
  · exact Ext.refl s
  · split
    · exact Ext.refl s
    · split
      · exact Ext.refl s
      · simp only
        split
        · exact Ext.refl s
        · split
          · exact Ext.refl s
          · exact ⟨[], rfl, rfl⟩

theorem buildOne_ext (s : St) (f : Fault) (tok time : Nat) : Ext s (buildOne s f tok time).1 := by
  unfold buildOne
  simp only
  split
  · exact Ext.refl s
  · split
    · exact Ext.refl s
    · split
      · exact Ext.refl s
      · split
        · exact Ext.refl s
        · exact ⟨[(tok, s.lastBatch + 1, 0, 0)], rfl, rfl⟩

theorem cancelBatch_ext (s : St) (f : Fault) (tok nonce : Nat) : Ext s (cancelBatch s f tok nonce).1 := by
  unfold cancelBatch
  split
  · exact Ext.refl s
  · simp only
    split
    · exact Ext.refl s
    · exact ⟨[], rfl, rfl⟩

theorem execBatch_ext (s : St) (f : Fault) (tok nonce h : Nat) : Ext s (execBatch s f tok nonce h).1 := by
  unfold execBatch
  split
  · exact Ext.refl s
  · split
    · exact Ext.refl s
    · simp only
      split
      · exact Ext.refl s
      · split
        · exact Ext.refl s
        · exact ⟨[], rfl, rfl⟩

theorem deposit_ext (s : St) (f : Fault) (tok amt : Nat) (r : Option Nat) (k : Bool) :
    Ext s (deposit s f tok amt r k).1 := by
  unfold deposit depositToPool
  split
  · exact Ext.refl s
  · split
    · exact Ext.refl s
    · split
      · split
        · exact Ext.refl s
        · exact ⟨[], rfl, rfl⟩
      · split
        · split
          · exact Ext.refl s
          · exact ⟨[], rfl, rfl⟩
        · exact ⟨[], rfl, rfl⟩

theorem setEstimate_ext (s : St) (f : Fault) (tok nonce est : Nat) : Ext s (setEstimate s f tok nonce est).1 := by
  unfold setEstimate
  split
  · exact Ext.refl s
  · split
    · exact Ext.refl s
    · simp only
      split
      · exact Ext.refl s
      · exact ⟨[(tok, nonce, est, 0)], rfl, rfl⟩

theorem createBatches_ext (time : Nat) (toks : List Nat) : ∀ (s : St) (f : Fault), Ext s (createBatches s f time toks).1 := by
  induction toks with
  | nil => intro s f; exact Ext.refl s
  | cons tok rest ih =>
    intro s f
    unfold createBatches
    simp only
    split
    · exact buildOne_ext s f tok time
    · exact (buildOne_ext s f tok time).trans (ih _ _)

theorem tally_ext (fuel : Nat) : ∀ (s : St) (f : Fault), Ext s (tally s f fuel).1 := by
  induction fuel with
  | zero => intro s f; exact Ext.refl s
  | succ n ih =>
    intro s f
    unfold tally
    split
    · exact Ext.refl s
    · rename_i m c _
      simp only
      have h0 : Ext s { s with lastObserved := m } := ⟨[], rfl, rfl⟩
      have h1 : Ext { s with lastObserved := m } (applyClaim { s with lastObserved := m } f c).1 := by
        cases c with
        | executed tok nonce h => exact execBatch_ext _ f tok nonce h
        | deposit tok amt r k => exact deposit_ext _ f tok amt r k
      split
      · exact h0.trans h1
      · exact (h0.trans h1).trans (ih _ _)

theorem applyEstimates_ext (ests : List (Nat × Nat × Nat)) :
    ∀ (s : St) (f : Fault), Ext s (applyEstimates s f ests).1 := by
  induction ests with
  | nil => intro s f; exact Ext.refl s
  | cons e rest ih =>
    intro s f
    obtain ⟨tok, nonce, est⟩ := e
    unfold applyEstimates
    simp only
    exact (setEstimate_ext s f tok nonce est).trans (ih _ _)

theorem timeouts_ext (now : Nat) (bs : List Batch) : ∀ (s : St) (f : Fault), Ext s (timeouts s f now bs).1 := by
  induction bs with
  | nil => intro s f; exact Ext.refl s
  | cons b rest ih =>
    intro s f
    unfold timeouts
    split
    · simp only
      split
      · exact cancelBatch_ext s f b.token b.nonce
      · exact (cancelBatch_ext s f b.token b.nonce).trans (ih _ _)
    · exact ih _ _

theorem endBlock_ext (s : St) (f : Fault) (h now : Nat) (toks : List Nat) (ests : List (Nat × Nat × Nat)) :
    Ext s (endBlock s f h now toks ests).1 := by
  unfold endBlock
  simp only
  generalize hc : (if h % 50 == 0 then createBatches s f now toks else (s, f, [])) = r1
  have h1 : Ext s r1.1 := by
    rw [← hc]
    split
    · exact createBatches_ext now toks s f
    · exact Ext.refl s
  exact ((h1.trans (tally_ext _ _ _)).trans (applyEstimates_ext _ _ _)).trans (timeouts_ext _ _ _ _)

theorem evidence_ext (s : St) (c : Nat × Nat × Nat × Nat) (sg : Option Nat) : Ext s (evidence s c sg).1 := by
  unfold evidence
  split
  · exact Ext.refl s
  · split
    · exact Ext.refl s
    · split
      · exact Ext.refl s
      · exact ⟨[], rfl, rfl⟩

end Lemmas

/-- bridge operations plus evidence submission by anybody -/
inductive Op13 where
  | bridge (op : Op)
  | evidence (c : Nat × Nat × Nat × Nat) (signer : Option Nat)

def apply13 (s : St) : Op13 → St
  | .bridge op => apply s op
  | .evidence c sg => (evidence s c sg).1

def run13 (ops : List Op13) : St := ops.foldl apply13 St.init

section Lemmas2

theorem apply13_ext (s : St) (op : Op13) : Ext s (apply13 s op) := by
  cases op with
  | evidence c sg => exact evidence_ext s c sg
  | bridge op =>
    cases op with
    | send f u tok amt h => exact send_ext s f u tok amt h
    | cancel f u id => exact cancel_ext s f u id
    | build f tok time => exact buildOne_ext s f tok time
    | fund u tok amt => exact ⟨[], rfl, rfl⟩
    | setTax tok c => exact ⟨[], rfl, rfl⟩
    | setLimit tok c => exact ⟨[], rfl, rfl⟩
    | claim n c =>
      simp only [apply13, apply, addClaim]
      split
      · exact Ext.refl s
      · exact ⟨[], rfl, rfl⟩
    | endBlock f h now toks ests => exact endBlock_ext s f h now toks ests

theorem foldl_ext (ops : List Op13) : ∀ s, Ext s (ops.foldl apply13 s) := by
  induction ops with
  | nil => intro s; exact Ext.refl s
  | cons op rest ih => intro s; exact (apply13_ext s op).trans (ih _)

end Lemmas2

/-! ## Property theorems (C13) -/

/-- **issued_subset_archive.** Every checkpoint the chain ever published for signing — at batch
build *and* at gas-estimate re-issue — is in the archive, in every reachable state. -/
theorem issued_subset_archive (ops : List Op13) : ∀ c ∈ (run13 ops).issued, c ∈ (run13 ops).archive := by
  obtain ⟨l, ha, hi⟩ := foldl_ext ops St.init
  intro c hc
  unfold run13 at *
  rw [hi] at hc
  rw [ha]
  simpa [St.init] using hc

/-- **archive_written_where_checkpoints_are_issued.** In the current source (regenerated table) the
two functions that store a batch's signing bytes — the build and the gas-estimate re-issue — both
archive the checkpoint, and nothing but the archive's own setter / getter touches its store key
(so an archived checkpoint is never deleted). -/
theorem archive_written_where_checkpoints_are_issued :
    (Paloma.Gen.Atomicity.archiveSetters.contains "x/skyway/keeper.Keeper.BuildOutgoingTXBatch" &&
     Paloma.Gen.Atomicity.archiveSetters.contains "x/skyway/keeper.Keeper.UpdateBatchGasEstimate" &&
     Paloma.Gen.Atomicity.archiveKeyUsers ==
       ["x/skyway/keeper.Keeper.GetPastEthSignatureCheckpoint", "x/skyway/keeper.Keeper.SetPastEthSignatureCheckpoint"]) = true := by decide

/-- **evidence_jails_only_unissued.** Evidence changes the jailed set only for a checkpoint that
is not archived, hence (previous theorem) one the chain never issued. -/
theorem evidence_jails_only_unissued (ops : List Op13) (c : Nat × Nat × Nat × Nat) (sg : Option Nat)
    (h : (evidence (run13 ops) c sg).1.jailed ≠ (run13 ops).jailed) : c ∉ (run13 ops).issued := by
  intro hc
  have := issued_subset_archive ops c hc
  unfold evidence at h
  simp [this] at h

/-- **genuine_confirmation_safe.** Once a checkpoint has been issued, evidence built from a
signature over it is refused at every later time, whatever happened in between (re-estimation,
cancellation, execution of the batch, other evidence). -/
theorem genuine_confirmation_safe (before after : List Op13) (c : Nat × Nat × Nat × Nat) (sg : Option Nat)
    (hc : c ∈ (run13 before).issued) :
    evidence (run13 (before ++ after)) c sg = (run13 (before ++ after), .rejected) := by
  have harch := issued_subset_archive before c hc
  have hrun : run13 (before ++ after) = after.foldl apply13 (run13 before) := by
    unfold run13; rw [List.foldl_append]
  obtain ⟨l, ha, _⟩ := foldl_ext after (run13 before)
  have : c ∈ (run13 (before ++ after)).archive := by
    rw [hrun, ha]; exact List.mem_append_right _ harch
  unfold evidence
  simp [this]

/-! ### non-vacuity: build, elect an estimate, replay the post-election confirmation as evidence -/
def demo13 : List Op13 :=
  [ .bridge (.fund 1 1 100), .bridge (.send Fault.none 1 1 10 5), .bridge (.build Fault.none 1 1000),
    .bridge (.endBlock Fault.none 7 1001 [1] [(1, 1, 21000)]) ]

example : (run13 demo13).issued = [(1, 1, 21000, 0), (1, 1, 0, 0)] ∧
    (evidence (run13 demo13) (1, 1, 21000, 0) (some 3)).2 = .rejected ∧
    (evidence (run13 demo13) (1, 1, 21000, 1) (some 3)).1.jailed = [3] := by decide

end Paloma.Bridge

/-! ## Part B: prune-time jailing (`jailValidatorsWhichMissedAttestation`) -/
namespace Paloma.Libcons

/-- who gets jailed when a contested / undelivered message is pruned: nobody if no snapshot
validator supplied evidence or fewer than 10 % of the shares did; otherwise the snapshot
validators without evidence. `evs` are the validators that supplied evidence. -/
def pruneJail (s : Snapshot) (evs : List Nat) : List Nat :=
  match (tally s evs).sum with
  | none => []
  | some votes =>
    if 10 * votes < s.total then []
    else if s.vals.isEmpty || s.total == 0 then []
    else (s.vals.map (·.1)).filter (fun a => !evs.contains a)

/-- **prune_spares_attesters.** A validator that supplied evidence is never jailed at prune time. -/
theorem prune_spares_attesters (s : Snapshot) (evs : List Nat) (v : Nat) (hv : v ∈ evs) :
    v ∉ pruneJail s evs := by
  unfold pruneJail
  split
  · simp
  · split
    · simp
    · split
      · simp
      · intro hm
        have := (List.mem_filter.mp hm).2
        simp [hv] at this

/-- **prune_floor.** Nobody is jailed when fewer than 10 % of the snapshot shares attested. -/
theorem prune_floor (s : Snapshot) (evs : List Nat)
    (h : 10 * (foundShares s evs).sum < s.total) : pruneJail s evs = [] := by
  unfold pruneJail tally
  simp only
  split
  · rfl
  · rename_i votes hs
    split at hs
    · cases hs
    · injection hs with hs
      subst hs
      simp [h]

/-- only snapshot validators are ever jailed at prune time -/
theorem prune_only_snapshot (s : Snapshot) (evs : List Nat) (v : Nat) (hv : v ∈ pruneJail s evs) :
    v ∈ s.vals.map (·.1) := by
  unfold pruneJail at hv
  split at hv
  · simp at hv
  · split at hv
    · simp at hv
    · split at hv
      · simp at hv
      · exact (List.mem_filter.mp hv).1

/-- the evidence a message holds after the accepted submissions `subs` (validator, proof), oldest
first, each validator any number of times: `QueuedSignedMessage.AddEvidence` folded over the history -/
def evidenceAfter (subs : List Evidence) : List Evidence := subs.foldl addEvidence []

theorem addEvidence_keeps (l : List Evidence) (e : Evidence) (v : Nat) (hv : v ∈ l.map (·.1)) :
    v ∈ (addEvidence l e).map (·.1) := by
  induction l with
  | nil => simp at hv
  | cons x xs ih =>
    unfold addEvidence
    split
    · simpa using hv
    · simp only [List.map_cons, List.mem_cons] at hv ⊢
      rcases hv with h | h
      · exact Or.inl h
      · exact Or.inr (ih h)

theorem addEvidence_adds (l : List Evidence) (e : Evidence) : e.1 ∈ (addEvidence l e).map (·.1) := by
  induction l with
  | nil => simp [addEvidence]
  | cons x xs ih =>
    unfold addEvidence
    split
    · rename_i h
      simp only [List.map_cons, List.mem_cons]
      exact Or.inl (by simpa using (beq_iff_eq.mp h).symm)
    · simp only [List.map_cons, List.mem_cons]
      exact Or.inr ih

theorem foldl_addEvidence_keeps (subs : List Evidence) : ∀ (init : List Evidence) (v : Nat),
    (v ∈ init.map (·.1) ∨ v ∈ subs.map (·.1)) → v ∈ (subs.foldl addEvidence init).map (·.1) := by
  induction subs with
  | nil => intro init v h; simpa using h
  | cons e es ih =>
    intro init v h
    simp only [List.foldl_cons]
    apply ih
    rcases h with h | h
    · exact Or.inl (addEvidence_keeps init e v h)
    · simp only [List.map_cons, List.mem_cons] at h
      rcases h with h | h
      · exact Or.inl (by rw [h]; exact addEvidence_adds init e)
      · exact Or.inr h

/-- **evidence_never_lost.** Whatever the order of submissions and however often validators re-submit
(same or different proof), every validator that ever supplied evidence for a message is in the
message's evidence list. -/
theorem evidence_never_lost (subs : List Evidence) (v : Nat) (hv : v ∈ subs.map (·.1)) :
    v ∈ (evidenceAfter subs).map (·.1) :=
  foldl_addEvidence_keeps subs [] v (Or.inr hv)

/-- **prune_spares_every_submitter** (third clause over whole evidence histories).  A validator that
supplied evidence for a message at any point of its life — first, in the middle, before or after a
re-submission by somebody else or by itself — is not jailed when the message is pruned. -/
theorem prune_spares_every_submitter (s : Snapshot) (subs : List Evidence) (v : Nat) (hv : v ∈ subs.map (·.1)) :
    v ∉ pruneJail s ((evidenceAfter subs).map (·.1)) :=
  prune_spares_attesters s _ v (evidence_never_lost subs v hv)

example : pruneJail ⟨[(1,5),(2,5),(3,5)], 15⟩ [1] = [2, 3] := by decide
example : pruneJail ⟨[(1,1),(2,7),(3,7)], 15⟩ [1] = [] := by decide
-- validator 1 submits, 2 and 3 follow, 1 re-submits another proof: all three stay on record, only 4 is jailed
example : evidenceAfter [(1, 7), (2, 8), (3, 9), (1, 5)] = [(1, 5), (2, 8), (3, 9)] ∧
    pruneJail ⟨[(1,5),(2,5),(3,5),(4,5)], 20⟩ ((evidenceAfter [(1, 7), (2, 8), (3, 9), (1, 5)]).map (·.1)) = [4] := by decide

end Paloma.Libcons
