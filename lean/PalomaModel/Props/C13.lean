/-
C13 — validators are never punished for doing what the chain asked.

Part A (bad-signature evidence), on the bridge model (`Model/Bridge.lean`).  "Issued" is defined from the
executable state: a checkpoint is issued when it is the signing bytes (`Batch.ckpt`) of a batch that is
open in some state of the history.  Every such checkpoint is archived at once and for ever, evidence can
only jail for a checkpoint that is not archived, and the jailed validator is the one that *registered*
the key the signature recovers to (`St.keys`, written by `registerKey`) — registered at the time the
evidence is processed.  The op language `Op13` has an external-jailing op `jail vs`, so every part-A
theorem holds whatever else writes the jailed set.

Part B (prune-time jailing): `pruneJail` (the decision of `jailValidatorsWhichMissedAttestation`),
`pruneOutcome` (with `jailValidatorsIfNecessary`'s early exits), and the WORLD machine
(`Paloma.C13.World`): the bridge state together with the real consensus-queue model
(`Model/Queue.lean`, every `Paloma.Queue.Op`) and `PruneJob`.  A prune reads the message, its evidence,
its report flags and the current snapshot from the stored queue state and writes the bridge model's
jailed set; `trace13` projects world histories to part-A histories.
-/
import PalomaModel.Props.C01
import PalomaModel.Gen.Atomicity
import PalomaModel.Model.Libcons
import PalomaModel.Model.Queue

namespace Paloma.Bridge
open List

/-- bridge operations, evidence submission by anybody, key (re-)registration by a validator, and
`jail vs`: validators jailed by ANY mechanism other than bad-signature evidence (the prune-time jailing
of part B — the world machine below feeds it in —, keep-alive jailing, staking slashing).  The list is
arbitrary, so every part-A theorem holds whatever the rest of the chain does to the jailed set. -/
inductive Op13 where
  | bridge (op : Op)
  | evidence (c : Ckpt) (key : Nat)
  | register (v key : Nat)
  | jail (vs : List Nat)

def apply13 (s : St) : Op13 → St
  | .bridge op => apply s op
  | .evidence c key => (evidence s c key).1
  | .register v key => (registerKey s v key).1
  | .jail vs => { s with jailed := vs ++ s.jailed }

def run13 (ops : List Op13) : St := ops.foldl apply13 St.init

/-! ## helper lemmas -/
section Lemmas

theorem run13_append (a b : List Op13) : run13 (a ++ b) = b.foldl apply13 (run13 a) := by
  unfold run13; rw [List.foldl_append]

theorem run13_snoc (a : List Op13) (op : Op13) : run13 (a ++ [op]) = apply13 (run13 a) op := by
  rw [run13_append]; rfl

/-- lifting a step relation to histories with evidence, registration and external jailing -/
theorem StepRel.foldl13 {R : St → St → Prop} (hR : StepRel R)
    (hev : ∀ s c key, R s (evidence s c key).1) (hreg : ∀ s v key, R s (registerKey s v key).1)
    (hjail : ∀ (s : St) (vs : List Nat), R s { s with jailed := vs ++ s.jailed })
    (ops : List Op13) : ∀ s, R s (ops.foldl apply13 s) := by
  induction ops with
  | nil => intro s; exact hR.refl s
  | cons op rest ih =>
    intro s
    refine hR.trans ?_ (ih _)
    cases op with
    | bridge op => exact hR.apply s op
    | evidence c key => exact hev s c key
    | register v key => exact hreg s v key
    | jail vs => exact hjail s vs

theorem evidence_cases (s : St) (c : Ckpt) (key : Nat) :
    ((evidence s c key).1 = s) ∨
    (c ∉ s.archive ∧ ∃ v, lookupKey s.keys key = some v ∧ v ∉ s.jailed ∧
      (evidence s c key).1 = { s with jailed := v :: s.jailed }) := by
  unfold evidence
  split
  · exact Or.inl rfl
  · rename_i harch
    split
    · exact Or.inl rfl
    · rename_i v hv
      split
      · exact Or.inl rfl
      · rename_i hj
        exact Or.inr ⟨by simpa using harch, v, hv, by simpa using hj, rfl⟩

/-- exact case analysis of a registration, result flag included: refused (state unchanged) or accepted
(the validator is not jailed, nobody else holds the key, the validator's entry is replaced) -/
theorem registerKey_cases (s : St) (v key : Nat) :
    ((registerKey s v key).1 = s ∧ (registerKey s v key).2 = .rejected) ∨
    (v ∉ s.jailed ∧ (s.keys.any (fun p => p.1 != v && p.2 == key)) = false ∧
      (registerKey s v key).1 = { s with keys := setKey s.keys v key } ∧ (registerKey s v key).2 = .ok) := by
  unfold registerKey
  split
  · exact Or.inl ⟨rfl, rfl⟩
  · rename_i hj
    split
    · exact Or.inl ⟨rfl, rfl⟩
    · rename_i h
      exact Or.inr ⟨by simpa using hj, Bool.eq_false_iff.mpr h, rfl, rfl⟩

/-! ### the archive only grows, and holds the checkpoint of every open batch -/

def ArchSub (s s' : St) : Prop := ∀ c ∈ s.archive, c ∈ s'.archive

theorem archSub_stepRel : StepRel ArchSub where
  refl := fun _ _ h => h
  trans := fun h1 h2 c hc => h2 c (h1 c hc)
  build := by
    intro s f tok time c hc
    rcases buildOne_cases s f tok time with ⟨_, h⟩ | ⟨_, _, h⟩ <;> rw [h]
    · exact hc
    · exact List.mem_cons_of_mem _ hc
  cancelBatch := by
    intro s f tok nonce c hc
    rcases cancelBatch_cases s f tok nonce with ⟨_, h⟩ | ⟨_, b, _, h⟩ <;> rw [h] <;> exact hc
  setEstimate := by
    intro s f tok nonce est c hc
    rcases setEstimate_cases s f tok nonce est with ⟨_, h⟩ | ⟨_, b, _, _, h⟩ <;> rw [h]
    · exact hc
    · exact List.mem_cons_of_mem _ hc
  observe := by
    intro s f n c _ _ x hx
    rw [observe_state]
    rcases applyClaim_cases { s with lastObserved := n } f c with
      ⟨_, h⟩ | ⟨_, ⟨_, _, _, b, _, _, _, _, _, h⟩ | ⟨_, _, _, _, _, _, h⟩⟩ <;> simp only [h] <;> exact hx
  send := by
    intro s f u tok amt h c hc
    rcases send_cases s f u tok amt h with ⟨_, h1⟩ | ⟨_, usage', _, _, _, _, _, h1⟩ <;> rw [h1] <;> exact hc
  cancel := by
    intro s f u id c hc
    rcases cancel_cases s f u id with ⟨_, h1⟩ | ⟨_, t, _, _, h1⟩ <;> rw [h1] <;> exact hc
  fund := fun _ _ _ _ _ hc => hc
  setTax := by intro s tok cfg c hc; rw [(setTax_other s tok cfg).2.2.1]; exact hc
  setLimit := fun _ _ _ _ hc => hc
  addClaim := by intro s n cl c hc; rw [(addClaim_other s n cl).2.2.1]; exact hc

theorem archSub_foldl13 (ops : List Op13) (s : St) : ArchSub s (ops.foldl apply13 s) := by
  refine StepRel.foldl13 archSub_stepRel ?_ ?_ ?_ ops s
  · intro s c key x hx
    rcases evidence_cases s c key with h | ⟨_, v, _, _, h⟩ <;> rw [h] <;> exact hx
  · intro s v key x hx
    rcases registerKey_cases s v key with ⟨h, _⟩ | ⟨_, _, h, _⟩ <;> rw [h] <;> exact hx
  · intro s vs x hx; exact hx

/-- every open batch's current signing bytes are archived -/
def OpenArchived (s : St) : Prop := ∀ b ∈ s.batches, b.ckpt ∈ s.archive

theorem openArchived_congr {s s' : St} (h : OpenArchived s) (h1 : s'.batches = s.batches)
    (h2 : s'.archive = s.archive) : OpenArchived s' := by
  unfold OpenArchived; rw [h1, h2]; exact h

theorem openArchived_stepRel : StepRel (Preserves OpenArchived) where
  refl := fun _ h => h
  trans := fun h1 h2 h => h2 (h1 h)
  build := by
    intro s f tok time hp
    rcases buildOne_cases s f tok time with ⟨_, h⟩ | ⟨_, _, h⟩ <;> rw [h]
    · exact hp
    · intro b hb
      simp only [buildOk, List.mem_cons] at hb ⊢
      rcases hb with rfl | hb
      · exact Or.inl rfl
      · exact Or.inr (hp b hb)
  cancelBatch := by
    intro s f tok nonce hp
    rcases cancelBatch_cases s f tok nonce with ⟨_, h⟩ | ⟨_, b, _, h⟩ <;> rw [h]
    · exact hp
    · intro b' hb'
      exact hp b' ((removeBatch_sublist _ _ _).subset hb')
  setEstimate := by
    intro s f tok nonce est hp
    rcases setEstimate_cases s f tok nonce est with ⟨_, h⟩ | ⟨_, b, _, _, h⟩ <;> rw [h]
    · exact hp
    · intro b' hb'
      simp only [estimateOk, List.mem_map] at hb'
      obtain ⟨x, hx, rfl⟩ := hb'
      simp only [estimateOk, List.mem_cons]
      split
      · rename_i hk
        simp only [Bool.and_eq_true, beq_iff_eq] at hk
        left
        simp [Batch.ckpt, hk.1, hk.2]
      · exact Or.inr (hp x hx)
  observe := by
    intro s f n c _ _ hp
    rw [observe_state]
    rcases applyClaim_cases { s with lastObserved := n } f c with
      ⟨_, h⟩ | ⟨_, ⟨_, _, _, b, _, _, _, _, _, h⟩ | ⟨_, _, _, _, _, _, h⟩⟩ <;> simp only [h]
    · exact hp
    · intro b' hb'
      exact hp b' ((removeBatch_sublist _ _ _).subset hb')
    · exact hp
  send := by
    intro s f u tok amt h hp
    rcases send_cases s f u tok amt h with ⟨_, h1⟩ | ⟨_, usage', _, _, _, _, _, h1⟩ <;> rw [h1] <;> exact hp
  cancel := by
    intro s f u id hp
    rcases cancel_cases s f u id with ⟨_, h1⟩ | ⟨_, t, _, _, h1⟩ <;> rw [h1] <;> exact hp
  fund := fun _ _ _ _ hp => hp
  setTax := fun s tok cfg hp => openArchived_congr hp (setTax_other s tok cfg).2.1 (setTax_other s tok cfg).2.2.1
  setLimit := fun _ _ _ hp => hp
  addClaim := fun s n cl hp => openArchived_congr hp (addClaim_other s n cl).2.1 (addClaim_other s n cl).2.2.1

theorem openArchived_run13 (ops : List Op13) : OpenArchived (run13 ops) := by
  refine StepRel.foldl13 openArchived_stepRel ?_ ?_ ?_ ops St.init (by intro b hb; simp [St.init] at hb)
  · intro s c key hp
    rcases evidence_cases s c key with h | ⟨_, v, _, _, h⟩ <;> rw [h] <;> exact hp
  · intro s v key hp
    rcases registerKey_cases s v key with ⟨h, _⟩ | ⟨_, _, h, _⟩ <;> rw [h] <;> exact hp
  · intro s vs hp; exact hp

/-! ### bridge operations never touch the jailed set or the key registry -/

theorem frame_jailed : StepRel (fun s s' => s'.jailed = s.jailed) :=
  StepRel.ofFrame (·.jailed)
    (InnerRel.ofFrame (·.jailed) (fun _ _ _ => rfl) (fun _ _ => rfl) (fun _ _ _ _ => rfl) (fun _ _ => rfl)
      (fun _ _ _ _ => rfl) (fun _ _ => rfl) (fun _ _ => rfl))
    (fun _ _ _ _ _ => rfl) (fun _ _ => rfl) (fun _ _ _ _ => rfl)
    (fun s tok c => (setTax_other s tok c).2.2.2.2.1) (fun _ _ _ => rfl) (fun s n c => (addClaim_other s n c).2.2.2.2.1)

theorem frame_keys : StepRel (fun s s' => s'.keys = s.keys) :=
  StepRel.ofFrame (·.keys)
    (InnerRel.ofFrame (·.keys) (fun _ _ _ => rfl) (fun _ _ => rfl) (fun _ _ _ _ => rfl) (fun _ _ => rfl)
      (fun _ _ _ _ => rfl) (fun _ _ => rfl) (fun _ _ => rfl))
    (fun _ _ _ _ _ => rfl) (fun _ _ => rfl) (fun _ _ _ _ => rfl)
    (fun s tok c => (setTax_other s tok c).2.2.2.1) (fun _ _ _ => rfl) (fun s n c => (addClaim_other s n c).2.2.2.1)

/-- the jailed set is written by an evidence op (the looked-up holder of the signing key is
    prepended, and only when the checkpoint is not archived) and by an external `jail` op, by nothing else -/
theorem apply13_jailed (s : St) (op : Op13) :
    (apply13 s op).jailed = s.jailed ∨
    (∃ c key v, op = .evidence c key ∧ c ∉ s.archive ∧ lookupKey s.keys key = some v ∧
      (apply13 s op).jailed = v :: s.jailed) ∨
    (∃ vs, op = .jail vs ∧ (apply13 s op).jailed = vs ++ s.jailed) := by
  cases op with
  | bridge op => exact Or.inl (frame_jailed.apply s op)
  | evidence c key =>
    rcases evidence_cases s c key with h | ⟨hc, v, hv, _, h⟩
    · left; simp only [apply13, h]
    · right; left; exact ⟨c, key, v, rfl, hc, hv, by simp only [apply13, h]⟩
  | register v key =>
    left
    rcases registerKey_cases s v key with ⟨h, _⟩ | ⟨_, _, h, _⟩ <;> simp only [apply13, h]
  | jail vs => right; right; exact ⟨vs, rfl, rfl⟩

/-- the key registry is written by an accepted `register` op only -/
theorem apply13_keys (s : St) (op : Op13) :
    (apply13 s op).keys = s.keys ∨
    ∃ v key, op = .register v key ∧ (registerKey s v key).2 = .ok ∧
      (apply13 s op).keys = setKey s.keys v key := by
  cases op with
  | bridge op => exact Or.inl (frame_keys.apply s op)
  | evidence c key =>
    left
    rcases evidence_cases s c key with h | ⟨_, v, _, _, h⟩ <;> simp only [apply13, h]
  | register v key =>
    rcases registerKey_cases s v key with ⟨h, _⟩ | ⟨_, _, h, hok⟩
    · left; simp only [apply13, h]
    · right; exact ⟨v, key, rfl, hok, by simp only [apply13, h]⟩
  | jail vs => exact Or.inl rfl

/-! ### the key registry: a key has at most one holder -/

theorem lookupKey_some {keys : List (Nat × Nat)} {key v : Nat} (h : lookupKey keys key = some v) :
    (v, key) ∈ keys := by
  unfold lookupKey at h
  cases hf : keys.find? (fun p => p.2 == key) with
  | none => simp [hf] at h
  | some p =>
    simp only [hf, Option.map_some, Option.some.injEq] at h
    have hm := List.mem_of_find?_eq_some hf
    have hp : p.2 = key := by simpa using List.find?_some hf
    obtain ⟨a, b⟩ := p
    simp only at h hp
    subst h; subst hp
    exact hm

theorem mem_setKey {keys : List (Nat × Nat)} {v k : Nat} {x : Nat × Nat} (h : x ∈ setKey keys v k) :
    x = (v, k) ∨ x ∈ keys := by
  induction keys with
  | nil => simp only [setKey, List.mem_singleton] at h; exact Or.inl h
  | cons p ps ih =>
    simp only [setKey] at h
    split at h
    · simp only [List.mem_cons] at h ⊢
      rcases h with h | h
      · exact Or.inl h
      · exact Or.inr (Or.inr h)
    · simp only [List.mem_cons] at h ⊢
      rcases h with h | h
      · exact Or.inr (Or.inl h)
      · rcases ih h with h' | h'
        · exact Or.inl h'
        · exact Or.inr (Or.inr h')

/-- a remote key determines its holder -/
def KeysUnique (s : St) : Prop := ∀ p ∈ s.keys, ∀ q ∈ s.keys, p.2 = q.2 → p.1 = q.1

theorem keysUnique_register (s : St) (v key : Nat) (h : KeysUnique s) : KeysUnique (registerKey s v key).1 := by
  rcases registerKey_cases s v key with ⟨h1, _⟩ | ⟨_, hany, h1, _⟩ <;> rw [h1]
  · exact h
  · have hno : ∀ q ∈ s.keys, q.2 = key → q.1 = v := by
      intro q hq hk
      have := List.any_eq_false.mp hany q hq
      simp only [Bool.and_eq_true, bne_iff_ne, ne_eq, beq_iff_eq, not_and] at this
      exact Classical.byContradiction fun hne => this hne hk
    intro p hp q hq hpq
    simp only at hp hq
    rcases mem_setKey hp with rfl | hp' <;> rcases mem_setKey hq with rfl | hq'
    · rfl
    · exact (hno q hq' hpq.symm).symm
    · exact hno p hp' hpq
    · exact h p hp' q hq' hpq

theorem keysUnique_run13 (ops : List Op13) : KeysUnique (run13 ops) := by
  unfold run13
  suffices h : ∀ s, KeysUnique s → KeysUnique (ops.foldl apply13 s) from
    h _ (by intro p hp; simp [St.init] at hp)
  induction ops with
  | nil => intro s h; exact h
  | cons op rest ih =>
    intro s h
    apply ih
    cases op with
    | bridge op =>
      have := frame_keys.apply s op
      unfold KeysUnique; simp only [apply13]; rw [this]; exact h
    | evidence c key =>
      rcases evidence_cases s c key with h1 | ⟨_, v, _, _, h1⟩ <;>
        (unfold KeysUnique; simp only [apply13]; rw [h1]; exact h)
    | register v key => exact keysUnique_register s v key h
    | jail vs => exact h

end Lemmas

end Paloma.Bridge

/-! ## Part B definitions and helper lemmas: prune-time jailing -/
namespace Paloma.Libcons

/-- who gets jailed when a contested / undelivered message is pruned
(`jailValidatorsWhichMissedAttestation`): nobody if no snapshot validator supplied evidence or fewer
than 10 % of the shares did; otherwise the snapshot validators without evidence. `evs` are the
validators that supplied evidence. -/
def pruneJail (s : Snapshot) (evs : List Nat) : List Nat :=
  match (tally s evs).sum with
  | none => []
  | some votes =>
    if 10 * votes < s.total then []
    else if s.vals.isEmpty || s.total == 0 then []
    else (s.vals.map (·.1)).filter (fun a => !evs.contains a)

/-- the evidence a message holds after the accepted submissions `subs` (validator, proof), oldest
first, each validator any number of times: `QueuedSignedMessage.AddEvidence` folded over the history -/
def evidenceAfter (subs : List Evidence) : List Evidence := subs.foldl addEvidence []

/-- `PruneJob` on a message holding the evidence `evs`: nobody is jailed for a message without a
delivery / error report (`punishValidatorForMissingRelay`) nor when the evidence does reach consensus
(`jailValidatorsWhichMissedAttestation` bails out); otherwise `pruneJail` over the suppliers.
(`Driver.Queue.stepPrune` prints exactly this for `evs = evidenceAfter submissions`.) -/
def pruneOutcome (delivered : Bool) (snap : Snapshot) (evs : List Evidence) : List Nat :=
  if !delivered then []
  else match verifyEvidence snap evs with
    | .winnerIn _ => []
    | .notAchieved => pruneJail snap (evs.map (·.1))

section Lemmas

theorem addEvidence_keeps (l : List Evidence) (e : Evidence) (v : Nat) (hv : v ∈ l.map (·.1)) :
    v ∈ (addEvidence l e).map (·.1) := by
  induction l with
  | nil => simp at hv
  | cons x xs ih =>
    unfold addEvidence
    split
    · simpa using hv
    · simp only [List.map_cons, List.mem_cons] at hv ⊢
      rcases hv with h | h
      · exact Or.inl h
      · exact Or.inr (ih h)

theorem addEvidence_adds (l : List Evidence) (e : Evidence) : e.1 ∈ (addEvidence l e).map (·.1) := by
  induction l with
  | nil => simp [addEvidence]
  | cons x xs ih =>
    unfold addEvidence
    split
    · rename_i h
      simp only [List.map_cons, List.mem_cons]
      exact Or.inl (by simpa using (beq_iff_eq.mp h).symm)
    · simp only [List.map_cons, List.mem_cons]
      exact Or.inr ih

theorem foldl_addEvidence_keeps (subs : List Evidence) : ∀ (init : List Evidence) (v : Nat),
    (v ∈ init.map (·.1) ∨ v ∈ subs.map (·.1)) → v ∈ (subs.foldl addEvidence init).map (·.1) := by
  induction subs with
  | nil => intro init v h; simpa using h
  | cons e es ih =>
    intro init v h
    simp only [List.foldl_cons]
    apply ih
    rcases h with h | h
    · exact Or.inl (addEvidence_keeps init e v h)
    · simp only [List.map_cons, List.mem_cons] at h
      rcases h with h | h
      · exact Or.inl (by rw [h]; exact addEvidence_adds init e)
      · exact Or.inr h

/-- `AddEvidence` only ever holds validators that were there or the submitter -/
theorem addEvidence_mem (l : List Evidence) (e : Evidence) (v : Nat) (hv : v ∈ (addEvidence l e).map (·.1)) :
    v ∈ l.map (·.1) ∨ v = e.1 := by
  induction l with
  | nil => simp only [addEvidence, List.map_cons, List.map_nil, List.mem_singleton] at hv; exact Or.inr hv
  | cons x xs ih =>
    unfold addEvidence at hv
    split at hv
    · exact Or.inl (by simpa using hv)
    · simp only [List.map_cons, List.mem_cons] at hv ⊢
      rcases hv with h | h
      · exact Or.inl (Or.inl h)
      · rcases ih h with h' | h'
        · exact Or.inl (Or.inr h')
        · exact Or.inr h'

/-- a message never holds two proofs of one validator -/
theorem addEvidence_nodup (l : List Evidence) (e : Evidence) (h : (l.map (·.1)).Nodup) :
    ((addEvidence l e).map (·.1)).Nodup := by
  induction l with
  | nil => simp [addEvidence]
  | cons x xs ih =>
    have hc := List.nodup_cons.mp (by simpa only [List.map_cons] using h)
    unfold addEvidence
    split
    · simpa only [List.map_cons] using h
    · rename_i hne
      simp only [List.map_cons]
      refine List.nodup_cons.mpr ⟨?_, ih hc.2⟩
      intro hm
      rcases addEvidence_mem xs e x.1 hm with h' | h'
      · exact hc.1 h'
      · exact hne (by simp [h'])

theorem foldl_addEvidence_nodup (subs : List Evidence) : ∀ (init : List Evidence),
    (init.map (·.1)).Nodup → ((subs.foldl addEvidence init).map (·.1)).Nodup := by
  induction subs with
  | nil => intro init h; exact h
  | cons e es ih => intro init h; exact ih _ (addEvidence_nodup init e h)

/-- shares of the snapshot entries whose validator is in `evs` -/
def attestedShares (s : Snapshot) (evs : List Nat) : Nat :=
  ((s.vals.filter (fun p => evs.contains p.1)).map (·.2)).sum

theorem lookup_of_nodup13 {vs : List (Nat × Nat)} (hnd : (vs.map (·.1)).Nodup) {p : Nat × Nat} (hp : p ∈ vs) :
    lookup vs p.1 = some p.2 := by
  induction vs with
  | nil => cases hp
  | cons x xs ih =>
    have hc := List.nodup_cons.mp (by simpa only [List.map_cons] using hnd)
    unfold lookup
    rcases List.mem_cons.mp hp with rfl | hm
    · simp
    · have hne : x.1 ≠ p.1 := fun e => hc.1 (List.mem_map.mpr ⟨p, hm, e.symm⟩)
      have : (x.1 == p.1) = false := by simpa using hne
      simp only [List.find?_cons, this]
      exact ih hc.2 hm

theorem lookup_none_of_not_mem13 {vs : List (Nat × Nat)} {a : Nat} (h : a ∉ vs.map (·.1)) : lookup vs a = none := by
  unfold lookup
  rw [List.find?_eq_none.mpr]
  · rfl
  · intro x hx
    have : x.1 ≠ a := fun e => h (List.mem_map.mpr ⟨x, hx, e⟩)
    simpa using this

/-- shares of the entries of `l` whose validator is in `evs` -/
def shareSum13 (evs : List Nat) (l : List (Nat × Nat)) : Nat :=
  ((l.filter (fun q => evs.contains q.1)).map (·.2)).sum

theorem shareSum13_nil (evs : List Nat) : shareSum13 evs [] = 0 := rfl

theorem shareSum13_cons (evs : List Nat) (x : Nat × Nat) (xs : List (Nat × Nat)) :
    shareSum13 evs (x :: xs) = (if x.1 ∈ evs then x.2 else 0) + shareSum13 evs xs := by
  unfold shareSum13
  by_cases h : x.1 ∈ evs
  · have : evs.contains x.1 = true := by simpa using h
    simp [List.filter_cons, this, h]
  · have : evs.contains x.1 = false := by simpa using h
    simp [List.filter_cons, this, h]

theorem lookup_cons13 (x : Nat × Nat) (xs : List (Nat × Nat)) (a : Nat) :
    lookup (x :: xs) a = if x.1 = a then some x.2 else lookup xs a := by
  unfold lookup
  by_cases h : x.1 = a
  · simp [h]
  · have : (x.1 == a) = false := by simpa using h
    simp [List.find?_cons, this, h]

theorem shareSum13_split (a : Nat) (as : List Nat) (ha : a ∉ as) : ∀ (l : List (Nat × Nat)), (l.map (·.1)).Nodup →
    shareSum13 (a :: as) l = (lookup l a).getD 0 + shareSum13 as l := by
  intro l
  induction l with
  | nil => intro _; simp [shareSum13_nil, lookup]
  | cons x xs ih =>
    intro hx
    have hxc := List.nodup_cons.mp (by simpa only [List.map_cons] using hx)
    have ih' := ih hxc.2
    rw [shareSum13_cons, shareSum13_cons, lookup_cons13, ih']
    by_cases hxa : x.1 = a
    · have hnot : a ∉ xs.map (·.1) := by rw [← hxa]; exact hxc.1
      have hnas : x.1 ∉ as := by rw [hxa]; exact ha
      rw [lookup_none_of_not_mem13 hnot]
      simp [hxa, ha]
    · have hmem : x.1 ∈ a :: as ↔ x.1 ∈ as := by simp [hxa]
      by_cases hin : x.1 ∈ as
      · simp only [hmem.mpr hin, hin, if_true, hxa, if_false]; omega
      · have : ¬ x.1 ∈ a :: as := fun h => hin (hmem.mp h)
        simp only [this, hin, if_false, hxa]; omega

/-- over distinct suppliers and a snapshot that lists every validator once, the votes counted by
    `VerifyEvidence` are exactly the shares of the snapshot validators that supplied evidence -/
theorem foundShares_sum_eq (vs : List (Nat × Nat)) (t : Nat) (hnd : (vs.map (·.1)).Nodup) :
    ∀ (evs : List Nat), evs.Nodup → (foundShares ⟨vs, t⟩ evs).sum = attestedShares ⟨vs, t⟩ evs := by
  intro evs
  induction evs with
  | nil =>
    intro _
    simp only [foundShares, attestedShares, List.filterMap_nil, List.sum_nil, List.contains_nil]
    rw [List.filter_eq_nil_iff.mpr (by simp)]
    rfl
  | cons a as ih =>
    intro had
    have hc := List.nodup_cons.mp had
    have ih' := ih hc.2
    have hs := shareSum13_split a as hc.1 vs hnd
    unfold shareSum13 at hs
    unfold foundShares attestedShares at *
    simp only [Snapshot.share?] at *
    rw [hs, ← ih']
    simp only [List.filterMap_cons]
    cases hl : lookup vs a with
    | none =>
      have hl' : Snapshot.share? ⟨vs, t⟩ a = none := hl
      simp [hl']
    | some sh =>
      have hl' : Snapshot.share? ⟨vs, t⟩ a = some sh := hl
      simp [hl']

/-- the same for any snapshot value -/
theorem foundShares_sum_eq' (s : Snapshot) (hnd : (s.vals.map (·.1)).Nodup) (evs : List Nat) (hev : evs.Nodup) :
    (foundShares s evs).sum = attestedShares s evs :=
  foundShares_sum_eq s.vals s.total hnd evs hev

end Lemmas

end Paloma.Libcons

/-! ## The world machine: bridge state + the real consensus-queue model + prune-time jailing

One jailed set (`St.jailed` of the bridge model — the set `evidence` and `registerKey` read and write),
the queue of `Model/Queue.lean` with all of its operations, and `PruneJob`.  Nothing about a prune is
an input any more: the message, its evidence, its report flags and the snapshot are what the queue
state holds at that moment. -/
namespace Paloma.C13
open Paloma.Bridge (St Ckpt Op13 apply13 run13 lookupKey registerKey)
open Paloma.Libcons (verifyEvidence addEvidence pruneOutcome pruneJail attestedShares foundShares)
open Paloma.Queue (Item State Snap getItem setItem libSnap)

structure World where
  br : St
  q  : State

def World.init : World := ⟨St.init, {}⟩

inductive WOp where
  /-- any bridge operation (send, cancel, build, end-block with estimates / time-outs, claims, …) -/
  | bridge (op : Paloma.Bridge.Op)
  /-- `MsgSubmitBadSignatureEvidence`: checkpoint of the submitted batch, key the signature recovers to -/
  | evidence (c : Ckpt) (key : Nat)
  /-- remote key (re-)registration -/
  | register (v key : Nat)
  /-- ANY operation of the consensus-queue model: put, enqueue, sign, estimates, end-block election,
      `setPublic`, `setError`, `addEvidence`, `remove`, `setEnv` (= a new current snapshot), batches, … -/
  | queue (op : Paloma.Queue.Op)
  /-- `PruneJob` on message `id` -/
  | prune (id : Nat)

/-- whom `PruneJob` jails for the stored message `it` in queue state `q`: `delivered` is DERIVED from
the stored report flags (`GetPublicAccessData() != nil || GetErrorData() != nil`), the snapshot is the
STORED current snapshot (`Env.snapshot`, written by `Queue.Op.setEnv`), the evidence is what the queue
item holds (written by `Queue.Op.addEvidence` through `addEvidence`).  No snapshot stored: nobody is
jailed.  (In the Go code `GetCurrentSnapshot` then returns `(nil, nil)` and `VerifyEvidence` dereferences
the nil snapshot: the end-blocker panics and commits nothing, so nobody is jailed there either; had the
provider returned an error, `r == nil` makes `jailValidatorsWhichMissedAttestation` return at once.  The
model carries on and removes the message — a divergence outside the property's subject.) -/
def victims (q : State) (it : Item) : List Nat :=
  match q.env.snapshot with
  | none => []
  | some snap => pruneOutcome (it.pub || it.err) (libSnap snap) it.evidence

/-- one step of the world.  `prune id`: message not found ⇒ `jailValidatorsIfNecessary` fails on
`GetMsgByID`, `DeleteJob` fails, nothing changes; otherwise the victims are added to the bridge model's
jailed set and the message is removed (`DeleteJob` = `Queue.remove`). -/
def wstep (w : World) : WOp → World
  | .bridge op => { w with br := Paloma.Bridge.apply w.br op }
  | .evidence c key => { w with br := (Paloma.Bridge.evidence w.br c key).1 }
  | .register v key => { w with br := (registerKey w.br v key).1 }
  | .queue op => { w with q := Paloma.Queue.apply w.q op }
  | .prune id =>
    match getItem w.q.queue id with
    | none => w
    | some it => { br := { w.br with jailed := victims w.q it ++ w.br.jailed },
                   q := (Paloma.Queue.remove w.q id).1 }

def wrun (ops : List WOp) : World := ops.foldl wstep World.init

/-- whom `prune id` jails in world state `w`: the victims of the stored message, nobody when the
message is not in the queue (`wstep_prune_jailed`: the jailed set grows by exactly this list) -/
def pruneVictims (w : World) (id : Nat) : List Nat :=
  match getItem w.q.queue id with
  | none => []
  | some it => victims w.q it

/-- the victims of every `prune` op of a history run from `w`, in the order of the prunes.  This is what
`Driver.Queue.stepPrune` prints for a `prune hist …` line: the harness drives a whole message life
(puts, snapshots, reports in any order, evidence, estimates, elections, removals, prunes) on the real
keepers and compares whom each prune jailed. -/
def pruneLog (w : World) : List WOp → List (List Nat)
  | [] => []
  | .prune id :: rest => pruneVictims w id :: pruneLog (wstep w (.prune id)) rest
  | .bridge op :: rest => pruneLog (wstep w (.bridge op)) rest
  | .evidence c key :: rest => pruneLog (wstep w (.evidence c key)) rest
  | .register v key :: rest => pruneLog (wstep w (.register v key)) rest
  | .queue op :: rest => pruneLog (wstep w (.queue op)) rest

/-- projection of one world step to the part-A op language: queue ops are invisible, a prune is an
external `jail` of its victims -/
def trace1 (w : World) : WOp → List Op13
  | .bridge op => [.bridge op]
  | .evidence c key => [.evidence c key]
  | .register v key => [.register v key]
  | .queue _ => []
  | .prune id =>
    match getItem w.q.queue id with
    | none => []
    | some it => [.jail (victims w.q it)]

/-- projection of a world history (from world state `w`) to a part-A history -/
def trace13 (w : World) : List WOp → List Op13
  | [] => []
  | op :: rest => trace1 w op ++ trace13 (wstep w op) rest

/-! ### queue steps: shape of every `Paloma.Queue.Op` -/

/-- `it'` continues `it`: same id, and the evidence is unchanged or one `addEvidence` was applied -/
def ItemSucc (it it' : Item) : Prop :=
  it'.id = it.id ∧ (it'.evidence = it.evidence ∨ ∃ e, it'.evidence = addEvidence it.evidence e)

/-- queue invariant: ids were all handed out by the counter, and are pairwise distinct -/
def QInv (s : State) : Prop := (∀ it ∈ s.queue, it.id ≤ s.nextId) ∧ (s.queue.map (·.id)).Nodup

/-- every message holds at most one proof per validator -/
def EvNodup (s : State) : Prop := ∀ it ∈ s.queue, (it.evidence.map (·.1)).Nodup

/-- the uniform shape of a queue step: the new queue is the old one, filtered by `p` (an item is dropped
only if `rm` names its id), every surviving item continued (`ItemSucc`) through `f`, followed by fresh
items whose ids lie above the old counter and which hold no evidence.  The counter never decreases. -/
def QShape (s s' : State) (rm : Option Nat) : Prop :=
  ∃ (p : Item → Bool) (f : Item → Item) (fresh : List Item),
    s'.queue = (s.queue.filter p).map f ++ fresh ∧ s.nextId ≤ s'.nextId ∧
    (∀ it ∈ s.queue, ItemSucc it (f it)) ∧
    (∀ it ∈ s.queue, p it = false → rm = some it.id) ∧
    (∀ x ∈ fresh, s.nextId < x.id ∧ x.id ≤ s'.nextId ∧ x.evidence = []) ∧
    (fresh.map (·.id)).Nodup

/-- the only queue op that takes a message out of the queue -/
def removedBy : Paloma.Queue.Op → Option Nat
  | .remove id => some id
  | .setEnv _ => none
  | .register _ _ => none
  | .put _ _ _ _ _ _ => none
  | .enqueue _ _ _ _ _ => none
  | .sign _ _ _ _ _ _ => none
  | .addEstimate _ _ _ => none
  | .endBlock => none
  | .setPublic _ => none
  | .setError _ => none
  | .addEvidence _ _ _ => none
  | .putBatch _ _ _ => none
  | .confirm _ _ _ _ _ _ => none
  | .updateBatchGas _ _ => none

def wRemoves : WOp → Option Nat
  | .queue op => removedBy op
  | .prune id => some id
  | _ => none

/-- `v` is on record as a supplier of evidence on (every stored copy of) message `id`, and `id` has
been handed out by the counter (so no later `put` can produce it again) -/
def SupInv (id v : Nat) (s : State) : Prop :=
  id ≤ s.nextId ∧ ∀ it ∈ s.queue, it.id = id → v ∈ it.evidence.map (·.1)

def WInv (w : World) : Prop := QInv w.q ∧ EvNodup w.q

section LemmasWorld

theorem wrun_append (a b : List WOp) : wrun (a ++ b) = b.foldl wstep (wrun a) := by
  unfold wrun; rw [List.foldl_append]

theorem wrun_snoc (a : List WOp) (op : WOp) : wrun (a ++ [op]) = wstep (wrun a) op := by
  rw [wrun_append]; rfl

theorem wstep_prune_some {w : World} {id : Nat} {it : Item} (h : getItem w.q.queue id = some it) :
    wstep w (.prune id) = { br := { w.br with jailed := victims w.q it ++ w.br.jailed },
                            q := (Paloma.Queue.remove w.q id).1 } := by
  simp only [wstep, h]

theorem wstep_prune_none {w : World} {id : Nat} (h : getItem w.q.queue id = none) :
    wstep w (.prune id) = w := by
  simp only [wstep, h]

theorem getItem_some {q : List Item} {id : Nat} {it : Item} (h : getItem q id = some it) :
    it ∈ q ∧ it.id = id := by
  unfold getItem at h
  exact ⟨List.mem_of_find?_eq_some h, by simpa using List.find?_some h⟩

theorem mem_unique_id {q : List Item} (hnd : (q.map (·.id)).Nodup) {a b : Item} (ha : a ∈ q) (hb : b ∈ q)
    (h : a.id = b.id) : a = b := by
  induction q with
  | nil => cases ha
  | cons x xs ih =>
    have hc := List.nodup_cons.mp (by simpa only [List.map_cons] using hnd)
    rcases List.mem_cons.mp ha with ha' | ha' <;> rcases List.mem_cons.mp hb with hb' | hb'
    · rw [ha', hb']
    · exact absurd (List.mem_map.mpr ⟨b, hb', by rw [← h, ha']⟩) hc.1
    · exact absurd (List.mem_map.mpr ⟨a, ha', by rw [h, hb']⟩) hc.1
    · exact ih hc.2 ha' hb'

theorem filter_tt {α : Type} (l : List α) : l.filter (fun _ => true) = l := by
  induction l with
  | nil => rfl
  | cons x xs ih => simp only [List.filter_cons, if_true, ih]

theorem ItemSucc.rfl' (it : Item) : ItemSucc it it := ⟨rfl, Or.inl rfl⟩

/-! the five ways a queue op builds its new queue -/

theorem QShape.same {s s' : State} {rm : Option Nat} (hq : s'.queue = s.queue) (hn : s'.nextId = s.nextId) :
    QShape s s' rm :=
  ⟨fun _ => true, id, [], by rw [hq, filter_tt, List.map_id, List.append_nil], by omega,
   fun it _ => ItemSucc.rfl' it, fun _ _ h => by simp at h, by simp, by simp⟩

theorem QShape.set {s s' : State} {rm : Option Nat} (hi : QInv s) {id : Nat} {it0 it' : Item}
    (hg : getItem s.queue id = some it0) (hq : s'.queue = setItem s.queue it')
    (hn : s'.nextId = s.nextId) (hs : ItemSucc it0 it') : QShape s s' rm := by
  obtain ⟨hm0, _⟩ := getItem_some hg
  refine ⟨fun _ => true, fun it => if it.id == it'.id then it' else it, [], ?_, by omega, ?_,
    fun _ _ h => by simp at h, by simp, by simp⟩
  · rw [hq, filter_tt, List.append_nil]; rfl
  · intro it hit
    by_cases h : it.id = it'.id
    · have heq : it = it0 := mem_unique_id hi.2 hit hm0 (by rw [h, hs.1])
      have hb : (it.id == it'.id) = true := by simpa using h
      simp only [hb, if_true]
      rw [heq]; exact hs
    · have hb : (it.id == it'.id) = false := by simpa using h
      simp only [hb]
      exact ItemSucc.rfl' it

theorem QShape.map {s s' : State} {rm : Option Nat} (g : Item → Item)
    (hg : ∀ it, (g it).id = it.id ∧ (g it).evidence = it.evidence)
    (hq : s'.queue = s.queue.map g) (hn : s'.nextId = s.nextId) : QShape s s' rm :=
  ⟨fun _ => true, g, [], by rw [hq, filter_tt, List.append_nil], by omega, fun it _ => ⟨(hg it).1, Or.inl (hg it).2⟩,
   fun _ _ h => by simp at h, by simp, by simp⟩

theorem QShape.push {s s' : State} {rm : Option Nat} (x : Item) (hx : x.id = s.nextId + 1)
    (he : x.evidence = []) (hq : s'.queue = s.queue ++ [x]) (hn : s'.nextId = s.nextId + 1) :
    QShape s s' rm :=
  ⟨fun _ => true, id, [x], by rw [hq, filter_tt, List.map_id], by omega, fun it _ => ItemSucc.rfl' it,
   fun _ _ h => by simp at h,
   by intro y hy; simp only [List.mem_singleton] at hy; subst hy; exact ⟨by omega, by omega, he⟩,
   by simp⟩

theorem QShape.drop {s s' : State} (id : Nat)
    (hq : s'.queue = s.queue.filter (fun it => it.id != id)) (hn : s'.nextId = s.nextId) :
    QShape s s' (some id) :=
  ⟨fun it => it.id != id, _root_.id, [], by simp [hq], by omega, fun it _ => ItemSucc.rfl' it,
   fun it _ h => by
     have : it.id = id := by simpa using h
     rw [this],
   by simp, by simp⟩

theorem electOne_id (env : Paloma.Queue.Env) (snap : Snap) (it : Item) :
    (Paloma.Queue.electOne env snap it).id = it.id := by
  unfold Paloma.Queue.electOne
  repeat' split
  all_goals rfl

theorem electOne_evidence (env : Paloma.Queue.Env) (snap : Snap) (it : Item) :
    (Paloma.Queue.electOne env snap it).evidence = it.evidence := by
  unfold Paloma.Queue.electOne
  repeat' split
  all_goals rfl

/-- **the shape of every queue operation.**  Uniform over the constructors of `Paloma.Queue.Op`: every
case unfolds the model function of the op (the `simp only` list), splits all of its branches, and closes
each branch with one of the five builders — `QShape.same` (queue and counter untouched), `QShape.set`
(`setItem` of a continuation of the looked-up item; evidence unchanged, or one `addEvidence`),
`QShape.map` (a map that keeps ids and evidence: `electOne`), `QShape.push` (one fresh item with id
`nextId + 1` and no evidence), `QShape.drop` (filter by id).
MAINTENANCE: for a new constructor of `Paloma.Queue.Op` add its model function to the `simp only` list of
THIS lemma (and a builder to the `first` list if it changes the queue in a sixth way; and a line to
`removedBy` if it deletes messages).  Every world-level theorem is derived from `QShape` alone and needs
no change. -/
theorem qstep_shape (s : State) (op : Paloma.Queue.Op) (hi : QInv s) :
    QShape s (Paloma.Queue.apply s op) (removedBy op) := by
  cases op
  all_goals
    simp only [Paloma.Queue.apply, Paloma.Queue.register, Paloma.Queue.put, Paloma.Queue.enqueue,
      Paloma.Queue.sign, Paloma.Queue.signWith, Paloma.Queue.addEstimate, Paloma.Queue.endBlock,
      Paloma.Queue.setPublic, Paloma.Queue.setError, Paloma.Queue.addEv, Paloma.Queue.remove,
      Paloma.Queue.putBatch, Paloma.Queue.confirm, Paloma.Queue.confirmWith, Paloma.Queue.updateBatchGas]
    repeat' split
  all_goals first
    | exact QShape.same rfl rfl
    | exact QShape.push _ rfl rfl rfl rfl
    | exact QShape.drop _ rfl rfl
    | exact QShape.map _ (fun it => ⟨electOne_id _ _ it, electOne_evidence _ _ it⟩) rfl rfl
    | (have hg := ‹getItem s.queue _ = some _›
       first
         | exact QShape.set hi hg rfl rfl ⟨rfl, Or.inl rfl⟩
         | exact QShape.set hi hg rfl rfl ⟨rfl, Or.inr ⟨_, rfl⟩⟩)

/-! consequences of the shape -/

theorem QShape.mem {s s' : State} {rm : Option Nat} (h : QShape s s' rm) {it' : Item} (hm : it' ∈ s'.queue) :
    (∃ it ∈ s.queue, ItemSucc it it') ∨ (s.nextId < it'.id ∧ it'.id ≤ s'.nextId ∧ it'.evidence = []) := by
  obtain ⟨p, f, fresh, hq, _, hsucc, _, hfresh, _⟩ := h
  rw [hq, List.mem_append] at hm
  rcases hm with hm | hm
  · obtain ⟨it, hit, rfl⟩ := List.mem_map.mp hm
    have hit' := (List.mem_filter.mp hit).1
    exact Or.inl ⟨it, hit', hsucc it hit'⟩
  · exact Or.inr (hfresh it' hm)

theorem QShape.keeps {s s' : State} {rm : Option Nat} (h : QShape s s' rm) {it : Item} (hm : it ∈ s.queue)
    (hrm : rm ≠ some it.id) : ∃ it' ∈ s'.queue, ItemSucc it it' := by
  obtain ⟨p, f, fresh, hq, _, hsucc, hdrop, _, _⟩ := h
  have hp : p it = true := by
    cases hpi : p it with
    | true => rfl
    | false => exact absurd (hdrop it hm hpi) hrm
  refine ⟨f it, ?_, hsucc it hm⟩
  rw [hq]
  exact List.mem_append_left _ (List.mem_map.mpr ⟨it, List.mem_filter.mpr ⟨hm, hp⟩, rfl⟩)

theorem QShape.qinv {s s' : State} {rm : Option Nat} (h : QShape s s' rm) (hi : QInv s) : QInv s' := by
  constructor
  · intro it' hm
    rcases h.mem hm with ⟨it, hit, hs⟩ | ⟨_, hle, _⟩
    · obtain ⟨_, _, _, _, hn, _⟩ := h
      have := hi.1 it hit
      rw [hs.1]; omega
    · exact hle
  · obtain ⟨p, f, fresh, hq, hn, hsucc, _, hfresh, hfnd⟩ := h
    have hmap : ((s.queue.filter p).map f).map (·.id) = (s.queue.filter p).map (·.id) := by
      rw [List.map_map]
      apply List.map_congr_left
      intro it hit
      exact (hsucc it (List.mem_filter.mp hit).1).1
    rw [hq, List.map_append, hmap]
    refine List.nodup_append.mpr ⟨hi.2.sublist ((List.filter_sublist).map _), hfnd, ?_⟩
    intro a ha b hb hab
    obtain ⟨x, hx, rfl⟩ := List.mem_map.mp ha
    obtain ⟨y, hy, rfl⟩ := List.mem_map.mp hb
    have h1 := hi.1 x (List.mem_filter.mp hx).1
    have h2 := (hfresh y hy).1
    omega

theorem QShape.evNodup {s s' : State} {rm : Option Nat} (h : QShape s s' rm) (he : EvNodup s) : EvNodup s' := by
  intro it' hm
  rcases h.mem hm with ⟨it, hit, _, hev | ⟨e, hev⟩⟩ | ⟨_, _, hev⟩
  · rw [hev]; exact he it hit
  · rw [hev]; exact Paloma.Libcons.addEvidence_nodup _ e (he it hit)
  · rw [hev]; simp

theorem QShape.supInv {s s' : State} {rm : Option Nat} (h : QShape s s' rm) {id v : Nat}
    (hs : SupInv id v s) : SupInv id v s' := by
  constructor
  · obtain ⟨_, _, _, _, hn, _⟩ := h
    have := hs.1; omega
  · intro it' hm hid
    rcases h.mem hm with ⟨it, hit, hi1, hev | ⟨e, hev⟩⟩ | ⟨hlt, _, _⟩
    · rw [hev]; exact hs.2 it hit (by rw [← hi1, hid])
    · rw [hev]; exact Paloma.Libcons.addEvidence_keeps _ e v (hs.2 it hit (by rw [← hi1, hid]))
    · have := hs.1; omega

/-- every world step is a queue step of that shape (bridge-side ops leave the queue alone; a prune is
a `remove`) -/
theorem wstep_shape (w : World) (op : WOp) (hi : QInv w.q) : QShape w.q (wstep w op).q (wRemoves op) := by
  cases op with
  | bridge op => exact QShape.same rfl rfl
  | evidence c key => exact QShape.same rfl rfl
  | register v key => exact QShape.same rfl rfl
  | queue op => exact qstep_shape w.q op hi
  | prune id =>
    cases hg : getItem w.q.queue id with
    | none => rw [wstep_prune_none hg]; exact QShape.same rfl rfl
    | some it => rw [wstep_prune_some hg]; exact qstep_shape w.q (.remove id) hi

theorem winv_step (w : World) (op : WOp) (h : WInv w) : WInv (wstep w op) :=
  ⟨(wstep_shape w op h.1).qinv h.1, (wstep_shape w op h.1).evNodup h.2⟩

theorem winv_foldl (ops : List WOp) : ∀ w, WInv w → WInv (ops.foldl wstep w) := by
  induction ops with
  | nil => intro w h; exact h
  | cons op rest ih => intro w h; exact ih _ (winv_step w op h)

theorem winv_init : WInv World.init := by
  refine ⟨⟨?_, ?_⟩, ?_⟩
  · intro it h; exact absurd h List.not_mem_nil
  · exact List.nodup_nil
  · intro it h; exact absurd h List.not_mem_nil

theorem winv_wrun (ops : List WOp) : WInv (wrun ops) := winv_foldl ops _ winv_init

theorem supInv_foldl (ops : List WOp) (id v : Nat) : ∀ w, QInv w.q → SupInv id v w.q →
    QInv (ops.foldl wstep w).q ∧ SupInv id v (ops.foldl wstep w).q := by
  induction ops with
  | nil => intro w h1 h2; exact ⟨h1, h2⟩
  | cons op rest ih =>
    intro w h1 h2
    exact ih _ ((wstep_shape w op h1).qinv h1) ((wstep_shape w op h1).supInv h2)

/-- right after an accepted `addEvidence id v h` the supplier invariant holds -/
theorem addEv_supInv (s : State) (id v h : Nat) (hi : QInv s) (hq : (getItem s.queue id).isSome) :
    SupInv id v (Paloma.Queue.apply s (.addEvidence id v h)) := by
  obtain ⟨it0, h0⟩ := Option.isSome_iff_exists.mp hq
  obtain ⟨hm0, hid0⟩ := getItem_some h0
  have hst : Paloma.Queue.apply s (.addEvidence id v h) =
      { s with queue := setItem s.queue { it0 with evidence := addEvidence it0.evidence (v, h) } } := by
    simp only [Paloma.Queue.apply, Paloma.Queue.addEv, h0]
  rw [hst]
  constructor
  · have := hi.1 it0 hm0
    simp only; omega
  · intro x hx hxid
    simp only [setItem, List.mem_map] at hx
    obtain ⟨y, _, rfl⟩ := hx
    by_cases hc : y.id = it0.id
    · have hb : (y.id == it0.id) = true := by simpa using hc
      simp only [hb, if_true]
      exact Paloma.Libcons.addEvidence_adds it0.evidence (v, h)
    · have hb : (y.id == it0.id) = false := by simpa using hc
      simp only [hb] at hxid
      exact absurd (hxid.trans hid0.symm) hc

/-! ### the projection to part A -/

theorem wstep_br (w : World) (op : WOp) : (wstep w op).br = (trace1 w op).foldl apply13 w.br := by
  cases op with
  | bridge op => rfl
  | evidence c key => rfl
  | register v key => rfl
  | queue op => rfl
  | prune id =>
    cases hg : getItem w.q.queue id with
    | none => rw [wstep_prune_none hg]; simp only [trace1, hg]; rfl
    | some it => rw [wstep_prune_some hg]; simp only [trace1, hg]; rfl

theorem foldl_br (ops : List WOp) : ∀ w, (ops.foldl wstep w).br = (trace13 w ops).foldl apply13 w.br := by
  induction ops with
  | nil => intro w; rfl
  | cons op rest ih =>
    intro w
    simp only [List.foldl_cons, trace13, List.foldl_append]
    rw [ih, wstep_br]

theorem trace13_append (a b : List WOp) : ∀ w, trace13 w (a ++ b) = trace13 w a ++ trace13 (a.foldl wstep w) b := by
  induction a with
  | nil => intro w; rfl
  | cons op rest ih =>
    intro w
    simp only [List.cons_append, trace13, List.foldl_cons, ih, List.append_assoc]

theorem wrun_br (ops : List WOp) : (wrun ops).br = run13 (trace13 World.init ops) := by
  unfold wrun run13
  exact foldl_br ops World.init

theorem wrun_br_append (a b : List WOp) :
    (wrun (a ++ b)).br = run13 (trace13 World.init a ++ trace13 (wrun a) b) := by
  rw [wrun_br, trace13_append]; rfl

theorem wrun_br_of_trace {pre : List WOp} {p : List Op13} (hp : trace13 World.init pre = p) :
    (wrun pre).br = run13 p := by
  rw [wrun_br, hp]

theorem trace1_cases (w : World) (op : WOp) : trace1 w op = [] ∨ ∃ x, trace1 w op = [x] := by
  cases op with
  | bridge op => exact Or.inr ⟨_, rfl⟩
  | evidence c key => exact Or.inr ⟨_, rfl⟩
  | register v key => exact Or.inr ⟨_, rfl⟩
  | queue op => exact Or.inl rfl
  | prune id =>
    cases hg : getItem w.q.queue id with
    | none => left; simp only [trace1, hg]
    | some it => right; exact ⟨.jail (victims w.q it), by simp only [trace1, hg]⟩

/-- an op of the projected history comes from exactly one op of the world history -/
theorem trace13_split : ∀ (ops : List WOp) (w : World) (p : List Op13) (o : Op13) (r : List Op13),
    trace13 w ops = p ++ o :: r →
    ∃ pre op rest, ops = pre ++ op :: rest ∧ trace13 w pre = p ∧ trace1 (pre.foldl wstep w) op = [o] := by
  intro ops
  induction ops with
  | nil => intro w p o r h; simp [trace13] at h
  | cons op rest ih =>
    intro w p o r h
    simp only [trace13] at h
    rcases trace1_cases w op with h0 | ⟨x, hx⟩
    · rw [h0, List.nil_append] at h
      obtain ⟨pre, op', rest', he, ht, h1⟩ := ih _ p o r h
      exact ⟨op :: pre, op', rest', by rw [he]; rfl, by simp only [trace13, h0, List.nil_append, ht], h1⟩
    · rw [hx] at h
      cases p with
      | nil =>
        simp only [List.nil_append, List.singleton_append, List.cons.injEq] at h
        exact ⟨[], op, rest, rfl, rfl, by rw [← h.1]; exact hx⟩
      | cons y p' =>
        simp only [List.cons_append, List.cons.injEq] at h
        obtain ⟨pre, op', rest', he, ht, h1⟩ := ih _ p' o r h.2
        exact ⟨op :: pre, op', rest', by rw [he]; rfl,
          by simp only [trace13, hx, List.singleton_append, ht, h.1], h1⟩

theorem trace1_evidence {w : World} {op : WOp} {c : Ckpt} {key : Nat} (h : trace1 w op = [.evidence c key]) :
    op = .evidence c key := by
  cases op with
  | bridge op => simp [trace1] at h
  | evidence c' key' => simp only [trace1, List.cons.injEq, Op13.evidence.injEq, and_true] at h; rw [h.1, h.2]
  | register v key => simp [trace1] at h
  | queue op => simp [trace1] at h
  | prune id =>
    cases hg : getItem w.q.queue id with
    | none => simp [trace1, hg] at h
    | some it => simp [trace1, hg] at h

theorem trace1_register {w : World} {op : WOp} {v key : Nat} (h : trace1 w op = [.register v key]) :
    op = .register v key := by
  cases op with
  | bridge op => simp [trace1] at h
  | evidence c' key' => simp [trace1] at h
  | register v' key' => simp only [trace1, List.cons.injEq, Op13.register.injEq, and_true] at h; rw [h.1, h.2]
  | queue op => simp [trace1] at h
  | prune id =>
    cases hg : getItem w.q.queue id with
    | none => simp [trace1, hg] at h
    | some it => simp [trace1, hg] at h

theorem trace1_jail {w : World} {op : WOp} {vs : List Nat} (h : trace1 w op = [.jail vs]) :
    ∃ id it, op = .prune id ∧ getItem w.q.queue id = some it ∧ vs = victims w.q it := by
  cases op with
  | bridge op => simp [trace1] at h
  | evidence c' key' => simp [trace1] at h
  | register v' key' => simp [trace1] at h
  | queue op => simp [trace1] at h
  | prune id =>
    cases hg : getItem w.q.queue id with
    | none => simp [trace1, hg] at h
    | some it =>
      simp only [trace1, hg, List.cons.injEq, Op13.jail.injEq, and_true] at h
      exact ⟨id, it, rfl, hg, h.symm⟩

end LemmasWorld

end Paloma.C13


/-! ## Property theorems (C13) -/

namespace Paloma.Bridge
open List

/-- **open_batch_checkpoint_archived.** In every reachable state, the signing bytes of every open batch
— what the chain is asking validators to sign right now, after a build *or* after a gas-estimate
re-issue — are in the archive. -/
theorem open_batch_checkpoint_archived (ops : List Op13) :
    ∀ b ∈ (run13 ops).batches, b.ckpt ∈ (run13 ops).archive :=
  openArchived_run13 ops

/-- **archive_grows.** An archived checkpoint is never removed, whatever happens later (re-estimation,
cancellation, execution of the batch, evidence, key changes, faults). -/
theorem archive_grows (before after : List Op13) (c : Ckpt) (hc : c ∈ (run13 before).archive) :
    c ∈ (run13 (before ++ after)).archive := by
  rw [run13_append]
  exact archSub_foldl13 after (run13 before) c hc

/-- **issued_checkpoint_archived_forever.** "Issued" defined from the executable state: if `b` is an open
batch in the state after *some prefix* of the history — at any stage of its life — its checkpoint at
that moment is archived in every later state. -/
theorem issued_checkpoint_archived_forever (before after : List Op13) (b : Batch)
    (hb : b ∈ (run13 before).batches) : b.ckpt ∈ (run13 (before ++ after)).archive :=
  archive_grows before after b.ckpt (open_batch_checkpoint_archived before b hb)

/-- **archive_written_where_checkpoints_are_issued.** A SOURCE TIE, not a semantic theorem: a `decide`
over string tables (`Gen/Atomicity.lean`) that the extractor regenerates from the Go source on every
check.  It says that in the current source the two functions that store a batch's signing bytes — the
build and the gas-estimate re-issue — both call the archive's setter, and that nothing but the archive's
own setter / getter mentions its store key (so no code path deletes an archived checkpoint).  What the
table means is the extractor's responsibility (trusted); the theorem only pins the model's two archive
writes (`buildOk`, `estimateOk`) to the functions they mirror and fails when the source drifts. -/
theorem archive_written_where_checkpoints_are_issued :
    (Paloma.Gen.Atomicity.archiveSetters.contains "x/skyway/keeper.Keeper.BuildOutgoingTXBatch" &&
     Paloma.Gen.Atomicity.archiveSetters.contains "x/skyway/keeper.Keeper.UpdateBatchGasEstimate" &&
     Paloma.Gen.Atomicity.archiveKeyUsers ==
       ["x/skyway/keeper.Keeper.GetPastEthSignatureCheckpoint", "x/skyway/keeper.Keeper.SetPastEthSignatureCheckpoint"]) = true := by decide

/-- **genuine_confirmation_safe.** Once a checkpoint has been the signing bytes of an open batch,
evidence built from a signature over it — by whatever key, submitted by whoever — is refused at every
later time and changes nothing, whatever happened in between (re-estimation, cancellation, execution of
the batch, other evidence, key re-registration). -/
theorem genuine_confirmation_safe (before after : List Op13) (b : Batch) (key : Nat)
    (hb : b ∈ (run13 before).batches) :
    evidence (run13 (before ++ after)) b.ckpt key = (run13 (before ++ after), .rejected) := by
  have := issued_checkpoint_archived_forever before after b hb
  unfold evidence
  simp [this]

/-- **key_registry_provenance** (registry provenance).  `(v, key)` is in the chain's key registry only
because the history contains a `register v key` op — by `v` itself, for exactly this key — that the
chain accepted (result `.ok`: `v` was not jailed and nobody else held the key). -/
theorem key_registry_provenance (ops : List Op13) (v key : Nat) (h : (v, key) ∈ (run13 ops).keys) :
    ∃ pre rest, ops = pre ++ .register v key :: rest ∧ (registerKey (run13 pre) v key).2 = .ok := by
  rcases first_appearance apply13 (·.keys) (v, key) ops St.init h with h0 | ⟨pre, op, rest, he, hn, hm⟩
  · simp [St.init] at h0
  · rcases apply13_keys (pre.foldl apply13 St.init) op with h1 | ⟨v', key', hop, hok, h1⟩
    · rw [h1] at hm; exact absurd hm hn
    · rw [h1] at hm
      rcases mem_setKey hm with heq | hold
      · have hv : v = v' := congrArg Prod.fst heq
        have hk : key = key' := congrArg Prod.snd heq
        subst hv; subst hk
        exact ⟨pre, rest, by rw [he, hop], hok⟩
      · exact absurd hold hn

/-- **jail_provenance.** A validator `v` is in the jailed set only if EITHER the history contains an
evidence op — checkpoint `c`, signature recovering to `key` — such that at that moment
(i) `c` was not archived, hence
(ii) `c` had not been the signing bytes of any batch open at any earlier op boundary of the history
(it had not been issued so far), and
(iii) `key` was the remote key *registered by `v`* in the chain's own registry (`lookupKey`,
`(v, key) ∈ keys`), and that registry entry was written by a `register v key` op of the prefix that the
chain accepted (`lookupKey … = some v` says no later accepted registration moved the key away from `v`);
OR `v` was jailed by a mechanism outside part A (an explicit `jail` op naming `v`: prune-time jailing,
see `world_jail_provenance`, or staking).

Two things this statement does NOT say, deliberately.
(a) The key is looked up at EVIDENCE time, not at signing time, exactly as
`checkBadSignatureEvidenceInternal` calls `GetValidatorByEthAddress` when the evidence arrives.  After a
rotation (`v` registers another key, `w` then registers `key`) the validator jailed for an old signature
by `key` is its NEW holder `w` (`holder_at_evidence_time` below exhibits it).  The theorem's "registered
key" is the registration in force when the evidence is processed.
(b) Clause (ii) quantifies over op boundaries.  A checkpoint that is built and re-estimated inside ONE
end-block (`createBatches` then `applyEstimates`) is the checkpoint of an open batch at no op boundary,
so (ii) does not see it; it is covered by clause (i) alone, `c ∉ archive`, together with the archive
invariant (`buildOk` and `estimateOk` archive at once, `archive_grows`): both checkpoints are archived
inside that end-block and evidence over either is refused ever after. -/
theorem jail_provenance (ops : List Op13) (v : Nat) (hv : v ∈ (run13 ops).jailed) :
    (∃ pre c key rest, ops = pre ++ .evidence c key :: rest ∧
      c ∉ (run13 pre).archive ∧
      (∀ pre' more b, pre = pre' ++ more → b ∈ (run13 pre').batches → b.ckpt ≠ c) ∧
      lookupKey (run13 pre).keys key = some v ∧ (v, key) ∈ (run13 pre).keys ∧
      ∃ p0 p1, pre = p0 ++ .register v key :: p1 ∧ (registerKey (run13 p0) v key).2 = .ok) ∨
    (∃ pre vs rest, ops = pre ++ .jail vs :: rest ∧ v ∈ vs) := by
  rcases first_appearance apply13 (·.jailed) v ops St.init hv with h | ⟨pre, op, rest, he, hn, hm⟩
  · simp [St.init] at h
  · rcases apply13_jailed (pre.foldl apply13 St.init) op with h1 | ⟨c, key, w, hop, hc, hw, h1⟩ | ⟨vs, hop, h1⟩
    · rw [h1] at hm; exact absurd hm hn
    · rw [h1, List.mem_cons] at hm
      rcases hm with hm | hm
      · subst hm
        left
        refine ⟨pre, c, key, rest, by rw [he, hop], hc, ?_, hw, lookupKey_some hw,
          key_registry_provenance pre v key (lookupKey_some hw)⟩
        intro pre' more b hpre hb hck
        apply hc
        have := issued_checkpoint_archived_forever pre' more b hb
        rw [← hpre, hck] at this
        exact this
      · exact absurd hm hn
    · rw [h1, List.mem_append] at hm
      rcases hm with hm | hm
      · right; exact ⟨pre, vs, rest, by rw [he, hop], hm⟩
      · exact absurd hm hn

/-- **jail_provenance_evidence_only.** In a history without external jailing, bad-signature evidence
is the only way into the jailed set: the statement of `jail_provenance` with the first alternative only. -/
theorem jail_provenance_evidence_only (ops : List Op13) (hno : ∀ vs, Op13.jail vs ∉ ops) (v : Nat)
    (hv : v ∈ (run13 ops).jailed) :
    ∃ pre c key rest, ops = pre ++ .evidence c key :: rest ∧
      c ∉ (run13 pre).archive ∧
      (∀ pre' more b, pre = pre' ++ more → b ∈ (run13 pre').batches → b.ckpt ≠ c) ∧
      lookupKey (run13 pre).keys key = some v ∧ (v, key) ∈ (run13 pre).keys := by
  rcases jail_provenance ops v hv with ⟨pre, c, key, rest, he, hc, hi, hl, hk, _⟩ | ⟨pre, vs, rest, he, _⟩
  · exact ⟨pre, c, key, rest, he, hc, hi, hl, hk⟩
  · exact absurd (by rw [he]; simp) (hno vs)

/-- **jailed_cannot_register.** A jailed validator — jailed by evidence or by a prune, it is one set —
cannot (re-)register a remote key: the registration is refused and changes nothing. -/
theorem jailed_cannot_register (s : St) (v key : Nat) (h : v ∈ s.jailed) :
    registerKey s v key = (s, .rejected) := by
  unfold registerKey
  have : s.jailed.contains v = true := by simpa using h
  simp only [this, if_true]

/-- **registered_key_unique.** In every reachable state a remote key has at most one holder, so "the
validator that registered the key" is well defined; and the jailing step looks the holder up. -/
theorem registered_key_unique (ops : List Op13) (v w key : Nat)
    (hv : (v, key) ∈ (run13 ops).keys) (hw : (w, key) ∈ (run13 ops).keys) : v = w :=
  keysUnique_run13 ops (v, key) hv (w, key) hw rfl

/-- **unregistered_key_refused.** A signature by a key nobody registered (or no longer registered: the
validator rotated it away) jails nobody and changes nothing, whatever the checkpoint. -/
theorem unregistered_key_refused (s : St) (c : Ckpt) (key : Nat) (h : ∀ v, (v, key) ∉ s.keys) :
    evidence s c key = (s, .rejected) := by
  unfold evidence
  split
  · rfl
  · cases hl : lookupKey s.keys key with
    | none => rfl
    | some v => exact absurd (lookupKey_some hl) (h v)

/-- **evidence_jails_exactly.** What an accepted piece of evidence does: the holder of the signing key is
added to the jailed set (if not yet there) and nothing else changes. -/
theorem evidence_jails_exactly (s : St) (c : Ckpt) (key : Nat) :
    (evidence s c key).1 = s ∨
    (c ∉ s.archive ∧ ∃ v, (v, key) ∈ s.keys ∧ (evidence s c key).1 = { s with jailed := v :: s.jailed }) := by
  rcases evidence_cases s c key with h | ⟨hc, v, hv, _, h⟩
  · exact Or.inl h
  · exact Or.inr ⟨hc, v, lookupKey_some hv, h⟩

/-- **never_issued_is_so_far** (the strongest reading of "never issued" is not implementable, and is
false of the model and of the implementation alike).  The chain cannot know the future: a validator whose
registered key signed a checkpoint *before* the chain issued it is jailed on evidence (at that time it
had signed something Paloma had not issued), and a later build may issue exactly that checkpoint.
`jail_provenance` is therefore stated — at full strength for what any implementation can decide — as
"not issued in any earlier state of the history". -/
theorem never_issued_is_so_far :
    ∃ (pre post : List Op13) (v : Nat) (c : Ckpt),
      v ∈ (run13 pre).jailed ∧ (∀ b ∈ (run13 pre).batches, b.ckpt ≠ c) ∧ c ∉ (run13 pre).archive ∧
      ∃ b ∈ (run13 (pre ++ post)).batches, b.ckpt = c :=
  ⟨[.register 7 70, .evidence (1, 1, 0, 0) 70],
   [.bridge (.fund 1 1 100), .bridge (.send Fault.none 1 1 10 5), .bridge (.build Fault.none 1 1000)],
   7, (1, 1, 0, 0), by decide, by decide, by decide, by decide⟩

/-! ### non-vacuity: build, elect an estimate, replay confirmations as evidence, rotate a key -/
def demo13 : List Op13 :=
  [ .register 3 33, .register 4 44,
    .bridge (.fund 1 1 100), .bridge (.send Fault.none 1 1 10 5), .bridge (.build Fault.none 1 1000),
    .bridge (.endBlock Fault.none 7 1001 [1] [(1, 1, 21000)]) ]

example : (run13 demo13).archive = [(1, 1, 21000, 0), (1, 1, 0, 0)] ∧
    ((run13 demo13).batches.map Batch.ckpt) = [(1, 1, 21000, 0)] ∧
    -- the re-issued and the build-time checkpoint are both safe, for the registered key 33 of validator 3
    (evidence (run13 demo13) (1, 1, 21000, 0) 33).2 = .rejected ∧
    (evidence (run13 demo13) (1, 1, 0, 0) 33).2 = .rejected ∧
    -- a forged variant jails the holder of the key, an unregistered key jails nobody
    (evidence (run13 demo13) (1, 1, 21000, 1) 33).1.jailed = [3] ∧
    (evidence (run13 demo13) (1, 1, 21000, 1) 99).1.jailed = [] ∧
    -- validator 3 rotates to key 35: its old key no longer points to it; key 44 cannot be taken over
    (evidence (run13 (demo13 ++ [.register 3 35])) (1, 1, 21000, 1) 33).1.jailed = [] ∧
    (evidence (run13 (demo13 ++ [.register 3 35])) (1, 1, 21000, 1) 35).1.jailed = [3] ∧
    (run13 (demo13 ++ [.register 3 44])).keys = [(3, 33), (4, 44)] := by decide

/-- `holder_at_evidence_time`: the key is resolved when the evidence ARRIVES.  Validator 3 held key 33,
rotated to 35, validator 4 then took 33: evidence of a signature by key 33 over a checkpoint the chain
never issued jails validator 4, its holder now — whoever held the key when the signature was made. -/
example : (run13 [.register 3 33, .register 3 35, .register 4 33, .evidence (1, 1, 0, 9) 33]).jailed = [4] ∧
    (run13 [.register 3 33, .evidence (1, 1, 0, 9) 33]).jailed = [3] ∧
    -- external jailing writes the same set, and a jailed validator cannot register
    (run13 [.jail [8, 9], .register 8 80, .register 7 70, .evidence (1, 1, 0, 9) 70]).jailed = [7, 8, 9] ∧
    (run13 [.jail [8, 9], .register 8 80, .register 7 70]).keys = [(7, 70)] := by decide

end Paloma.Bridge

namespace Paloma.Libcons

/-- **prune_spares_attesters.** A validator that supplied evidence is never jailed at prune time. -/
theorem prune_spares_attesters (s : Snapshot) (evs : List Nat) (v : Nat) (hv : v ∈ evs) :
    v ∉ pruneJail s evs := by
  unfold pruneJail
  split
  · simp
  · split
    · simp
    · split
      · simp
      · intro hm
        have := (List.mem_filter.mp hm).2
        simp [hv] at this

/-- **prune_floor_counted.** Nobody is jailed when the votes `VerifyEvidence` counts are below 10 % of
the snapshot total. -/
theorem prune_floor_counted (s : Snapshot) (evs : List Nat)
    (h : 10 * (foundShares s evs).sum < s.total) : pruneJail s evs = [] := by
  unfold pruneJail tally
  simp only
  split
  · rfl
  · rename_i votes hs
    split at hs
    · cases hs
    · injection hs with hs
      subst hs
      simp [h]

/-- **evidence_suppliers_distinct.** A message never holds two proofs of one validator, whatever the
submission history (`AddEvidence` replaces). -/
theorem evidence_suppliers_distinct (subs : List Evidence) : ((evidenceAfter subs).map (·.1)).Nodup :=
  foldl_addEvidence_nodup subs [] (by simp)

/-- **prune_floor.** Nobody is jailed when fewer than 10 % of the snapshot shares attested — the shares
of the *distinct* snapshot validators that supplied evidence, each counted once, whatever the
submission history (re-submissions, several proofs).
ASSUMPTION `hnd`: the snapshot lists every validator once.  This is NOT proved here.  C10
(`Props/C10.lean: stored_each_once`) proves it of every snapshot `createNewSnapshot` stores, and does so
only under C10's own ASSUMPTION `StakingWF` (every staking state shown to the module lists pairwise
distinct validator ids — the Cosmos SDK staking store is keyed by operator address).  So `hnd` rests on
`StakingWF`; without it the code's multiplicity-counting sum (`foundShares`, `prune_floor_counted`) is
all that is known. -/
theorem prune_floor (vs : List (Nat × Nat)) (total : Nat) (subs : List Evidence)
    (hnd : (vs.map (·.1)).Nodup)
    (h : 10 * attestedShares ⟨vs, total⟩ ((evidenceAfter subs).map (·.1)) < total) :
    pruneJail ⟨vs, total⟩ ((evidenceAfter subs).map (·.1)) = [] := by
  apply prune_floor_counted
  rw [foundShares_sum_eq vs total hnd _ (evidence_suppliers_distinct subs)]
  exact h

/-- **prune_floor_of_shares.** The same with the snapshot's total being the sum of its shares (how
`createNewSnapshot` builds it): fewer than 10 % of the snapshot's shares. -/
theorem prune_floor_of_shares (vs : List (Nat × Nat)) (subs : List Evidence) (hnd : (vs.map (·.1)).Nodup)
    (h : 10 * attestedShares ⟨vs, (vs.map (·.2)).sum⟩ ((evidenceAfter subs).map (·.1)) < (vs.map (·.2)).sum) :
    pruneJail ⟨vs, (vs.map (·.2)).sum⟩ ((evidenceAfter subs).map (·.1)) = [] :=
  prune_floor vs _ subs hnd h

/-- only snapshot validators are ever jailed at prune time -/
theorem prune_only_snapshot (s : Snapshot) (evs : List Nat) (v : Nat) (hv : v ∈ pruneJail s evs) :
    v ∈ s.vals.map (·.1) := by
  unfold pruneJail at hv
  split at hv
  · simp at hv
  · split at hv
    · simp at hv
    · split at hv
      · simp at hv
      · exact (List.mem_filter.mp hv).1

/-- **evidence_never_lost.** Whatever the order of submissions and however often validators re-submit
(same or different proof), every validator that ever supplied evidence for a message is in the
message's evidence list. -/
theorem evidence_never_lost (subs : List Evidence) (v : Nat) (hv : v ∈ subs.map (·.1)) :
    v ∈ (evidenceAfter subs).map (·.1) :=
  foldl_addEvidence_keeps subs [] v (Or.inr hv)

/-- **prune_spares_every_submitter** (third clause over whole evidence histories).  A validator that
supplied evidence for a message at any point of its life — first, in the middle, before or after a
re-submission by somebody else or by itself — is not jailed when the message is pruned. -/
theorem prune_spares_every_submitter (s : Snapshot) (subs : List Evidence) (v : Nat) (hv : v ∈ subs.map (·.1)) :
    v ∉ pruneJail s ((evidenceAfter subs).map (·.1)) :=
  prune_spares_attesters s _ v (evidence_never_lost subs v hv)

/-- **prune_floor_distinct.** `prune_floor` for any snapshot value and any list of distinct suppliers
(the form the world machine uses: its suppliers are distinct by `world_evidence_nodup`).  Same
ASSUMPTION `hnd` as `prune_floor`. -/
theorem prune_floor_distinct (s : Snapshot) (evs : List Nat) (hnd : (s.vals.map (·.1)).Nodup) (hev : evs.Nodup)
    (h : 10 * attestedShares s evs < s.total) : pruneJail s evs = [] := by
  apply prune_floor_counted
  rw [foundShares_sum_eq' s hnd evs hev]
  exact h

/-- **prune_outcome_provenance.** Whom `PruneJob` can jail at all, on the decision function: only for a
message with a delivery / error report whose evidence does not reach consensus; only snapshot
validators; never a supplier of the evidence on record; never when the counted votes are below 10 %. -/
theorem prune_outcome_provenance (dl : Bool) (snap : Snapshot) (evs : List Evidence) (v : Nat)
    (hv : v ∈ pruneOutcome dl snap evs) :
    dl = true ∧ verifyEvidence snap evs = .notAchieved ∧ v ∈ snap.vals.map (·.1) ∧ v ∉ evs.map (·.1) ∧
    ¬ 10 * (foundShares snap (evs.map (·.1))).sum < snap.total := by
  unfold pruneOutcome at hv
  cases dl with
  | false => simp at hv
  | true =>
    simp only [Bool.not_true, Bool.false_eq_true, if_false] at hv
    cases hver : verifyEvidence snap evs with
    | winnerIn ws => simp [hver] at hv
    | notAchieved =>
      simp only [hver] at hv
      refine ⟨rfl, rfl, prune_only_snapshot _ _ _ hv, ?_, ?_⟩
      · intro hin
        exact prune_spares_attesters snap _ v hin hv
      · intro hlt
        rw [prune_floor_counted snap _ hlt] at hv
        cases hv

/-! ### non-vacuity -/
example : pruneJail ⟨[(1,5),(2,5),(3,5)], 15⟩ [1] = [2, 3] := by decide
example : pruneJail ⟨[(1,1),(2,7),(3,7)], 15⟩ [1] = [] := by decide
-- validator 1 submits, 2 and 3 follow, 1 re-submits another proof: all three stay on record, only 4 is jailed
example : evidenceAfter [(1, 7), (2, 8), (3, 9), (1, 5)] = [(1, 5), (2, 8), (3, 9)] ∧
    pruneJail ⟨[(1,5),(2,5),(3,5),(4,5)], 20⟩ ((evidenceAfter [(1, 7), (2, 8), (3, 9), (1, 5)]).map (·.1)) = [4] := by decide
-- the 10 % floor counts every supplier once: validator 1 (1 of 20 shares = 5 %) submitting twice jails nobody
example : pruneJail ⟨[(1,1),(2,19)], 20⟩ ((evidenceAfter [(1, 7), (1, 8)]).map (·.1)) = [] ∧
    attestedShares ⟨[(1,1),(2,19)], 20⟩ ((evidenceAfter [(1, 7), (1, 8)]).map (·.1)) = 1 := by decide

end Paloma.Libcons

/-! ### the world machine: both jailing mechanisms on one jailed set, over the real queue model -/
namespace Paloma.C13
open Paloma.Bridge (St Ckpt Op13 apply13 run13 lookupKey registerKey)
open Paloma.Libcons (verifyEvidence addEvidence pruneOutcome pruneJail attestedShares foundShares)
open Paloma.Queue (Item State Snap getItem setItem libSnap)

/-- **queue_step_shape.** What ANY operation of the consensus-queue model can do to the queue, given
the queue invariant (ids handed out by the counter, pairwise distinct): the invariant is kept; the
counter does not decrease; every message of the new queue either continues a message of the old queue
— same id, its evidence unchanged or extended by one `addEvidence` — or is fresh, with an id above the
old counter and no evidence; and a message disappears only through `remove` of its id.
(Derived from `qstep_shape`; a new constructor of `Paloma.Queue.Op` is handled there.) -/
theorem queue_step_shape (s : State) (op : Paloma.Queue.Op) (hi : QInv s) :
    QInv (Paloma.Queue.apply s op) ∧ s.nextId ≤ (Paloma.Queue.apply s op).nextId ∧
    (∀ it' ∈ (Paloma.Queue.apply s op).queue,
      (∃ it ∈ s.queue, it'.id = it.id ∧
        (it'.evidence = it.evidence ∨ ∃ e, it'.evidence = addEvidence it.evidence e)) ∨
      (s.nextId < it'.id ∧ it'.id ≤ (Paloma.Queue.apply s op).nextId ∧ it'.evidence = [])) ∧
    (∀ it ∈ s.queue, op ≠ .remove it.id →
      ∃ it' ∈ (Paloma.Queue.apply s op).queue, it'.id = it.id ∧
        (it'.evidence = it.evidence ∨ ∃ e, it'.evidence = addEvidence it.evidence e)) := by
  have h := qstep_shape s op hi
  refine ⟨h.qinv hi, ?_, fun it' hm => h.mem hm, ?_⟩
  · obtain ⟨_, _, _, _, hn, _⟩ := h
    exact hn
  · intro it hm hne
    apply h.keeps hm
    intro hrm
    apply hne
    cases op <;> simp only [removedBy, Option.some.injEq, reduceCtorEq] at hrm
    rw [hrm]

/-- **world_queue_invariant.** In every reachable world state the message ids are pairwise distinct and
were all handed out by the id counter (so an id is never reused: `put` allocates `nextId + 1`). -/
theorem world_queue_invariant (ops : List WOp) :
    (∀ it ∈ (wrun ops).q.queue, it.id ≤ (wrun ops).q.nextId) ∧ ((wrun ops).q.queue.map (·.id)).Nodup :=
  (winv_wrun ops).1

/-- **world_evidence_nodup.** In every reachable world state every queue message holds at most one
proof per validator — whatever was submitted, re-submitted, elected, reported, removed or pruned. -/
theorem world_evidence_nodup (ops : List WOp) :
    ∀ it ∈ (wrun ops).q.queue, (it.evidence.map (·.1)).Nodup :=
  (winv_wrun ops).2

/-- **world_projects_to_part_A.** The bridge side of every world history IS a part-A history: queue
operations are invisible to it and a prune is an external `jail` of its victims.  Hence every
part-A theorem (stated over all `Op13` histories, `jail` ops with arbitrary lists included) holds of
every world history; the corollaries below spell the main ones out. -/
theorem world_projects_to_part_A (ops : List WOp) : (wrun ops).br = run13 (trace13 World.init ops) :=
  wrun_br ops

/-- **world_open_batch_checkpoint_archived.** In every reachable world state the signing bytes of every
open batch are archived. -/
theorem world_open_batch_checkpoint_archived (ops : List WOp) :
    ∀ b ∈ (wrun ops).br.batches, b.ckpt ∈ (wrun ops).br.archive := by
  rw [wrun_br]
  exact Paloma.Bridge.open_batch_checkpoint_archived _

/-- **world_archive_grows.** An archived checkpoint stays archived under every continuation of the world
history — queue traffic, prunes, evidence, key changes, bridge operations. -/
theorem world_archive_grows (before after : List WOp) (c : Ckpt) (hc : c ∈ (wrun before).br.archive) :
    c ∈ (wrun (before ++ after)).br.archive := by
  rw [wrun_br] at hc
  rw [wrun_br_append]
  exact Paloma.Bridge.archive_grows _ _ c hc

/-- **world_issued_checkpoint_archived_forever.** A checkpoint the chain published for signing — the
checkpoint of a batch open after some prefix of the world history — is archived in every later state. -/
theorem world_issued_checkpoint_archived_forever (before after : List WOp) (b : Paloma.Bridge.Batch)
    (hb : b ∈ (wrun before).br.batches) : b.ckpt ∈ (wrun (before ++ after)).br.archive :=
  world_archive_grows before after b.ckpt (world_open_batch_checkpoint_archived before b hb)

/-- **world_genuine_confirmation_safe** (second clause of the property, on the world machine).  A
signature over a checkpoint of a batch that was open after some prefix of the world history — built or
re-issued after the election of a gas estimate — can never be used against its signer: as evidence it is
refused in every later world state, whatever queue operations, prunes, evidence and key changes happened
in between, and the world does not change. -/
theorem world_genuine_confirmation_safe (before after : List WOp) (b : Paloma.Bridge.Batch) (key : Nat)
    (hb : b ∈ (wrun before).br.batches) :
    Paloma.Bridge.evidence (wrun (before ++ after)).br b.ckpt key = ((wrun (before ++ after)).br, .rejected) ∧
    wstep (wrun (before ++ after)) (.evidence b.ckpt key) = wrun (before ++ after) := by
  have hbr := wrun_br_append before after
  rw [wrun_br] at hb
  have h := Paloma.Bridge.genuine_confirmation_safe _ (trace13 (wrun before) after) b key hb
  rw [← hbr] at h
  refine ⟨h, ?_⟩
  show ({ wrun (before ++ after) with
          br := (Paloma.Bridge.evidence (wrun (before ++ after)).br b.ckpt key).1 } : World) = _
  rw [h]

/-- **world_registered_key_unique.** In every reachable world state a remote key has at most one holder. -/
theorem world_registered_key_unique (ops : List WOp) (v w key : Nat)
    (hv : (v, key) ∈ (wrun ops).br.keys) (hw : (w, key) ∈ (wrun ops).br.keys) : v = w := by
  rw [wrun_br] at hv hw
  exact Paloma.Bridge.registered_key_unique _ v w key hv hw

/-- **world_key_registry_provenance.** A registry entry `(v, key)` of a reachable world state was written
by a `register v key` op of the world history that the chain accepted. -/
theorem world_key_registry_provenance (ops : List WOp) (v key : Nat) (h : (v, key) ∈ (wrun ops).br.keys) :
    ∃ pre rest, ops = pre ++ .register v key :: rest ∧ (registerKey (wrun pre).br v key).2 = .ok := by
  rw [wrun_br] at h
  obtain ⟨p, r, he, hok⟩ := Paloma.Bridge.key_registry_provenance _ v key h
  obtain ⟨pre, op, rest, hops, hp, h1⟩ := trace13_split ops World.init p _ r he
  have hop := trace1_register h1
  subst hop
  exact ⟨pre, rest, hops, by rw [wrun_br_of_trace hp]; exact hok⟩

/-- **victims_spare_suppliers.** A prune never jails a validator whose evidence the message holds. -/
theorem victims_spare_suppliers (q : State) (it : Item) (v : Nat) (hv : v ∈ it.evidence.map (·.1)) :
    v ∉ victims q it := by
  unfold victims
  split
  · simp
  · unfold pruneOutcome
    split
    · simp
    · split
      · simp
      · exact Paloma.Libcons.prune_spares_attesters _ _ v hv

/-- **victims_provenance.** Whom one prune jails, read off the stored state: there is a stored current
snapshot; the message carries a delivery or error report; its evidence does not reach consensus; the
victim is a validator of that snapshot that is not among the suppliers on record; and — for a snapshot
that lists each validator once (ASSUMPTION, see `world_jail_provenance`) and suppliers that are distinct
(the machine's invariant `world_evidence_nodup`) — the suppliers hold at least 10 % of the shares. -/
theorem victims_provenance (q : State) (it : Item) (v : Nat) (hv : v ∈ victims q it)
    (hev : (it.evidence.map (·.1)).Nodup) :
    ∃ snap, q.env.snapshot = some snap ∧ (it.pub || it.err) = true ∧
      verifyEvidence (libSnap snap) it.evidence = .notAchieved ∧
      v ∈ (libSnap snap).vals.map (·.1) ∧ v ∉ it.evidence.map (·.1) ∧
      (((libSnap snap).vals.map (·.1)).Nodup →
        ¬ 10 * attestedShares (libSnap snap) (it.evidence.map (·.1)) < (libSnap snap).total) := by
  unfold victims at hv
  cases hs : q.env.snapshot with
  | none => simp [hs] at hv
  | some snap =>
    simp only [hs] at hv
    obtain ⟨hdl, hver, hin, hnot, hfl⟩ := Paloma.Libcons.prune_outcome_provenance _ _ _ v hv
    refine ⟨snap, rfl, hdl, hver, hin, hnot, ?_⟩
    intro hnd hlt
    apply hfl
    rw [Paloma.Libcons.foundShares_sum_eq' _ hnd _ hev]
    exact hlt

/-- **world_jail_provenance** (the whole property, "only if", on the world machine).  Over EVERY world
history — bridge operations, bad-signature evidence, key registrations, every operation of the
consensus-queue model, prunes, in any interleaving — a validator `v` is in the jailed set only if

EITHER (bad-signature evidence) the history contains an `evidence c key` op such that, in the world
state before it, `c` was not archived; `c` was not the checkpoint of a batch open after any earlier
prefix of the history (never issued so far; see `jail_provenance` (b) for a checkpoint built and
re-estimated inside one end-block: clause `c ∉ archive` covers it); `key` resolved to `v` in the chain's
registry (looked up at EVIDENCE time: after a rotation it is the key's new holder, `jail_provenance`
(a)); and that registration was written by a `register v key` op of the prefix that the chain accepted;

OR (prune) the history contains a `prune id` op such that, in the world state before it, the queue held
message `id` with a delivery or error report (`pub || err`), a current snapshot was stored, the
message's evidence did not reach consensus under that snapshot, `v` is a validator of that snapshot, `v`
is NOT among the suppliers of the evidence the message held, and the 10 % floor was met at full
strength: the suppliers on record — each distinct snapshot validator counted ONCE (`attestedShares`) —
held at least 10 % of the snapshot total.

The floor is obtained from the machine's own invariant `world_evidence_nodup` through
`foundShares_sum_eq`.  Its only hypothesis is an external ASSUMPTION: the stored snapshot lists each
validator id once.  C10 (`Props/C10.lean: stored_each_once`) proves that of every snapshot
`createNewSnapshot` stores, under C10's own ASSUMPTION `StakingWF` (staking states list pairwise
distinct validators).  `Queue.Op.setEnv` lets the environment store ANY snapshot, so the hypothesis
cannot be discharged inside this machine.

Not modelled: `valset.Jail`'s own refusals (a validator holding more than 25 % of the power, the last
active validator, an already jailed one).  The model's victim set is a superset of what staking really
jails — the safe direction for an "only if" statement. -/
theorem world_jail_provenance (ops : List WOp) (v : Nat) (hv : v ∈ (wrun ops).br.jailed) :
    (∃ pre c key rest, ops = pre ++ .evidence c key :: rest ∧
        c ∉ (wrun pre).br.archive ∧
        (∀ pre' more b, pre = pre' ++ more → b ∈ (wrun pre').br.batches → b.ckpt ≠ c) ∧
        lookupKey (wrun pre).br.keys key = some v ∧
        ∃ p0 p1, pre = p0 ++ .register v key :: p1 ∧ (registerKey (wrun p0).br v key).2 = .ok) ∨
    (∃ pre id rest it snap, ops = pre ++ .prune id :: rest ∧
        getItem (wrun pre).q.queue id = some it ∧ (it.pub || it.err) = true ∧
        (wrun pre).q.env.snapshot = some snap ∧
        verifyEvidence (libSnap snap) it.evidence = .notAchieved ∧
        v ∈ (libSnap snap).vals.map (·.1) ∧ v ∉ it.evidence.map (·.1) ∧
        (((libSnap snap).vals.map (·.1)).Nodup →
          ¬ 10 * attestedShares (libSnap snap) (it.evidence.map (·.1)) < (libSnap snap).total)) := by
  rw [wrun_br] at hv
  rcases Paloma.Bridge.jail_provenance _ v hv with
    ⟨p, c, key, r, he, hc, hi, hl, _, p0, p1, hp0, hok⟩ | ⟨p, vs, r, he, hvs⟩
  · left
    obtain ⟨pre, op, rest, hops, hp, h1⟩ := trace13_split ops World.init p _ r he
    have hop := trace1_evidence h1
    subst hop
    have hbr : (wrun pre).br = run13 p := wrun_br_of_trace hp
    refine ⟨pre, c, key, rest, hops, by rw [hbr]; exact hc, ?_, by rw [hbr]; exact hl, ?_⟩
    · intro pre' more b hpre hb
      have hsplit : p = trace13 World.init pre' ++ trace13 (wrun pre') more := by
        rw [← hp, hpre, trace13_append]; rfl
      exact hi _ _ b hsplit (by rw [← wrun_br]; exact hb)
    · rw [← hp] at hp0
      obtain ⟨q0, op0, q1, hpre, hq0, h2⟩ := trace13_split pre World.init p0 _ p1 hp0
      have hop0 := trace1_register h2
      subst hop0
      exact ⟨q0, q1, hpre, by rw [wrun_br_of_trace hq0]; exact hok⟩
  · right
    obtain ⟨pre, op, rest, hops, hp, h1⟩ := trace13_split ops World.init p _ r he
    obtain ⟨id, it, hop, hg, hvs'⟩ := trace1_jail h1
    subst hop; subst hvs'
    have hnd := (winv_wrun pre).2 it (getItem_some hg).1
    obtain ⟨snap, hs, hdl, hver, hin, hnot, hfloor⟩ := victims_provenance _ it v hvs hnd
    exact ⟨pre, id, rest, it, snap, hops, hg, hdl, hs, hver, hin, hnot, hfloor⟩

/-- **world_prune_floor** (last clause of the property, as a statement about every prune step).  After
any world history, if the stored snapshot lists each validator once (ASSUMPTION: C10 `stored_each_once`
under `StakingWF`) and fewer than 10 % of its shares attested — the shares of the distinct snapshot
validators among the suppliers the message has on record, each counted once — then pruning the message
jails nobody. -/
theorem world_prune_floor (pre : List WOp) (id : Nat) (it : Item) (snap : Snap)
    (hit : getItem (wrun pre).q.queue id = some it) (hs : (wrun pre).q.env.snapshot = some snap)
    (hnd : ((libSnap snap).vals.map (·.1)).Nodup)
    (hlow : 10 * attestedShares (libSnap snap) (it.evidence.map (·.1)) < (libSnap snap).total) :
    (wstep (wrun pre) (.prune id)).br.jailed = (wrun pre).br.jailed := by
  rw [wstep_prune_some hit]
  have hev := (winv_wrun pre).2 it (getItem_some hit).1
  have hvic : victims (wrun pre).q it = [] := by
    unfold victims
    simp only [hs]
    unfold pruneOutcome
    split
    · rfl
    · split
      · rfl
      · exact Paloma.Libcons.prune_floor_distinct _ _ hnd hev hlow
  simp only [hvic, List.nil_append]

/-- **world_prune_without_snapshot_or_message.** A prune jails nobody when no current snapshot is stored
(Go: `VerifyEvidence` cannot produce a result — see `victims`), and changes nothing at all when the
message is not in the queue (`GetMsgByID` and `DeleteJob` both fail). -/
theorem world_prune_without_snapshot_or_message (w : World) (id : Nat) :
    (w.q.env.snapshot = none → (wstep w (.prune id)).br.jailed = w.br.jailed) ∧
    (getItem w.q.queue id = none → wstep w (.prune id) = w) := by
  refine ⟨?_, fun h => wstep_prune_none h⟩
  intro hs
  cases hg : getItem w.q.queue id with
  | none => rw [wstep_prune_none hg]
  | some it =>
    rw [wstep_prune_some hg]
    have : victims w.q it = [] := by unfold victims; simp only [hs]
    simp only [this, List.nil_append]

/-- **world_undelivered_jails_nobody** (third clause, "undelivered").  In any world state, pruning a
message that carries neither a delivery report nor an error report jails nobody. -/
theorem world_undelivered_jails_nobody (w : World) (id : Nat) (it : Item)
    (hit : getItem w.q.queue id = some it) (hp : it.pub = false) (he : it.err = false) :
    (wstep w (.prune id)).br.jailed = w.br.jailed := by
  rw [wstep_prune_some hit]
  have : victims w.q it = [] := by
    unfold victims
    split
    · rfl
    · simp only [pruneOutcome, hp, he, Bool.or_self, Bool.not_false, if_true]
  simp only [this, List.nil_append]

/-- **world_supplier_never_jailed** (third clause, "contested", over whole world histories).  Validator
`v` supplies evidence for message `id` while it is in the queue; then ANYTHING happens (`mid`: other
messages, re-submissions by `v` or others, report flags, elections, snapshot changes, bridge traffic,
other prunes, even removal or an earlier prune of the message itself); then the message is pruned.  That
prune jails a set `vic` — the jailed set afterwards is `vic ++` the jailed set before — and `v ∉ vic`.
(Invariant carried through `mid`: the id has been handed out, and every stored message with that id has
`v` among its suppliers; ids are never reused because `put` allocates `nextId + 1`.) -/
theorem world_supplier_never_jailed (pre mid : List WOp) (id v h : Nat)
    (hq : (getItem (wrun pre).q.queue id).isSome) :
    ∃ vic, (wrun (pre ++ [.queue (.addEvidence id v h)] ++ mid ++ [.prune id])).br.jailed =
        vic ++ (wrun (pre ++ [.queue (.addEvidence id v h)] ++ mid)).br.jailed ∧ v ∉ vic := by
  have hi0 := (winv_wrun pre).1
  have hs1 : SupInv id v (wstep (wrun pre) (.queue (.addEvidence id v h))).q := addEv_supInv _ id v h hi0 hq
  have hi1 := (wstep_shape (wrun pre) (.queue (.addEvidence id v h)) hi0).qinv hi0
  have hrun : wrun (pre ++ [.queue (.addEvidence id v h)] ++ mid) =
      mid.foldl wstep (wstep (wrun pre) (.queue (.addEvidence id v h))) := by
    rw [wrun_append, wrun_snoc]
  obtain ⟨_, hs2⟩ := supInv_foldl mid id v _ hi1 hs1
  rw [← hrun] at hs2
  rw [wrun_snoc]
  generalize wrun (pre ++ [.queue (.addEvidence id v h)] ++ mid) = w2 at hs2 ⊢
  cases hg : getItem w2.q.queue id with
  | none => exact ⟨[], by rw [wstep_prune_none hg]; rfl, by simp⟩
  | some it =>
    obtain ⟨hm, hid⟩ := getItem_some hg
    exact ⟨victims w2.q it, by rw [wstep_prune_some hg], victims_spare_suppliers _ it v (hs2.2 it hm hid)⟩

/-- **wstep_prune_jailed.** A prune adds exactly `pruneVictims` to the jailed set (nobody when the
message is not in the queue). -/
theorem wstep_prune_jailed (w : World) (id : Nat) :
    (wstep w (.prune id)).br.jailed = pruneVictims w id ++ w.br.jailed := by
  unfold pruneVictims
  cases hg : getItem w.q.queue id with
  | none => rw [wstep_prune_none hg]; rfl
  | some it => rw [wstep_prune_some hg]

/-- **pruneLog_append.** The prune log of a history is the log of a prefix followed by the log of the
rest, run from the state the prefix leads to. -/
theorem pruneLog_append (a b : List WOp) :
    ∀ w, pruneLog w (a ++ b) = pruneLog w a ++ pruneLog (a.foldl wstep w) b := by
  induction a with
  | nil => intro w; rfl
  | cons op rest ih =>
    intro w
    cases op <;> simp only [List.cons_append, pruneLog, List.foldl_cons, ih]

/-- **pruneLog_snoc_prune.** What the driver prints last for a history that ends in `prune id`: the
victims of that prune in the world state the history leads to. -/
theorem pruneLog_snoc_prune (ops : List WOp) (id : Nat) :
    pruneLog World.init (ops ++ [.prune id]) = pruneLog World.init ops ++ [pruneVictims (wrun ops) id] := by
  rw [pruneLog_append]; rfl

/-- **evidence_on_record_for_life** (mechanism of the third clause).  Once `addEvidence id v h` was
accepted (the message was in the queue), `v` stays among the suppliers on record of every stored copy of
message `id` through ANY continuation of the world history: a delivery report that follows an error
report (`setPublic` after `setError`), further reports, gas estimates, the end-block election (which
clears the signatures, never the evidence), re-submissions by `v` or by others, snapshot changes, other
messages, bridge traffic.  Nothing but the removal of the message takes the record away. -/
theorem evidence_on_record_for_life (pre mid : List WOp) (id v h : Nat)
    (hq : (getItem (wrun pre).q.queue id).isSome) :
    ∀ it ∈ (wrun (pre ++ [.queue (.addEvidence id v h)] ++ mid)).q.queue, it.id = id →
      v ∈ it.evidence.map (·.1) := by
  have hi0 := (winv_wrun pre).1
  have hs1 : SupInv id v (wstep (wrun pre) (.queue (.addEvidence id v h))).q := addEv_supInv _ id v h hi0 hq
  have hi1 := (wstep_shape (wrun pre) (.queue (.addEvidence id v h)) hi0).qinv hi0
  have hrun : wrun (pre ++ [.queue (.addEvidence id v h)] ++ mid) =
      mid.foldl wstep (wstep (wrun pre) (.queue (.addEvidence id v h))) := by
    rw [wrun_append, wrun_snoc]
  obtain ⟨_, hs2⟩ := supInv_foldl mid id v _ hi1 hs1
  rw [← hrun] at hs2
  exact hs2.2

/-- **supplier_not_a_victim** (third clause, as the driver's `prune hist` op decides it).  Validator `v`
supplies evidence for message `id` while it is in the queue; after ANY further message life `mid`, `v`
is not among the victims of a prune of `id` — the last entry of the prune log of
`pre ++ [addEvidence id v h] ++ mid ++ [prune id]` (`pruneLog_snoc_prune`). -/
theorem supplier_not_a_victim (pre mid : List WOp) (id v h : Nat)
    (hq : (getItem (wrun pre).q.queue id).isSome) :
    v ∉ pruneVictims (wrun (pre ++ [.queue (.addEvidence id v h)] ++ mid)) id := by
  have hrec := evidence_on_record_for_life pre mid id v h hq
  generalize wrun (pre ++ [.queue (.addEvidence id v h)] ++ mid) = w2 at hrec ⊢
  unfold pruneVictims
  cases hg : getItem w2.q.queue id with
  | none => simp
  | some it =>
    obtain ⟨hm, hid⟩ := getItem_some hg
    exact victims_spare_suppliers _ it v (hrec it hm hid)

/-- **world_jailed_cannot_register.** One jailed set: a validator jailed by a prune (or by evidence) can
no longer register a remote key — the world does not change. -/
theorem world_jailed_cannot_register (w : World) (v key : Nat) (h : v ∈ w.br.jailed) :
    wstep w (.register v key) = w := by
  show ({ w with br := (registerKey w.br v key).1 } : World) = w
  rw [Paloma.Bridge.jailed_cannot_register w.br v key h]

/-! ### non-vacuity, through `wrun` from the initial world -/

def snap555 : Snap := { vals := [⟨1, 5, []⟩, ⟨2, 5, []⟩, ⟨3, 5, []⟩], total := 15 }
def snapLow : Snap := { vals := [⟨1, 1, []⟩, ⟨2, 19, []⟩], total := 20 }

/-- two messages, a stored snapshot, validator 1 supplies evidence for message 1 (twice) -/
def demoQ : List WOp :=
  [ .queue (.put .slc 7 1 1 4 false), .queue (.put .slc 8 1 2 4 false),
    .queue (.setEnv { snapshot := some snap555 }),
    .queue (.addEvidence 1 1 77), .queue (.addEvidence 1 1 78) ]

-- (i) message 1 gets an error report and is pruned: exactly the non-suppliers of the snapshot are
-- jailed, validator 1 is spared; message 2 stays; the message held ONE proof of validator 1
example : (wrun demoQ).q.queue.map (fun it => (it.id, it.evidence)) = [(1, [(1, 78)]), (2, [])] ∧
    (wrun (demoQ ++ [.queue (.setError 1), .prune 1])).br.jailed = [2, 3] ∧
    (wrun (demoQ ++ [.queue (.setError 1), .prune 1])).q.queue.map (·.id) = [2] := by decide
-- (ii) the same message without any report (undelivered): nobody is jailed, the message is removed
example : (wrun (demoQ ++ [.prune 1])).br.jailed = [] ∧
    (wrun (demoQ ++ [.prune 1])).q.queue.map (·.id) = [2] := by decide
-- (iii) below the 10 % floor (validator 1 holds 1 of 20 shares under the snapshot current at prune
-- time): nobody is jailed although the message was reported and contested
example : (wrun (demoQ ++ [.queue (.setEnv { snapshot := some snapLow }), .queue (.setPublic 1), .prune 1])).br.jailed = [] := by
  decide
-- no stored snapshot / unknown message: nothing happens
example : (wrun [.queue (.put .slc 7 1 1 4 false), .queue (.addEvidence 1 1 77), .queue (.setError 1), .prune 1]).br.jailed = [] ∧
    (wrun (demoQ ++ [.prune 9])).q.queue.map (·.id) = [1, 2] := by decide

def snap345 : Snap := { vals := [⟨3, 5, []⟩, ⟨4, 5, []⟩, ⟨5, 5, []⟩], total := 15 }

/-- (iv) both mechanisms on one jailed set: a bridge history (fund, send, build, end-block electing an
estimate) interleaved with queue traffic and a prune that jails validators 4 and 5 -/
def demoW : List WOp :=
  [ .register 3 33, .register 4 44,
    .bridge (.fund 1 1 100), .queue (.put .slc 7 1 3 4 false),
    .bridge (.send Paloma.Bridge.Fault.none 1 1 10 5),
    .queue (.setEnv { snapshot := some snap345 }),
    .bridge (.build Paloma.Bridge.Fault.none 1 1000),
    .queue (.addEvidence 1 3 77), .queue (.setPublic 1),
    .bridge (.endBlock Paloma.Bridge.Fault.none 7 1001 [1] [(1, 1, 21000)]),
    .prune 1 ]

example : (wrun demoW).br.jailed = [4, 5] ∧
    (wrun demoW).br.archive = [(1, 1, 21000, 0), (1, 1, 0, 0)] ∧
    ((wrun demoW).br.batches.map Paloma.Bridge.Batch.ckpt) = [(1, 1, 21000, 0)] ∧
    -- replayed genuine confirmations (re-issued and build-time checkpoint) by key 33 of validator 3: refused
    (wrun (demoW ++ [.evidence (1, 1, 21000, 0) 33, .evidence (1, 1, 0, 0) 33])).br.jailed = [4, 5] ∧
    -- a forged variant jails the holder of the key — into the same set
    (wrun (demoW ++ [.evidence (1, 1, 21000, 1) 33])).br.jailed = [3, 4, 5] ∧
    -- validator 4, jailed by the prune, can no longer register a key; validator 3 still can
    (wrun (demoW ++ [.register 4 45, .register 3 35])).br.keys = [(3, 35), (4, 44)] ∧
    -- evidence against the key of the prune-jailed validator 4 changes nothing (already jailed)
    (wrun (demoW ++ [.evidence (1, 1, 21000, 1) 44])).br.jailed = [4, 5] := by decide

def snap5x5 : Snap := { vals := [⟨1, 5, []⟩, ⟨2, 5, []⟩, ⟨3, 5, []⟩, ⟨4, 5, []⟩, ⟨5, 5, []⟩], total := 25 }

/-- (v) a whole message life: the relayer reports an ERROR, validators 1 and 2 attest to it, a delivery
report follows after all (`Queue.SetPublicAccessData` only refuses when one exists already), estimates
arrive and the end-block elects one, validator 3 attests to the delivery; the message is pruned, then
pruned again; a bystander message without report is pruned in between -/
def demoLife : List WOp :=
  [ .queue (.setEnv { snapshot := some snap5x5 }),
    .queue (.put .other 7 1 1 4 true), .queue (.put .slc 8 1 2 4 false),
    .queue (.setError 1), .queue (.addEvidence 1 1 100), .queue (.addEvidence 1 2 100),
    .queue (.setPublic 1),
    .queue (.addEstimate 1 3 21000), .queue (.addEstimate 1 4 21000), .queue (.addEstimate 1 5 21000), .queue (.addEstimate 1 1 21000),
    .queue .endBlock,
    .queue (.addEvidence 1 3 200), .queue (.addEvidence 2 4 300),
    .prune 2, .prune 1, .prune 1 ]

-- the attesters of the error report (1, 2) and of the delivery report (3) are spared, the two
-- validators that never attested are jailed; the bystander and the second prune jail nobody
example : pruneLog World.init demoLife = [[], [4, 5], []] ∧ (wrun demoLife).br.jailed = [4, 5] := by decide
example : (wrun (demoLife.take 13)).q.queue.map (fun it => (it.id, it.evidence)) = [(1, [(1, 100), (2, 100), (3, 200)]), (2, [])] ∧
    (wrun (demoLife.take 13)).q.queue.map (fun it => (it.pub, it.err)) = [(true, true), (false, false)] ∧
    (wrun (demoLife.take 13)).q.queue.map (·.elected) = [21000, 0] := by decide

end Paloma.C13

/-! ## Part C: what the chain PUBLISHES for signing, across deployments (compass upgrades)

`Dep` (Model/Bridge.lean) puts the remote deployment's id into the signing bytes.  Histories `OpD`: every part-A
operation (`Op13`: bridge ops, id-blind evidence, key registration, external jailing), a compass upgrade to any id at
any moment, a batch confirmation, and evidence as the handler really evaluates it (`evidenceD`: the digest is re-derived
from the submitted batch with the id in force NOW).  What the chain publishes for signing is `Dep.published`: the STORED
bytes of the open batches (what `LastPendingBatchRequestByAddr`, `BatchRequestByNonce`, … hand out). -/
namespace Paloma.Bridge
open List

inductive OpD where
  | base (o : Op13)
  | upgrade (d : Nat)
  | evidence (c : Ckpt) (signed : DCkpt) (key : Nat)
  | confirm (v tok nonce : Nat)

structure DW where
  br : St
  dep : Dep

def applyD (w : DW) : OpD → DW
  | .base o => ⟨apply13 w.br o, w.dep.sync (apply13 w.br o).batches⟩
  | .upgrade d => ⟨w.br, { w.dep with cur := d }⟩
  | .evidence c signed key => ⟨(evidenceD w.br w.dep c signed key).1, w.dep⟩
  | .confirm v tok nonce => ⟨w.br, (w.dep.confirm w.br.batches v tok nonce).1⟩

def runD (ops : List OpD) : DW := ops.foldl applyD ⟨St.init, {}⟩

/-- every stored (= published) digest is archived -/
def StoredArch (d : Dep) : Prop := ∀ p ∈ d.stored, (p.2, p.1.ckpt) ∈ d.arch

/-- helper: a tag found for a batch belongs to a stored entry of that batch -/
theorem tagOf_some_mem {d : Dep} {b : Batch} {t : Nat} (h : d.tagOf b = some t) : (b, t) ∈ d.stored := by
  unfold Dep.tagOf at h
  cases hf : d.stored.find? (fun p => p.1 == b) with
  | none => simp [hf] at h
  | some p =>
    simp [hf] at h
    have hm := List.mem_of_find?_eq_some hf
    have hp := List.find?_some hf
    have : p.1 = b := by simpa using hp
    have hp' : p = (b, t) := by cases p; simp_all
    rw [← hp']; exact hm

/-- helper: `Dep.sync` keeps "stored ⊆ archive" -/
theorem sync_storedArch (d : Dep) (bs : List Batch) (h : StoredArch d) : StoredArch (d.sync bs) := by
  intro p hp
  simp only [Dep.sync, List.mem_map] at hp
  obtain ⟨b, hb, rfl⟩ := hp
  simp only [Dep.sync, List.mem_append, List.mem_map, List.mem_filter]
  cases ht : d.tagOf b with
  | none => left; exact ⟨b, ⟨hb, by simp [ht]⟩, by simp⟩
  | some t => right; simpa using h (b, t) (tagOf_some_mem ht)

/-- helper: `Dep.sync` only adds to the archive -/
theorem sync_arch_sub (d : Dep) (bs : List Batch) (c : DCkpt) (h : c ∈ d.arch) : c ∈ (d.sync bs).arch := by
  simp only [Dep.sync, List.mem_append]; right; exact h

/-- helper: a confirmation touches neither the stored bytes nor the archive -/
theorem confirm_frame (d : Dep) (bs : List Batch) (v tok nonce : Nat) :
    (d.confirm bs v tok nonce).1.stored = d.stored ∧ (d.confirm bs v tok nonce).1.arch = d.arch := by
  unfold Dep.confirm
  split
  · exact ⟨rfl, rfl⟩
  · split
    · exact ⟨rfl, rfl⟩
    · split <;> exact ⟨rfl, rfl⟩

/-- helper: one step keeps "stored ⊆ archive" -/
theorem applyD_storedArch (w : DW) (op : OpD) (h : StoredArch w.dep) : StoredArch (applyD w op).dep := by
  cases op with
  | base o => exact sync_storedArch _ _ h
  | upgrade d => exact h
  | evidence c s k => exact h
  | confirm v t n =>
    intro p hp
    have hf := confirm_frame w.dep w.br.batches v t n
    simp only [applyD] at hp ⊢
    rw [hf.1] at hp; rw [hf.2]; exact h p hp

/-- helper: one step only adds to the archive -/
theorem applyD_arch_sub (w : DW) (op : OpD) (c : DCkpt) (h : c ∈ w.dep.arch) : c ∈ (applyD w op).dep.arch := by
  cases op with
  | base o => exact sync_arch_sub _ _ c h
  | upgrade d => exact h
  | evidence c s k => exact h
  | confirm v t n =>
    have hf := confirm_frame w.dep w.br.batches v t n
    simp only [applyD]; rw [hf.2]; exact h

theorem foldlD_storedArch (ops : List OpD) : ∀ w, StoredArch w.dep → StoredArch (ops.foldl applyD w).dep := by
  induction ops with
  | nil => intro w h; exact h
  | cons op rest ih => intro w h; exact ih _ (applyD_storedArch w op h)

theorem foldlD_arch_sub (ops : List OpD) (c : DCkpt) : ∀ w, c ∈ w.dep.arch → c ∈ (ops.foldl applyD w).dep.arch := by
  induction ops with
  | nil => intro w h; exact h
  | cons op rest ih => intro w h; exact ih _ (applyD_arch_sub w op c h)

theorem runD_append (a b : List OpD) : runD (a ++ b) = b.foldl applyD (runD a) := by
  simp [runD, List.foldl_append]

/-- **published_bytes_archived.** In every state reachable by bridge operations, evidence, key changes, jailings,
confirmations and compass upgrades in any order, every digest the chain publishes for signing (the stored bytes of an
open batch, with the deployment id they were computed with — not necessarily the current one) is in the archive of
issued checkpoints. -/
theorem published_bytes_archived (ops : List OpD) : ∀ c ∈ (runD ops).dep.published, c ∈ (runD ops).dep.arch := by
  intro c hc
  have h := foldlD_storedArch ops ⟨St.init, {}⟩ (by intro p hp; simp at hp)
  simp only [Dep.published, List.mem_map] at hc
  obtain ⟨p, hp, rfl⟩ := hc
  exact h p hp

/-- **published_archived_forever.** A digest that was published at some moment stays archived whatever happens later —
upgrades of the deployment, re-estimation, execution or cancellation of the batch included. -/
theorem published_archived_forever (before after : List OpD) (c : DCkpt) (hc : c ∈ (runD before).dep.published) :
    c ∈ (runD (before ++ after)).dep.arch := by
  rw [runD_append]
  exact foldlD_arch_sub after c _ (published_bytes_archived before c hc)

/-- **published_signature_never_jails.** The property's clause: take any digest `pub` the chain published for signing
at some moment, a signature over it by ANY key, and any batch `c` submitted with it as bad-signature evidence at any
later time (after any number of compass upgrades): the evidence is refused and nobody is jailed.  Either the handler's
re-derived digest `(cur, c)` is not what was signed (the signature recovers to nobody), or it is — and then it is
archived. -/
theorem published_signature_never_jails (before after : List OpD) (pub : DCkpt)
    (hp : pub ∈ (runD before).dep.published) (c : Ckpt) (key : Nat) :
    evidenceD (runD (before ++ after)).br (runD (before ++ after)).dep c pub key
      = ((runD (before ++ after)).br, .rejected) := by
  have ha := published_archived_forever before after pub hp
  unfold evidenceD
  by_cases h1 : (runD (before ++ after)).dep.arch.contains ((runD (before ++ after)).dep.cur, c) = true
  · rw [if_pos h1]
  · rw [if_neg h1]
    by_cases h2 : pub = ((runD (before ++ after)).dep.cur, c)
    · rw [h2] at ha
      exact absurd (List.contains_iff_mem.mpr ha) h1
    · rw [if_pos (by simpa using h2)]

/-- **published_are_the_open_batches.** What is published is exactly one digest per open batch of the bridge state. -/
theorem published_are_the_open_batches (ops : List OpD) (op : Op13) :
    (runD (ops ++ [.base op])).dep.stored.map (·.1) = (runD (ops ++ [.base op])).br.batches := by
  rw [runD_append]
  simp [applyD, Dep.sync, List.map_map, Function.comp_def]

/-- **pending_request_hands_out_stored_bytes.** `LastPendingBatchRequestByAddr` hands out an open batch with its stored
digest (never one re-derived with the current id). -/
theorem pending_request_hands_out_stored_bytes (d : Dep) (bs : List Batch) (v : Nat) (p : Batch × Nat)
    (h : d.pendingFor bs v = some p) (hs : (d.tagOf p.1).isSome) : p ∈ d.stored := by
  unfold Dep.pendingFor at h
  split at h
  · simp at h
  · rename_i b _
    simp at h
    subst h
    cases ht : d.tagOf b with
    | none => simp [ht] at hs
    | some t => simpa [ht] using tagOf_some_mem ht

/-- a batch of token 1 exists with one transfer -/
def demoD : List OpD :=
  [ .base (.register 1 11), .base (.bridge (.fund 1 1 100)), .base (.bridge (.send Fault.none 1 1 10 1000)),
    .base (.bridge (.build Fault.none 1 5000)), .upgrade 2 ]

-- non-vacuity: after the upgrade the chain still publishes the digest over deployment 1, archived; the digest a
-- validator would get by re-deriving with the current id (2) was never published, is not archived, and a signature
-- over it jails its signer - so handing out re-derived bytes would break the property, handing out stored bytes does not
example : (runD demoD).dep.published = [(1, (1, 1, 0, 0))] ∧ (runD demoD).dep.cur = 2 ∧
    (runD demoD).dep.arch = [(1, (1, 1, 0, 0))] ∧
    (evidenceD (runD demoD).br (runD demoD).dep (1, 1, 0, 0) (1, (1, 1, 0, 0)) 11).2 = .rejected ∧
    (evidenceD (runD demoD).br (runD demoD).dep (1, 1, 0, 0) (1, (1, 1, 0, 0)) 11).1.jailed = [] ∧
    (evidenceD (runD demoD).br (runD demoD).dep (1, 1, 0, 0) (2, (1, 1, 0, 0)) 11).1.jailed = [1] ∧
    ((Dep.pendingFor (runD demoD).dep (runD demoD).br.batches 1).map (fun p => (p.1.ckpt, p.2))) = some ((1, 1, 0, 0), 1) ∧
    ((runD demoD).dep.confirm (runD demoD).br.batches 1 1 1).2 = .rejected ∧
    ((runD (demoD.take 4)).dep.confirm (runD (demoD.take 4)).br.batches 1 1 1).2 = .ok := by decide

end Paloma.Bridge
