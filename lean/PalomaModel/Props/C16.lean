/-
C16 — token factory.
"For every token created through the token factory, only its current admin can mint it, burn it,
change its metadata or hand the admin role to someone else, minting and burning only ever touch the
admin's own balance, and the token's total supply always equals the sum of successful mints minus
the sum of successful burns.  A creator can only create denominations inside its own
factory/<creator>/ namespace, an existing denomination can never be created again, and tokens that
were not created by the factory can never be minted or burned through it."

Model: `Model/TokenFactory.lean` (`step`, `run`).  All theorems quantify over every state / every
operation / every history (lists of `Op`, including the wasm-binding entry points, bank sends and
fee grants); nothing is bounded.

History-level layer (audit 1): `sumMint` / `sumBurn` / `createdIn` are folds over the op list that look at
results only; `ghosts_are_history_sums` ties the ghost fields `minted` / `burned` / `created` to them and
`supply_eq_mints_minus_burns` is stated on them.  Clauses that are FALSE at full strength are proved false
by reachable witnesses (`supply_clause_needs_empty_start`, `fee_grantee_acts_for_admin`,
`grantee_creates_in_granters_namespace`, `wasm_mint_credits_third_party`,
`mint_burn_touch_only_admin_unrestricted_false`) next to the strongest true statement.

Audit 2: signer provenance is stated for EVERY tokenfactory transaction, create included
(`tx_signer_provenance_history`, `creator_acts_history`, `only_creator_signs_create_without_grants`,
`create_charges_creator`); the start state `St.genesis … gr` has an ARBITRARY table of pre-existing fee
allowances (the signer clauses carry the disjunct `gr c s`); "never minted or burned" is stated on the
op list (`non_factory_never_minted_or_burned`).

Representation of denominations: a `Denom` is the list of the `/`-separated parts of the string, a part
being the bech32 text of a table address (`Part.addr`) or any other text.  The map to strings is
injective on VALID denominations (`valid_denom_parts_have_no_slash`) as long as no `Part.txt` spells
the bech32 text of an address; `x ≠ d` in the theorems means "different list value" and is to be read
under that proviso.
-/
import PalomaModel.Model.TokenFactory

namespace Paloma.TokenFactory
open List

/-! ## helper lemmas -/
section Lemmas

@[simp] theorem updD_self {β : Type} (f : Denom → β) (k : Denom) (v : β) : updD f k v k = v := by
  simp [updD]

theorem updD_ne {β : Type} (f : Denom → β) {k x : Denom} (v : β) (h : x ≠ k) : updD f k v x = f x := by
  simp [updD, h]

/-! ### result states of the successful handlers -/

def createSt (st : St) (c : Addr) (d : Denom) : St :=
  { st.move c poolAcc feeDenom st.fee with
      dmeta := updD st.dmeta d (some 0), admin := updD st.admin d (some c), created := d :: st.created }

def mintSt (st : St) (c : Addr) (d : Denom) (n : Nat) : St :=
  { (st.mintCoins moduleAcc d n).move moduleAcc c d n with minted := updD st.minted d (st.minted d + n) }

def burnSt (st : St) (c : Addr) (d : Denom) (n : Nat) : St :=
  { (st.move c moduleAcc d n).burnCoins moduleAcc d n with burned := updD st.burned d (st.burned d + n) }

def adminSt (st : St) (d : Denom) (v : Option Addr) : St := { st with admin := updD st.admin d v }

def metaSt (st : St) (d : Denom) (tag : Nat) : St := { st with dmeta := updD st.dmeta d (some tag) }

theorem normSub_ne_nil (sub : Denom) : ∃ p ps, normSub sub = p :: ps := by
  unfold normSub
  cases sub with
  | nil => exact ⟨.txt "", [], by simp⟩
  | cons x xs => exact ⟨x, xs, by simp⟩

/-- a valid `factory/c/sub` deconstructs into exactly `c` and `sub` -/
theorem deconstruct_tokenDenom (c : Addr) (sub : Denom) (hv : validDenom (tokenDenom c sub) = true) :
    deconstruct (tokenDenom c sub) = some (c, normSub sub) := by
  obtain ⟨p, ps, hp⟩ := normSub_ne_nil sub
  unfold deconstruct
  simp only [hv, Bool.not_true, Bool.false_eq_true, ↓reduceIte]
  simp [tokenDenom, hp]

theorem getTokenDenom_ok {c : Addr} {sub d : Denom} (h : getTokenDenom c sub = .ok d) :
    d = tokenDenom c sub ∧ denomLen (normSub sub) ≤ MaxSubdenomLength ∧ validDenom (tokenDenom c sub) = true := by
  unfold getTokenDenom at h
  split at h
  · simp at h
  · split at h
    · simp at h
    · rename_i h1 h2
      simp only [Except.ok.injEq] at h
      exact ⟨h.symm, by omega, by simpa using h2⟩

theorem hCreate_ok {st st' : St} {c : Addr} {sub : Denom} (h : hCreate st c sub = (st', .ok)) :
    st.supply (normSub sub) = 0 ∧ validDenom (tokenDenom c sub) = true ∧
    denomLen (normSub sub) ≤ MaxSubdenomLength ∧
    st.dmeta (tokenDenom c sub) = none ∧ st.fee ≤ st.bal c feeDenom ∧
    st' = createSt st c (tokenDenom c sub) := by
  unfold hCreate at h
  split at h
  · simp at h
  · rename_i h0
    split at h
    · simp at h
    · rename_i d hd
      obtain ⟨rfl, hl, hv⟩ := getTokenDenom_ok hd
      split at h
      · simp at h
      · rename_i h1
        split at h
        · simp at h
        · rename_i h2
          simp only [Prod.mk.injEq, and_true] at h
          refine ⟨by omega, hv, hl, by simpa using h1, by omega, ?_⟩
          rw [← h]; rfl

theorem hCreate_rej {st st' : St} {c : Addr} {sub : Denom} {r : Res}
    (h : hCreate st c sub = (st', r)) (hr : r ≠ .ok) : st' = st := by
  unfold hCreate at h
  split at h
  · simp at h; exact h.1.symm
  · split at h
    · simp at h; exact h.1.symm
    · split at h
      · simp at h; exact h.1.symm
      · split at h
        · simp at h; exact h.1.symm
        · simp at h; exact absurd h.2.symm hr

theorem hMint_ok {st st' : St} {c : Addr} {d : Denom} {n : Nat} (h : hMint st c d n = (st', .ok)) :
    (st.dmeta d).isSome = true ∧ st.admin d = some c ∧ (deconstruct d).isSome = true ∧
    st.supply d + n < maxInt ∧ blocked c = false ∧ st' = mintSt st c d n := by
  unfold hMint at h
  split at h
  · simp at h
  · rename_i h1
    split at h
    · simp at h
    · rename_i h2
      split at h
      · simp at h
      · rename_i h3
        split at h
        · simp at h
        · rename_i h4
          split at h
          · simp at h
          · rename_i h5
            simp only [Prod.mk.injEq, and_true] at h
            refine ⟨by simpa [Option.isSome_iff_ne_none] using h1, by simpa using h2,
              by simpa [Option.isSome_iff_ne_none] using h3, by omega, by simpa using h5, ?_⟩
            rw [← h]; rfl

theorem hMint_rej {st st' : St} {c : Addr} {d : Denom} {n : Nat} {r : Res}
    (h : hMint st c d n = (st', r)) (hr : r ≠ .ok) : st' = st := by
  unfold hMint at h
  repeat' split at h
  all_goals first
    | (simp only [Prod.mk.injEq] at h; exact h.1.symm)
    | (simp only [Prod.mk.injEq] at h; exact absurd h.2.symm hr)

theorem hBurn_ok {st st' : St} {c : Addr} {d : Denom} {n : Nat} (h : hBurn st c d n = (st', .ok)) :
    st.admin d = some c ∧ (deconstruct d).isSome = true ∧ n ≤ st.bal c d ∧ n ≤ st.supply d ∧
    st' = burnSt st c d n := by
  unfold hBurn at h
  split at h
  · simp at h
  · rename_i h1
    split at h
    · simp at h
    · rename_i h2
      split at h
      · simp at h
      · rename_i h3
        split at h
        · simp at h
        · rename_i h4
          simp only [Prod.mk.injEq, and_true] at h
          refine ⟨by simpa using h1, by simpa [Option.isSome_iff_ne_none] using h2, by omega, by omega, ?_⟩
          rw [← h]; rfl

theorem hBurn_rej {st st' : St} {c : Addr} {d : Denom} {n : Nat} {r : Res}
    (h : hBurn st c d n = (st', r)) (hr : r ≠ .ok) : st' = st := by
  unfold hBurn at h
  repeat' split at h
  all_goals first
    | (simp only [Prod.mk.injEq] at h; exact h.1.symm)
    | (simp only [Prod.mk.injEq] at h; exact absurd h.2.symm hr)

theorem hChAdmin_ok {st st' : St} {c : Addr} {d : Denom} {new : AddrArg} (h : hChAdmin st c d new = (st', .ok)) :
    st.admin d = some c ∧ new ≠ .bad ∧ st' = adminSt st d new.parse := by
  unfold hChAdmin at h
  split at h
  · simp at h
  · rename_i h1
    have h1' : st.admin d = some c := by simpa using h1
    cases new with
    | bad => simp at h
    | empty => simp only [Prod.mk.injEq, and_true] at h; exact ⟨h1', by simp, by rw [← h]; rfl⟩
    | addr a => simp only [Prod.mk.injEq, and_true] at h; exact ⟨h1', by simp, by rw [← h]; rfl⟩

theorem hChAdmin_rej {st st' : St} {c : Addr} {d : Denom} {new : AddrArg} {r : Res}
    (h : hChAdmin st c d new = (st', r)) (hr : r ≠ .ok) : st' = st := by
  unfold hChAdmin at h
  split at h
  · simp only [Prod.mk.injEq] at h; exact h.1.symm
  · cases new with
    | bad => simp only [Prod.mk.injEq] at h; exact h.1.symm
    | empty => simp only [Prod.mk.injEq] at h; exact absurd h.2.symm hr
    | addr a => simp only [Prod.mk.injEq] at h; exact absurd h.2.symm hr

theorem hSetMeta_ok {st st' : St} {c : Addr} {d : Denom} {mdOk : Bool} {tag : Nat}
    (h : hSetMeta st c d mdOk tag = (st', .ok)) :
    st.admin d = some c ∧ mdOk = true ∧ validDenom d = true ∧ st' = metaSt st d tag := by
  unfold hSetMeta at h
  split at h
  · simp at h
  · rename_i h1
    split at h
    · simp at h
    · rename_i h2
      simp only [Prod.mk.injEq, and_true] at h
      simp only [Bool.not_eq_true', Bool.and_eq_false_iff, not_or, Bool.not_eq_false] at h1
      exact ⟨by simpa using h2, h1.1, h1.2, by rw [← h]; rfl⟩

theorem hSetMeta_rej {st st' : St} {c : Addr} {d : Denom} {mdOk : Bool} {tag : Nat} {r : Res}
    (h : hSetMeta st c d mdOk tag = (st', r)) (hr : r ≠ .ok) : st' = st := by
  unfold hSetMeta at h
  repeat' split at h
  all_goals first
    | (simp only [Prod.mk.injEq] at h; exact h.1.symm)
    | (simp only [Prod.mk.injEq] at h; exact absurd h.2.symm hr)

/-- the base check of `PerformSetMetadata`: the key of the bank record is the checked denomination -/
theorem wSetMeta_key {d : Denom} {base : Option Denom} (h : (base.isSome && base ≠ some d) = false) :
    base.getD d = d := by
  cases base with
  | none => rfl
  | some b =>
    simp only [Option.isSome_some, Bool.true_and, ne_eq, Option.some.injEq, decide_not,
      Bool.not_eq_false', decide_eq_true_eq] at h
    simp [h]

theorem wSetMeta_ok' {st st' : St} {a : Addr} {d : Denom} {base : Option Denom} {body : Denom} {mdOk : Bool} {tag : Nat}
    (h : wSetMeta st a d base body mdOk tag = (st', .ok)) :
    st.admin d = some a ∧ mdOk = true ∧ validDenom d = true ∧ st' = metaSt st d tag ∧
      (base = none ∨ base = some d) ∧ body = d := by
  unfold wSetMeta at h
  split at h
  · simp at h
  · rename_i h1
    split at h
    · simp at h
    · rename_i h2
      have hk : base.getD d = d := wSetMeta_key (by simpa using h2)
      split at h
      · simp at h
      · rename_i h3
        simp only [Prod.mk.injEq, and_true] at h
        rw [hk] at h h3
        simp only [bankMetaOk, Bool.not_eq_true', Bool.and_eq_false_iff, not_or, Bool.not_eq_false,
          decide_eq_false_iff_not, Classical.not_not] at h3
        refine ⟨by simpa using h1, h3.1.1.1, h3.1.1.2, by rw [← h]; rfl, ?_, h3.2⟩
        cases base with
        | none => exact Or.inl rfl
        | some b => right; simp only [Option.getD_some] at hk; rw [hk]

theorem wSetMeta_ok {st st' : St} {a : Addr} {d : Denom} {base : Option Denom} {body : Denom} {mdOk : Bool} {tag : Nat}
    (h : wSetMeta st a d base body mdOk tag = (st', .ok)) :
    st.admin d = some a ∧ mdOk = true ∧ validDenom d = true ∧ st' = metaSt st d tag :=
  ⟨(wSetMeta_ok' h).1, (wSetMeta_ok' h).2.1, (wSetMeta_ok' h).2.2.1, (wSetMeta_ok' h).2.2.2.1⟩

theorem wSetMeta_rej {st st' : St} {a : Addr} {d : Denom} {base : Option Denom} {body : Denom} {mdOk : Bool} {tag : Nat} {r : Res}
    (h : wSetMeta st a d base body mdOk tag = (st', r)) (hr : r ≠ .ok) : st' = st := by
  unfold wSetMeta at h
  repeat' split at h
  all_goals first
    | (simp only [Prod.mk.injEq] at h; exact h.1.symm)
    | (simp only [Prod.mk.injEq] at h; exact absurd h.2.symm hr)

theorem bankSend_ok {st st' : St} {a b : Addr} {d : Denom} {n : Nat} (h : bankSend st a b d n = (st', .ok)) :
    n ≤ st.bal a d ∧ st' = st.move a b d n := by
  unfold bankSend at h
  split at h
  · simp at h
  · simp only [Prod.mk.injEq, and_true] at h
    exact ⟨by omega, h.symm⟩

theorem bankSend_rej {st st' : St} {a b : Addr} {d : Denom} {n : Nat} {r : Res}
    (h : bankSend st a b d n = (st', r)) (hr : r ≠ .ok) : st' = st := by
  unfold bankSend at h
  split at h
  · simp only [Prod.mk.injEq] at h; exact h.1.symm
  · simp only [Prod.mk.injEq] at h; exact absurd h.2.symm hr

/-! ### the transaction gate -/

theorem ante_none {st : St} {mode : Nat} {s c : Addr} (h : ante st mode s c = none) :
    s = c ∨ (mode ≠ 1 ∧ st.grant c s = true) := by
  unfold ante at h
  split at h
  · split at h
    · left; assumption
    · simp at h
  · split at h
    · left; assumption
    · split at h
      · right; exact ⟨by assumption, by assumption⟩
      · simp at h

theorem gate_cases {st st' : St} {basic : Option Rej} {mode : Nat} {s c : Addr} {k : St × Res} {r : Res}
    (h : gate st basic mode s c k = (st', r)) :
    (st' = st ∧ r ≠ .ok) ∨ (basic = none ∧ ante st mode s c = none ∧ k = (st', r)) := by
  unfold gate at h
  split at h
  · left; simp only [Prod.mk.injEq] at h; exact ⟨h.1.symm, by rw [← h.2]; simp⟩
  · split at h
    · left; simp only [Prod.mk.injEq] at h; exact ⟨h.1.symm, by rw [← h.2]; simp⟩
    · right; exact ⟨rfl, by assumption, h⟩

theorem basicCoin_none {d : Denom} {amt : Int} (h : basicCoin d amt = none) : validDenom d = true ∧ amt > 0 := by
  unfold basicCoin at h
  split at h
  · rename_i h1; simpa using h1
  · simp at h


/-! ### successful steps, operation by operation -/

theorem step_create_ok {st st' : St} {mode : Nat} {s c : Addr} {sub : Denom}
    (h : step st (.create mode s c sub) = (st', .ok)) :
    ante st mode s c = none ∧ hCreate st c sub = (st', .ok) := by
  rcases gate_cases h with ⟨_, hr⟩ | ⟨_, ha, hk⟩
  · exact absurd rfl hr
  · exact ⟨ha, hk⟩

theorem step_mint_ok {st st' : St} {mode : Nat} {s c : Addr} {d : Denom} {amt : Int}
    (h : step st (.mint mode s c d amt) = (st', .ok)) :
    ante st mode s c = none ∧ amt > 0 ∧ hMint st c d amt.toNat = (st', .ok) := by
  rcases gate_cases h with ⟨_, hr⟩ | ⟨hb, ha, hk⟩
  · exact absurd rfl hr
  · exact ⟨ha, (basicCoin_none hb).2, hk⟩

theorem step_burn_ok {st st' : St} {mode : Nat} {s c : Addr} {d : Denom} {amt : Int}
    (h : step st (.burn mode s c d amt) = (st', .ok)) :
    ante st mode s c = none ∧ amt > 0 ∧ hBurn st c d amt.toNat = (st', .ok) := by
  rcases gate_cases h with ⟨_, hr⟩ | ⟨hb, ha, hk⟩
  · exact absurd rfl hr
  · exact ⟨ha, (basicCoin_none hb).2, hk⟩

theorem step_chadmin_ok {st st' : St} {mode : Nat} {s c : Addr} {d : Denom} {new : AddrArg}
    (h : step st (.chadmin mode s c d new) = (st', .ok)) :
    ante st mode s c = none ∧ hChAdmin st c d new = (st', .ok) := by
  rcases gate_cases h with ⟨_, hr⟩ | ⟨_, ha, hk⟩
  · exact absurd rfl hr
  · exact ⟨ha, hk⟩

theorem step_setmeta_ok {st st' : St} {mode : Nat} {s c : Addr} {d : Denom} {mdOk : Bool} {tag : Nat}
    (h : step st (.setmeta mode s c d mdOk tag) = (st', .ok)) :
    ante st mode s c = none ∧ hSetMeta st c d mdOk tag = (st', .ok) := by
  rcases gate_cases h with ⟨_, hr⟩ | ⟨_, ha, hk⟩
  · exact absurd rfl hr
  · exact ⟨ha, hk⟩

theorem pair_eta {α β : Type} (p : α × β) {b : β} (h : p.2 = b) : p = (p.1, b) := by
  cases p; simp_all

theorem wCreate_ok {st st' : St} {a : Addr} {sub : Denom} {md : Option WMeta}
    (h : wCreate st a sub md = (st', .ok)) :
    ∃ s1, hCreate st a sub = (s1, .ok) ∧
      ((md = none ∧ st' = s1) ∨
       ∃ m, md = some m ∧ wSetMeta s1 a (tokenDenom a sub) m.base m.body m.ok m.tag = (st', .ok)) := by
  unfold wCreate at h
  split at h
  · simp at h
  · split at h
    · rename_i hne
      simp only [Prod.mk.injEq] at h
      exact absurd h.2 hne
    · rename_i hok
      have hok' : (hCreate st a sub).2 = .ok := by simpa using hok
      refine ⟨(hCreate st a sub).1, pair_eta _ hok', ?_⟩
      cases md with
      | none =>
        left
        simp only at h
        exact ⟨rfl, by rw [h]⟩
      | some m =>
        right
        refine ⟨m, rfl, ?_⟩
        simp only at h
        split at h
        · rename_i hne
          simp only [Prod.mk.injEq] at h
          exact absurd h.2 hne
        · exact h

theorem wCreate_rej {st st' : St} {a : Addr} {sub : Denom} {md : Option WMeta} {r : Res}
    (h : wCreate st a sub md = (st', r)) (hr : r ≠ .ok) : st' = st := by
  unfold wCreate at h
  split at h
  · simp only [Prod.mk.injEq] at h; exact h.1.symm
  · split at h
    · simp only [Prod.mk.injEq] at h; exact h.1.symm
    · rename_i hok
      have hok' : (hCreate st a sub).2 = .ok := by simpa using hok
      cases md with
      | none =>
        simp only at h
        rw [h] at hok'
        exact absurd hok' hr
      | some m =>
        simp only at h
        split at h
        · simp only [Prod.mk.injEq] at h; exact h.1.symm
        · rename_i hok2
          have hok2' : (wSetMeta (hCreate st a sub).1 a (tokenDenom a sub) m.base m.body m.ok m.tag).2 = .ok := by
            simpa using hok2
          rw [h] at hok2'
          exact absurd hok2' hr

theorem wMint_ok {st st' : St} {a : Addr} {d : Denom} {amt : Int} {to : AddrArg}
    (h : wMint st a d amt to = (st', .ok)) :
    ∃ rc s1, to = .addr rc ∧ amt > 0 ∧ hMint st a d amt.toNat = (s1, .ok) ∧
      bankSend s1 a rc d amt.toNat = (st', .ok) := by
  unfold wMint at h
  split at h
  · simp at h
  · rename_i rc hp
    have hto : to = .addr rc := by
      cases to <;> simp_all [AddrArg.parse]
    split at h
    · simp at h
    · rename_i hb
      split at h
      · rename_i hne
        simp only [Prod.mk.injEq] at h
        exact absurd h.2 hne
      · rename_i hok
        have hok' : (hMint st a d amt.toNat).2 = .ok := by simpa using hok
        split at h
        · rename_i hne
          simp only [Prod.mk.injEq] at h
          exact absurd h.2 hne
        · exact ⟨rc, (hMint st a d amt.toNat).1, hto, (basicCoin_none hb).2, pair_eta _ hok', h⟩

theorem wMint_rej {st st' : St} {a : Addr} {d : Denom} {amt : Int} {to : AddrArg} {r : Res}
    (h : wMint st a d amt to = (st', r)) (hr : r ≠ .ok) : st' = st := by
  unfold wMint at h
  split at h
  · simp only [Prod.mk.injEq] at h; exact h.1.symm
  · split at h
    · simp only [Prod.mk.injEq] at h; exact h.1.symm
    · split at h
      · simp only [Prod.mk.injEq] at h; exact h.1.symm
      · split at h
        · simp only [Prod.mk.injEq] at h; exact h.1.symm
        · rename_i hok2
          rw [h] at hok2
          exact absurd (by simpa using hok2) hr

theorem wBurn_ok {st st' : St} {a : Addr} {d : Denom} {amt : Int} {frm : AddrArg}
    (h : wBurn st a d amt frm = (st', .ok)) :
    (frm = .empty ∨ frm = .addr a) ∧ amt > 0 ∧ hBurn st a d amt.toNat = (st', .ok) := by
  unfold wBurn at h
  split at h
  · simp at h
  · rename_i hf
    split at h
    · simp at h
    · rename_i hb
      refine ⟨?_, (basicCoin_none hb).2, h⟩
      by_cases h1 : frm = .empty
      · left; exact h1
      · right
        by_cases h2 : frm = .addr a
        · exact h2
        · exact absurd ⟨h1, h2⟩ hf

theorem wBurn_rej {st st' : St} {a : Addr} {d : Denom} {amt : Int} {frm : AddrArg} {r : Res}
    (h : wBurn st a d amt frm = (st', r)) (hr : r ≠ .ok) : st' = st := by
  unfold wBurn at h
  split at h
  · simp only [Prod.mk.injEq] at h; exact h.1.symm
  · split at h
    · simp only [Prod.mk.injEq] at h; exact h.1.symm
    · exact hBurn_rej h hr

theorem wChAdmin_ok {st st' : St} {a : Addr} {d : Denom} {new : AddrArg}
    (h : wChAdmin st a d new = (st', .ok)) :
    ∃ n, new = .addr n ∧ hChAdmin st a d (.addr n) = (st', .ok) := by
  unfold wChAdmin at h
  split at h
  · simp at h
  · rename_i n hp
    have hn : new = .addr n := by
      cases new <;> simp_all [AddrArg.parse]
    split at h
    · simp at h
    · exact ⟨n, hn, h⟩

theorem wChAdmin_rej {st st' : St} {a : Addr} {d : Denom} {new : AddrArg} {r : Res}
    (h : wChAdmin st a d new = (st', r)) (hr : r ≠ .ok) : st' = st := by
  unfold wChAdmin at h
  split at h
  · simp only [Prod.mk.injEq] at h; exact h.1.symm
  · split at h
    · simp only [Prod.mk.injEq] at h; exact h.1.symm
    · exact hChAdmin_rej h hr

theorem txSend_ok {st st' : St} {a b : Addr} {d : Denom} {amt : Int} (h : txSend st a b d amt = (st', .ok)) :
    amt > 0 ∧ blocked b = false ∧ amt.toNat ≤ st.bal a d ∧ st' = st.move a b d amt.toNat := by
  unfold txSend at h
  split at h
  · simp at h
  · rename_i h1
    split at h
    · simp at h
    · rename_i h2
      have := bankSend_ok h
      simp only [Bool.not_eq_true', Bool.and_eq_false_iff, not_or, Bool.not_eq_false, decide_eq_true_eq] at h1
      exact ⟨h1.2, by simpa using h2, this.1, this.2⟩

theorem txSend_rej {st st' : St} {a b : Addr} {d : Denom} {amt : Int} {r : Res}
    (h : txSend st a b d amt = (st', r)) (hr : r ≠ .ok) : st' = st := by
  unfold txSend at h
  split at h
  · simp only [Prod.mk.injEq] at h; exact h.1.symm
  · split at h
    · simp only [Prod.mk.injEq] at h; exact h.1.symm
    · exact bankSend_rej h hr

theorem txGrant_cases {st st' : St} {c s : Addr} {r : Res} (h : txGrant st c s = (st', r)) :
    (st' = st ∧ r ≠ .ok) ∨ (r = .ok ∧ st' = { st with grant := updG st.grant c s true }) := by
  unfold txGrant at h
  repeat' split at h
  all_goals simp only [Prod.mk.injEq] at h
  · left; exact ⟨h.1.symm, by rw [← h.2]; simp⟩
  · left; exact ⟨h.1.symm, by rw [← h.2]; simp⟩
  · right; exact ⟨h.2.symm, h.1.symm⟩

theorem txRevoke_cases {st st' : St} {c s : Addr} {r : Res} (h : txRevoke st c s = (st', r)) :
    (st' = st ∧ r ≠ .ok) ∨ (r = .ok ∧ st' = { st with grant := updG st.grant c s false }) := by
  unfold txRevoke at h
  repeat' split at h
  all_goals simp only [Prod.mk.injEq] at h
  · left; exact ⟨h.1.symm, by rw [← h.2]; simp⟩
  · left; exact ⟨h.1.symm, by rw [← h.2]; simp⟩
  · right; exact ⟨h.2.symm, h.1.symm⟩

/-- every rejected (or panicking) operation leaves the state untouched -/
theorem step_rej {st st' : St} {op : Op} {r : Res} (h : step st op = (st', r)) (hr : r ≠ .ok) : st' = st := by
  cases op with
  | create mode s c sub =>
    rcases gate_cases h with ⟨h1, _⟩ | ⟨_, _, hk⟩
    · exact h1
    · exact hCreate_rej hk hr
  | mint mode s c d amt =>
    rcases gate_cases h with ⟨h1, _⟩ | ⟨_, _, hk⟩
    · exact h1
    · exact hMint_rej hk hr
  | burn mode s c d amt =>
    rcases gate_cases h with ⟨h1, _⟩ | ⟨_, _, hk⟩
    · exact h1
    · exact hBurn_rej hk hr
  | chadmin mode s c d new =>
    rcases gate_cases h with ⟨h1, _⟩ | ⟨_, _, hk⟩
    · exact h1
    · exact hChAdmin_rej hk hr
  | setmeta mode s c d mdOk tag =>
    rcases gate_cases h with ⟨h1, _⟩ | ⟨_, _, hk⟩
    · exact h1
    · exact hSetMeta_rej hk hr
  | wcreate a sub md => exact wCreate_rej h hr
  | wmint a d amt to => exact wMint_rej h hr
  | wburn a d amt frm => exact wBurn_rej h hr
  | wchadmin a d new => exact wChAdmin_rej h hr
  | wsetmeta a d base body mdOk tag => exact wSetMeta_rej h hr
  | send a b d amt => exact txSend_rej h hr
  | grant c s =>
    rcases txGrant_cases h with ⟨h1, _⟩ | ⟨h1, _⟩
    · exact h1
    · exact absurd h1 hr
  | revoke c s =>
    rcases txRevoke_cases h with ⟨h1, _⟩ | ⟨h1, _⟩
    · exact h1
    · exact absurd h1 hr
  | setfee n =>
    simp only [step, Prod.mk.injEq] at h
    exact absurd h.2.symm hr


/-! ### ledger effect of the successful handlers -/

theorem move_fields (st : St) (a b : Addr) (d : Denom) (n : Nat) :
    (st.move a b d n).supply = st.supply ∧ (st.move a b d n).admin = st.admin ∧
    (st.move a b d n).dmeta = st.dmeta ∧ (st.move a b d n).grant = st.grant ∧
    (st.move a b d n).fee = st.fee ∧ (st.move a b d n).minted = st.minted ∧
    (st.move a b d n).burned = st.burned ∧ (st.move a b d n).created = st.created :=
  ⟨rfl, rfl, rfl, rfl, rfl, rfl, rfl, rfl⟩

/-- a transfer of an affordable amount: sender down, recipient up, everybody else untouched -/
theorem move_bal (st : St) (a b : Addr) (d : Denom) (n : Nat) (hn : n ≤ st.bal a d) (x : Addr) (y : Denom) :
    (st.move a b d n).bal x y =
      if y = d then
        (if a = b then st.bal x y
         else if x = a then st.bal x y - n else if x = b then st.bal x y + n else st.bal x y)
      else st.bal x y := by
  simp only [St.move, updB]
  by_cases hy : y = d
  · subst hy
    by_cases hab : a = b
    · subst hab
      by_cases hx : x = a
      · subst hx; simp; omega
      · simp [hx]
    · by_cases hxa : x = a
      · subst hxa
        have : ¬ x = b := hab
        simp [this]
      · by_cases hxb : x = b
        · subst hxb
          simp [hxa, hab]
        · simp [hxa, hxb]
  · simp [hy]

/-- mint: only the admin's balance of that denomination moves (the module account is net zero) -/
theorem mintSt_bal (st : St) (c : Addr) (d : Denom) (n : Nat) (hc : c ≠ moduleAcc) (x : Addr) (y : Denom) :
    (mintSt st c d n).bal x y = if x = c ∧ y = d then st.bal x y + n else st.bal x y := by
  have hc' : ¬ moduleAcc = c := fun h => hc h.symm
  simp only [mintSt, St.move, St.mintCoins, updB]
  by_cases hy : y = d
  · subst hy
    by_cases hx : x = c
    · subst hx
      simp [hc]
    · by_cases hm : x = moduleAcc
      · subst hm
        simp [hc']
      · simp [hx, hm]
  · simp [hy]

/-- burn: only the admin's balance of that denomination moves (the module account is net zero) -/
theorem burnSt_bal (st : St) (c : Addr) (d : Denom) (n : Nat) (hc : c ≠ moduleAcc) (hn : n ≤ st.bal c d)
    (x : Addr) (y : Denom) :
    (burnSt st c d n).bal x y = if x = c ∧ y = d then st.bal x y - n else st.bal x y := by
  have hc' : ¬ moduleAcc = c := fun h => hc h.symm
  simp only [burnSt, St.move, St.burnCoins, updB]
  by_cases hy : y = d
  · subst hy
    by_cases hx : x = c
    · subst hx
      simp [hc]
    · by_cases hm : x = moduleAcc
      · subst hm
        simp [hc']
      · simp [hx, hm]
  · simp [hy]

theorem blocked_false_ne_module {c : Addr} (h : blocked c = false) : c ≠ moduleAcc := by
  intro hc
  subst hc
  simp [blocked, moduleAcc] at h

/-! ### the invariant of all histories -/

/-- `g` is the state the history started from (`St.genesis …`): arbitrary bank, empty factory. -/
structure Inv (g st : St) : Prop where
  ledger : ∀ d, st.supply d + st.burned d = g.supply d + st.minted d
  adminCreated : ∀ d a, st.admin d = some a → d ∈ st.created
  createdMeta : ∀ d, d ∈ st.created → (st.dmeta d).isSome = true
  createdFresh : ∀ d, d ∈ st.created → g.dmeta d = none
  createdNs : ∀ d, d ∈ st.created → ∃ c sub, d = tokenDenom c sub ∧ deconstruct d = some (c, normSub sub)
  nodup : st.created.Nodup
  metaMono : ∀ d, (g.dmeta d).isSome = true → (st.dmeta d).isSome = true
  ghost : ∀ d, d ∉ st.created → st.minted d = 0 ∧ st.burned d = 0

theorem Inv.genesis (bal : Addr → Denom → Nat) (supply : Denom → Nat) (dmeta : Denom → Option Nat) (fee : Nat) (gr : Addr → Addr → Bool) :
    Inv (St.genesis bal supply dmeta fee gr) (St.genesis bal supply dmeta fee gr) where
  ledger := by intro d; simp [St.genesis]
  adminCreated := by intro d a h; simp [St.genesis] at h
  createdMeta := by intro d h; simp [St.genesis] at h
  createdFresh := by intro d h; simp [St.genesis] at h
  createdNs := by intro d h; simp [St.genesis] at h
  nodup := by simp [St.genesis]
  metaMono := by intro d h; exact h
  ghost := by intro d _; simp [St.genesis]

theorem Inv.create {g st : St} (inv : Inv g st) (c : Addr) (sub : Denom)
    (hv : validDenom (tokenDenom c sub) = true) (hm : st.dmeta (tokenDenom c sub) = none) :
    Inv g (createSt st c (tokenDenom c sub)) := by
  have hnew : tokenDenom c sub ∉ st.created := by
    intro hmem
    have := inv.createdMeta _ hmem
    simp [hm] at this
  exact {
    ledger := inv.ledger
    adminCreated := by
      intro d a h
      by_cases hd : d = tokenDenom c sub
      · subst hd; simp [createSt]
      · have : st.admin d = some a := by simpa [createSt, updD, hd] using h
        exact List.mem_cons_of_mem _ (inv.adminCreated d a this)
    createdMeta := by
      intro d h
      by_cases hd : d = tokenDenom c sub
      · subst hd; simp [createSt]
      · have hmem : d ∈ st.created := by simpa [createSt, hd] using h
        simpa [createSt, updD, hd] using inv.createdMeta d hmem
    createdFresh := by
      intro d h
      by_cases hd : d = tokenDenom c sub
      · subst hd
        cases hg : g.dmeta (tokenDenom c sub) with
        | none => rfl
        | some v =>
          have := inv.metaMono (tokenDenom c sub) (by simp [hg])
          simp [hm] at this
      · have hmem : d ∈ st.created := by simpa [createSt, hd] using h
        exact inv.createdFresh d hmem
    createdNs := by
      intro d h
      by_cases hd : d = tokenDenom c sub
      · subst hd
        exact ⟨c, sub, rfl, deconstruct_tokenDenom c sub hv⟩
      · have hmem : d ∈ st.created := by simpa [createSt, hd] using h
        exact inv.createdNs d hmem
    nodup := by
      show (tokenDenom c sub :: st.created).Nodup
      exact List.nodup_cons.mpr ⟨hnew, inv.nodup⟩
    metaMono := by
      intro d h
      by_cases hd : d = tokenDenom c sub
      · subst hd; simp [createSt]
      · simpa [createSt, updD, hd] using inv.metaMono d h
    ghost := by
      intro d h
      have hmem : d ∉ st.created := by
        intro hmem
        exact h (List.mem_cons_of_mem _ hmem)
      exact inv.ghost d hmem }

theorem Inv.mint {g st : St} (inv : Inv g st) (c : Addr) (d : Denom) (n : Nat) (ha : st.admin d = some c) :
    Inv g (mintSt st c d n) := by
  have hmem : d ∈ st.created := inv.adminCreated d c ha
  exact {
    ledger := by
      intro x
      have := inv.ledger x
      by_cases hx : x = d
      · subst hx
        simp only [mintSt, St.move, St.mintCoins, updD_self]
        show st.supply x + n + st.burned x = g.supply x + (st.minted x + n)
        omega
      · simp only [mintSt, St.move, St.mintCoins]
        show updD st.supply d (st.supply d + n) x + st.burned x = g.supply x + updD st.minted d (st.minted d + n) x
        rw [updD_ne _ _ hx, updD_ne _ _ hx]
        exact this
    adminCreated := inv.adminCreated
    createdMeta := inv.createdMeta
    createdFresh := inv.createdFresh
    createdNs := inv.createdNs
    nodup := inv.nodup
    metaMono := inv.metaMono
    ghost := by
      intro x hx
      have hne : x ≠ d := by
        intro h; subst h; exact hx hmem
      have := inv.ghost x hx
      show updD st.minted d (st.minted d + n) x = 0 ∧ st.burned x = 0
      rw [updD_ne _ _ hne]
      exact this }

theorem Inv.burn {g st : St} (inv : Inv g st) (c : Addr) (d : Denom) (n : Nat) (ha : st.admin d = some c)
    (hn : n ≤ st.supply d) : Inv g (burnSt st c d n) := by
  have hmem : d ∈ st.created := inv.adminCreated d c ha
  exact {
    ledger := by
      intro x
      have := inv.ledger x
      by_cases hx : x = d
      · subst hx
        show updD st.supply x (st.supply x - n) x + updD st.burned x (st.burned x + n) x = g.supply x + st.minted x
        rw [updD_self, updD_self]
        omega
      · show updD st.supply d (st.supply d - n) x + updD st.burned d (st.burned d + n) x = g.supply x + st.minted x
        rw [updD_ne _ _ hx, updD_ne _ _ hx]
        exact this
    adminCreated := inv.adminCreated
    createdMeta := inv.createdMeta
    createdFresh := inv.createdFresh
    createdNs := inv.createdNs
    nodup := inv.nodup
    metaMono := inv.metaMono
    ghost := by
      intro x hx
      have hne : x ≠ d := by
        intro h; subst h; exact hx hmem
      have := inv.ghost x hx
      show st.minted x = 0 ∧ updD st.burned d (st.burned d + n) x = 0
      rw [updD_ne _ _ hne]
      exact this }

theorem Inv.admin {g st : St} (inv : Inv g st) (c : Addr) (d : Denom) (v : Option Addr) (ha : st.admin d = some c) :
    Inv g (adminSt st d v) := by
  have hmem : d ∈ st.created := inv.adminCreated d c ha
  exact {
    ledger := inv.ledger
    adminCreated := by
      intro x a h
      by_cases hx : x = d
      · subst hx; exact hmem
      · have : st.admin x = some a := by simpa [adminSt, updD, hx] using h
        exact inv.adminCreated x a this
    createdMeta := inv.createdMeta
    createdFresh := inv.createdFresh
    createdNs := inv.createdNs
    nodup := inv.nodup
    metaMono := inv.metaMono
    ghost := inv.ghost }

theorem Inv.meta {g st : St} (inv : Inv g st) (d : Denom) (tag : Nat) : Inv g (metaSt st d tag) := by
  exact {
    ledger := inv.ledger
    adminCreated := inv.adminCreated
    createdMeta := by
      intro x h
      by_cases hx : x = d
      · subst hx; simp [metaSt]
      · simpa [metaSt, updD, hx] using inv.createdMeta x h
    createdFresh := inv.createdFresh
    createdNs := inv.createdNs
    nodup := inv.nodup
    metaMono := by
      intro x h
      by_cases hx : x = d
      · subst hx; simp [metaSt]
      · simpa [metaSt, updD, hx] using inv.metaMono x h
    ghost := inv.ghost }

theorem Inv.move {g st : St} (inv : Inv g st) (a b : Addr) (d : Denom) (n : Nat) : Inv g (st.move a b d n) :=
  { ledger := inv.ledger, adminCreated := inv.adminCreated, createdMeta := inv.createdMeta,
    createdFresh := inv.createdFresh, createdNs := inv.createdNs, nodup := inv.nodup,
    metaMono := inv.metaMono, ghost := inv.ghost }

theorem Inv.grant {g st : St} (inv : Inv g st) (gr : Addr → Addr → Bool) : Inv g { st with grant := gr } :=
  { ledger := inv.ledger, adminCreated := inv.adminCreated, createdMeta := inv.createdMeta,
    createdFresh := inv.createdFresh, createdNs := inv.createdNs, nodup := inv.nodup,
    metaMono := inv.metaMono, ghost := inv.ghost }

theorem Inv.fee {g st : St} (inv : Inv g st) (n : Nat) : Inv g { st with fee := n } :=
  { ledger := inv.ledger, adminCreated := inv.adminCreated, createdMeta := inv.createdMeta,
    createdFresh := inv.createdFresh, createdNs := inv.createdNs, nodup := inv.nodup,
    metaMono := inv.metaMono, ghost := inv.ghost }

theorem Inv.hCreate {g st st' : St} (inv : Inv g st) {c : Addr} {sub : Denom} (h : hCreate st c sub = (st', .ok)) :
    Inv g st' := by
  obtain ⟨_, hv, _, hm, _, rfl⟩ := hCreate_ok h
  exact inv.create c sub hv hm

theorem Inv.hMint {g st st' : St} (inv : Inv g st) {c : Addr} {d : Denom} {n : Nat} (h : hMint st c d n = (st', .ok)) :
    Inv g st' := by
  obtain ⟨_, ha, _, _, _, rfl⟩ := hMint_ok h
  exact inv.mint c d n ha

theorem Inv.hBurn {g st st' : St} (inv : Inv g st) {c : Addr} {d : Denom} {n : Nat} (h : hBurn st c d n = (st', .ok)) :
    Inv g st' := by
  obtain ⟨ha, _, _, hs, rfl⟩ := hBurn_ok h
  exact inv.burn c d n ha hs

theorem Inv.hChAdmin {g st st' : St} (inv : Inv g st) {c : Addr} {d : Denom} {new : AddrArg}
    (h : hChAdmin st c d new = (st', .ok)) : Inv g st' := by
  obtain ⟨ha, _, rfl⟩ := hChAdmin_ok h
  exact inv.admin c d _ ha

theorem Inv.step {g st st' : St} (inv : Inv g st) {op : Op} {r : Res} (h : step st op = (st', r)) : Inv g st' := by
  by_cases hr : r = .ok
  · subst hr
    cases op with
    | create mode s c sub => exact inv.hCreate (step_create_ok h).2
    | mint mode s c d amt => exact inv.hMint (step_mint_ok h).2.2
    | burn mode s c d amt => exact inv.hBurn (step_burn_ok h).2.2
    | chadmin mode s c d new => exact inv.hChAdmin (step_chadmin_ok h).2
    | setmeta mode s c d mdOk tag =>
      obtain ⟨_, _, _, rfl⟩ := hSetMeta_ok (step_setmeta_ok h).2
      exact inv.meta d tag
    | wcreate a sub md =>
      obtain ⟨s1, h1, h2⟩ := wCreate_ok h
      have inv1 := inv.hCreate h1
      rcases h2 with ⟨_, rfl⟩ | ⟨m, _, hm⟩
      · exact inv1
      · obtain ⟨_, _, _, rfl⟩ := wSetMeta_ok hm
        exact inv1.meta _ _
    | wmint a d amt to =>
      obtain ⟨rc, s1, _, _, h1, h2⟩ := wMint_ok h
      obtain ⟨_, rfl⟩ := bankSend_ok h2
      exact (inv.hMint h1).move _ _ _ _
    | wburn a d amt frm => exact inv.hBurn (wBurn_ok h).2.2
    | wchadmin a d new =>
      obtain ⟨n, _, hn⟩ := wChAdmin_ok h
      exact inv.hChAdmin hn
    | wsetmeta a d base body mdOk tag =>
      obtain ⟨_, _, _, rfl⟩ := wSetMeta_ok h
      exact inv.meta d tag
    | send a b d amt =>
      obtain ⟨_, _, _, rfl⟩ := txSend_ok h
      exact inv.move _ _ _ _
    | grant c s =>
      rcases txGrant_cases h with ⟨_, hne⟩ | ⟨_, rfl⟩
      · exact absurd rfl hne
      · exact inv.grant _
    | revoke c s =>
      rcases txRevoke_cases h with ⟨_, hne⟩ | ⟨_, rfl⟩
      · exact absurd rfl hne
      · exact inv.grant _
    | setfee n =>
      simp only [Paloma.TokenFactory.step, Prod.mk.injEq, and_true] at h
      rw [← h]
      exact inv.fee n
  · rw [step_rej h hr]
    exact inv

theorem Inv.run {g st : St} (inv : Inv g st) (ops : List Op) : Inv g (run st ops) := by
  induction ops generalizing st with
  | nil => exact inv
  | cons op ops ih => exact ih (inv.step (r := (Paloma.TokenFactory.step st op).2) rfl)

/-! ### histories: quantities that are functions of the op list alone

`St.minted`, `St.burned` and `St.created` are ghost fields written next to the executable state.  The
definitions below do not look at them: they fold over the history and consult only the RESULT of
every operation.  `ghosts_are_history_sums` proves the ghost fields equal to them, and the supply
clause is stated on them directly. -/

/-- the results of a history run from `st`, one per operation -/
def results : St → List Op → List Res
  | _, [] => []
  | st, op :: ops => (step st op).2 :: results (step st op).1 ops

/-- Σ of the amounts of the SUCCESSFUL mints (message or binding) of `d` in the history -/
def sumMint (st : St) (d : Denom) : List Op → Nat
  | [] => 0
  | op :: ops => (if (step st op).2 = .ok then op.mintAmt d else 0) + sumMint (step st op).1 d ops

/-- Σ of the amounts of the SUCCESSFUL burns (message or binding) of `d` in the history -/
def sumBurn (st : St) (d : Denom) : List Op → Nat
  | [] => 0
  | op :: ops => (if (step st op).2 = .ok then op.burnAmt d else 0) + sumBurn (step st op).1 d ops

/-- the denominations of the SUCCESSFUL create operations of the history, oldest first -/
def createdIn (st : St) : List Op → List Denom
  | [] => []
  | op :: ops => (if (step st op).2 = .ok then op.newDenom.toList else []) ++ createdIn (step st op).1 ops

theorem run_append (st : St) (a b : List Op) : run st (a ++ b) = run (run st a) b := by
  induction a generalizing st with
  | nil => rfl
  | cons x xs ih => simp only [List.cons_append, run]; exact ih _

/-- membership in `createdIn` = a successful create operation for that name somewhere in the history -/
theorem mem_createdIn {st : St} {ops : List Op} {d : Denom} :
    d ∈ createdIn st ops ↔
      ∃ pre op post, ops = pre ++ op :: post ∧ (step (run st pre) op).2 = .ok ∧ op.newDenom = some d := by
  induction ops generalizing st with
  | nil => simp [createdIn]
  | cons o os ih =>
    simp only [createdIn, List.mem_append]
    constructor
    · rintro (h | h)
      · by_cases hok : (step st o).2 = .ok
        · rw [if_pos hok] at h
          exact ⟨[], o, os, rfl, hok, Option.mem_toList.mp h⟩
        · rw [if_neg hok] at h; cases h
      · obtain ⟨pre, op, post, rfl, h1, h2⟩ := ih.mp h
        exact ⟨o :: pre, op, post, rfl, h1, h2⟩
    · rintro ⟨pre, op, post, heq, h1, h2⟩
      cases pre with
      | nil =>
        simp only [List.nil_append, List.cons.injEq] at heq
        obtain ⟨rfl, rfl⟩ := heq
        left
        have h1' : (step st o).2 = .ok := h1
        rw [if_pos h1']
        exact Option.mem_toList.mpr h2
      | cons p ps =>
        simp only [List.cons_append, List.cons.injEq] at heq
        obtain ⟨rfl, rfl⟩ := heq
        right
        exact ih.mpr ⟨ps, op, post, rfl, h1, h2⟩

/-- only feegrant `grant` / `revoke` touch the allowance table, and only when they succeed -/
theorem step_grant {st st' : St} {op : Op} {r : Res} (h : step st op = (st', r)) :
    st'.grant = st.grant ∨
    (r = .ok ∧ ∃ c s, (op = .grant c s ∧ st'.grant = updG st.grant c s true) ∨
                       (op = .revoke c s ∧ st'.grant = updG st.grant c s false)) := by
  by_cases hr' : r ≠ .ok
  · left; rw [step_rej h hr']
  have hr : r = .ok := Classical.not_not.mp hr'
  subst hr
  cases op with
  | mint mode s c d' amt =>
    obtain ⟨_, _, _, _, _, rfl⟩ := hMint_ok (step_mint_ok h).2.2
    exact Or.inl rfl
  | burn mode s c d' amt =>
    obtain ⟨_, _, _, _, rfl⟩ := hBurn_ok (step_burn_ok h).2.2
    exact Or.inl rfl
  | wmint a d' amt to =>
    obtain ⟨rc, s1, _, _, h1, h2⟩ := wMint_ok h
    obtain ⟨_, _, _, _, _, rfl⟩ := hMint_ok h1
    obtain ⟨_, rfl⟩ := bankSend_ok h2
    exact Or.inl rfl
  | wburn a d' amt frm =>
    obtain ⟨_, _, _, _, rfl⟩ := hBurn_ok (wBurn_ok h).2.2
    exact Or.inl rfl
  | create mode s c sub =>
    obtain ⟨_, _, _, _, _, rfl⟩ := hCreate_ok (step_create_ok h).2
    exact Or.inl rfl
  | chadmin mode s c d' new =>
    obtain ⟨_, _, rfl⟩ := hChAdmin_ok (step_chadmin_ok h).2
    exact Or.inl rfl
  | setmeta mode s c d' mdOk tag =>
    obtain ⟨_, _, _, rfl⟩ := hSetMeta_ok (step_setmeta_ok h).2
    exact Or.inl rfl
  | wcreate a sub md =>
    obtain ⟨s1, h1, h2⟩ := wCreate_ok h
    obtain ⟨_, _, _, _, _, rfl⟩ := hCreate_ok h1
    rcases h2 with ⟨_, rfl⟩ | ⟨m, _, hm⟩
    · exact Or.inl rfl
    · obtain ⟨_, _, _, rfl⟩ := wSetMeta_ok hm
      exact Or.inl rfl
  | wchadmin a d' new =>
    obtain ⟨n, _, hn⟩ := wChAdmin_ok h
    obtain ⟨_, _, rfl⟩ := hChAdmin_ok hn
    exact Or.inl rfl
  | wsetmeta a d' base body mdOk tag =>
    obtain ⟨_, _, _, rfl⟩ := wSetMeta_ok h
    exact Or.inl rfl
  | send a b d' amt =>
    obtain ⟨_, _, _, rfl⟩ := txSend_ok h
    exact Or.inl rfl
  | grant c s =>
    rcases txGrant_cases h with ⟨_, hx⟩ | ⟨_, rfl⟩
    · exact absurd rfl hx
    · exact Or.inr ⟨rfl, c, s, Or.inl ⟨rfl, rfl⟩⟩
  | revoke c s =>
    rcases txRevoke_cases h with ⟨_, hx⟩ | ⟨_, rfl⟩
    · exact absurd rfl hx
    · exact Or.inr ⟨rfl, c, s, Or.inr ⟨rfl, rfl⟩⟩
  | setfee n =>
    simp only [step, Prod.mk.injEq, and_true] at h
    subst h
    exact Or.inl rfl

theorem updG_true {f : Addr → Addr → Bool} {c s x y : Addr} (h : updG f c s true x y = true) :
    f x y = true ∨ (x = c ∧ y = s) := by
  unfold updG at h
  split at h
  · right; assumption
  · left; exact h

theorem updG_false {f : Addr → Addr → Bool} {c s x y : Addr} (h : updG f c s false x y = true) :
    f x y = true := by
  unfold updG at h
  split at h
  · simp at h
  · exact h

/-- an allowance that is in the table was there at the start, or a successful `grant` put it there -/
theorem grant_from_history (st : St) (ops : List Op) (c s : Addr) (h : (run st ops).grant c s = true) :
    st.grant c s = true ∨
    ∃ pre post, ops = pre ++ Op.grant c s :: post ∧ (step (run st pre) (.grant c s)).2 = .ok := by
  induction ops generalizing st with
  | nil => exact Or.inl h
  | cons o os ih =>
    rcases ih (step st o).1 h with h1 | ⟨pre, post, rfl, hok⟩
    · rcases step_grant (st := st) (op := o) (st' := (step st o).1) (r := (step st o).2) rfl with hg | ⟨hr, c', s', hg | hg⟩
      · left; rw [← hg]; exact h1
      · obtain ⟨rfl, hg⟩ := hg
        rw [hg] at h1
        rcases updG_true h1 with h2 | ⟨rfl, rfl⟩
        · exact Or.inl h2
        · exact Or.inr ⟨[], os, rfl, hr⟩
      · obtain ⟨rfl, hg⟩ := hg
        rw [hg] at h1
        exact Or.inl (updG_false h1)
    · exact Or.inr ⟨o :: pre, post, rfl, hok⟩

end Lemmas

/-! ## Property theorems -/

/-- **only_admin_acts** ("only its current admin can mint it, burn it, change its metadata or hand
the admin role to someone else").  Whenever a mint, burn, change-admin or set-metadata — as a
message or through the wasm binding — succeeds on `d` for the account `c`, then `c` was the admin
of `d` in the state the operation ran on. -/
theorem only_admin_acts {st st' : St} {op : Op} {c : Addr} {d : Denom}
    (h : step st op = (st', .ok)) (ha : op.adminAct = some (c, d)) : st.admin d = some c := by
  cases op with
  | mint mode s c' d' amt =>
    simp only [Op.adminAct, Option.some.injEq, Prod.mk.injEq] at ha
    obtain ⟨rfl, rfl⟩ := ha
    exact (hMint_ok (step_mint_ok h).2.2).2.1
  | burn mode s c' d' amt =>
    simp only [Op.adminAct, Option.some.injEq, Prod.mk.injEq] at ha
    obtain ⟨rfl, rfl⟩ := ha
    exact (hBurn_ok (step_burn_ok h).2.2).1
  | chadmin mode s c' d' new =>
    simp only [Op.adminAct, Option.some.injEq, Prod.mk.injEq] at ha
    obtain ⟨rfl, rfl⟩ := ha
    exact (hChAdmin_ok (step_chadmin_ok h).2).1
  | setmeta mode s c' d' mdOk tag =>
    simp only [Op.adminAct, Option.some.injEq, Prod.mk.injEq] at ha
    obtain ⟨rfl, rfl⟩ := ha
    exact (hSetMeta_ok (step_setmeta_ok h).2).1
  | wmint a d' amt to =>
    simp only [Op.adminAct, Option.some.injEq, Prod.mk.injEq] at ha
    obtain ⟨rfl, rfl⟩ := ha
    obtain ⟨_, _, _, _, h1, _⟩ := wMint_ok h
    exact (hMint_ok h1).2.1
  | wburn a d' amt frm =>
    simp only [Op.adminAct, Option.some.injEq, Prod.mk.injEq] at ha
    obtain ⟨rfl, rfl⟩ := ha
    exact (hBurn_ok (wBurn_ok h).2.2).1
  | wchadmin a d' new =>
    simp only [Op.adminAct, Option.some.injEq, Prod.mk.injEq] at ha
    obtain ⟨rfl, rfl⟩ := ha
    obtain ⟨_, _, hn⟩ := wChAdmin_ok h
    exact (hChAdmin_ok hn).1
  | wsetmeta a d' base body mdOk tag =>
    simp only [Op.adminAct, Option.some.injEq, Prod.mk.injEq] at ha
    obtain ⟨rfl, rfl⟩ := ha
    exact (wSetMeta_ok h).1
  | create _ _ _ _ => simp [Op.adminAct] at ha
  | wcreate _ _ _ => simp [Op.adminAct] at ha
  | send _ _ _ _ => simp [Op.adminAct] at ha
  | grant _ _ => simp [Op.adminAct] at ha
  | revoke _ _ => simp [Op.adminAct] at ha
  | setfee _ => simp [Op.adminAct] at ha

/-- **only_admin_acts**, authentication half.  A tokenfactory transaction that names `c` as its
creator only succeeds if it is signed by `c` itself, or by an account `c` has granted a fee
allowance to (Paloma's delegation rule, `VerifyAuthorisedSignatureDecorator`); merely *declaring*
`c` as signer while somebody else signs (`mode = 1`) never succeeds. -/
theorem signer_authorised {st st' : St} {op : Op} {s c : Addr}
    (h : step st op = (st', .ok)) (hs : op.signed = some (s, c)) : s = c ∨ st.grant c s = true := by
  have key : ∀ {mode : Nat}, ante st mode s c = none → s = c ∨ st.grant c s = true := by
    intro mode ha
    rcases ante_none ha with h1 | ⟨_, h2⟩
    · exact Or.inl h1
    · exact Or.inr h2
  cases op with
  | create mode s' c' sub =>
    simp only [Op.signed, Option.some.injEq, Prod.mk.injEq] at hs
    obtain ⟨rfl, rfl⟩ := hs
    exact key (step_create_ok h).1
  | mint mode s' c' d amt =>
    simp only [Op.signed, Option.some.injEq, Prod.mk.injEq] at hs
    obtain ⟨rfl, rfl⟩ := hs
    exact key (step_mint_ok h).1
  | burn mode s' c' d amt =>
    simp only [Op.signed, Option.some.injEq, Prod.mk.injEq] at hs
    obtain ⟨rfl, rfl⟩ := hs
    exact key (step_burn_ok h).1
  | chadmin mode s' c' d new =>
    simp only [Op.signed, Option.some.injEq, Prod.mk.injEq] at hs
    obtain ⟨rfl, rfl⟩ := hs
    exact key (step_chadmin_ok h).1
  | setmeta mode s' c' d mdOk tag =>
    simp only [Op.signed, Option.some.injEq, Prod.mk.injEq] at hs
    obtain ⟨rfl, rfl⟩ := hs
    exact key (step_setmeta_ok h).1
  | wcreate _ _ _ => simp [Op.signed] at hs
  | wmint _ _ _ _ => simp [Op.signed] at hs
  | wburn _ _ _ _ => simp [Op.signed] at hs
  | wchadmin _ _ _ => simp [Op.signed] at hs
  | wsetmeta _ _ _ _ _ _ => simp [Op.signed] at hs
  | send _ _ _ _ => simp [Op.signed] at hs
  | grant _ _ => simp [Op.signed] at hs
  | revoke _ _ => simp [Op.signed] at hs
  | setfee _ => simp [Op.signed] at hs

/-- **only_admin_acts**, converse direction for the supply: if ANY operation (whatever its result)
changes the supply of `d`, it was a mint or burn of `d` performed by the admin of `d`. -/
theorem supply_changes_only_by_admin {st st' : St} {op : Op} {r : Res} {d : Denom}
    (h : step st op = (st', r)) (hne : st'.supply d ≠ st.supply d) :
    ∃ c, st.admin d = some c ∧ op.adminAct = some (c, d) ∧ op.mintBurnDenom = some d := by
  by_cases hr' : r ≠ .ok
  · rw [step_rej h hr'] at hne; exact absurd rfl hne
  have hr : r = .ok := Classical.not_not.mp hr'
  subst hr
  cases op with
  | mint mode s c d' amt =>
    obtain ⟨_, ha, _, _, _, rfl⟩ := hMint_ok (step_mint_ok h).2.2
    have hd : d = d' := by
      apply Classical.byContradiction
      intro hd
      exact hne (updD_ne _ _ hd)
    subst hd
    exact ⟨c, ha, rfl, rfl⟩
  | burn mode s c d' amt =>
    obtain ⟨ha, _, _, _, rfl⟩ := hBurn_ok (step_burn_ok h).2.2
    have hd : d = d' := by
      apply Classical.byContradiction
      intro hd
      exact hne (updD_ne _ _ hd)
    subst hd
    exact ⟨c, ha, rfl, rfl⟩
  | wmint a d' amt to =>
    obtain ⟨rc, s1, _, _, h1, h2⟩ := wMint_ok h
    obtain ⟨_, ha, _, _, _, rfl⟩ := hMint_ok h1
    obtain ⟨_, rfl⟩ := bankSend_ok h2
    have hd : d = d' := by
      apply Classical.byContradiction
      intro hd
      exact hne (updD_ne _ _ hd)
    subst hd
    exact ⟨a, ha, rfl, rfl⟩
  | wburn a d' amt frm =>
    obtain ⟨ha, _, _, _, rfl⟩ := hBurn_ok (wBurn_ok h).2.2
    have hd : d = d' := by
      apply Classical.byContradiction
      intro hd
      exact hne (updD_ne _ _ hd)
    subst hd
    exact ⟨a, ha, rfl, rfl⟩
  | create mode s c sub =>
    obtain ⟨_, _, _, _, _, rfl⟩ := hCreate_ok (step_create_ok h).2
    exact absurd rfl hne
  | chadmin mode s c d' new =>
    obtain ⟨_, _, rfl⟩ := hChAdmin_ok (step_chadmin_ok h).2
    exact absurd rfl hne
  | setmeta mode s c d' mdOk tag =>
    obtain ⟨_, _, _, rfl⟩ := hSetMeta_ok (step_setmeta_ok h).2
    exact absurd rfl hne
  | wcreate a sub md =>
    obtain ⟨s1, h1, h2⟩ := wCreate_ok h
    obtain ⟨_, _, _, _, _, rfl⟩ := hCreate_ok h1
    rcases h2 with ⟨_, rfl⟩ | ⟨m, _, hm⟩
    · exact absurd rfl hne
    · obtain ⟨_, _, _, rfl⟩ := wSetMeta_ok hm
      exact absurd rfl hne
  | wchadmin a d' new =>
    obtain ⟨n, _, hn⟩ := wChAdmin_ok h
    obtain ⟨_, _, rfl⟩ := hChAdmin_ok hn
    exact absurd rfl hne
  | wsetmeta a d' base body mdOk tag =>
    obtain ⟨_, _, _, rfl⟩ := wSetMeta_ok h
    exact absurd rfl hne
  | send a b d' amt =>
    obtain ⟨_, _, _, rfl⟩ := txSend_ok h
    exact absurd rfl hne
  | grant c s =>
    rcases txGrant_cases h with ⟨_, hx⟩ | ⟨_, rfl⟩
    · exact absurd rfl hx
    · exact absurd rfl hne
  | revoke c s =>
    rcases txRevoke_cases h with ⟨_, hx⟩ | ⟨_, rfl⟩
    · exact absurd rfl hx
    · exact absurd rfl hne
  | setfee n =>
    simp only [step, Prod.mk.injEq, and_true] at h
    subst h
    exact absurd rfl hne

/-- **only_admin_acts**, converse direction for the admin role and the metadata: if ANY operation
changes the admin or the bank metadata of `d`, then either it was an admin action by the admin of
`d`, or it was the creation of `d` (which did not exist before) by the creator whose namespace `d`
lies in — who becomes the admin. -/
theorem admin_meta_change_only_by_admin_or_create {st st' : St} {op : Op} {r : Res} {d : Denom}
    (h : step st op = (st', r)) (hne : st'.admin d ≠ st.admin d ∨ st'.dmeta d ≠ st.dmeta d) :
    (∃ c, st.admin d = some c ∧ op.adminAct = some (c, d)) ∨
    (∃ c sub, op.creates = some (c, sub) ∧ d = tokenDenom c sub ∧ st.dmeta d = none ∧
      (st.admin d = some c ∨ st'.admin d = some c)) := by
  by_cases hr' : r ≠ .ok
  · rw [step_rej h hr'] at hne; rcases hne with hne | hne <;> exact absurd rfl hne
  have hr : r = .ok := Classical.not_not.mp hr'
  subst hr
  -- the two generic shapes
  have adminShape : ∀ {c : Addr} {d' : Denom} {v : Option Addr}, st.admin d' = some c → st' = adminSt st d' v →
      d = d' := by
    intro c d' v _ hst
    subst hst
    apply Classical.byContradiction
    intro hd
    rcases hne with hne | hne
    · exact hne (updD_ne _ _ hd)
    · exact hne rfl
  have metaShape : ∀ {d' : Denom} {tag : Nat}, st' = metaSt st d' tag → d = d' := by
    intro d' tag hst
    subst hst
    apply Classical.byContradiction
    intro hd
    rcases hne with hne | hne
    · exact hne rfl
    · exact hne (updD_ne _ _ hd)
  cases op with
  | mint mode s c d' amt =>
    obtain ⟨_, _, _, _, _, rfl⟩ := hMint_ok (step_mint_ok h).2.2
    rcases hne with hne | hne <;> exact absurd rfl hne
  | burn mode s c d' amt =>
    obtain ⟨_, _, _, _, rfl⟩ := hBurn_ok (step_burn_ok h).2.2
    rcases hne with hne | hne <;> exact absurd rfl hne
  | wmint a d' amt to =>
    obtain ⟨rc, s1, _, _, h1, h2⟩ := wMint_ok h
    obtain ⟨_, _, _, _, _, rfl⟩ := hMint_ok h1
    obtain ⟨_, rfl⟩ := bankSend_ok h2
    rcases hne with hne | hne <;> exact absurd rfl hne
  | wburn a d' amt frm =>
    obtain ⟨_, _, _, _, rfl⟩ := hBurn_ok (wBurn_ok h).2.2
    rcases hne with hne | hne <;> exact absurd rfl hne
  | create mode s c sub =>
    obtain ⟨_, _, _, hm, _, rfl⟩ := hCreate_ok (step_create_ok h).2
    have hd : d = tokenDenom c sub := by
      apply Classical.byContradiction
      intro hd
      rcases hne with hne | hne
      · exact hne (updD_ne _ _ hd)
      · exact hne (updD_ne _ _ hd)
    subst hd
    exact Or.inr ⟨c, sub, rfl, rfl, hm, Or.inr (by simp [createSt])⟩
  | chadmin mode s c d' new =>
    obtain ⟨ha, _, hst⟩ := hChAdmin_ok (step_chadmin_ok h).2
    have := adminShape ha hst
    subst this
    exact Or.inl ⟨c, ha, rfl⟩
  | setmeta mode s c d' mdOk tag =>
    obtain ⟨ha, _, _, hst⟩ := hSetMeta_ok (step_setmeta_ok h).2
    have := metaShape hst
    subst this
    exact Or.inl ⟨c, ha, rfl⟩
  | wcreate a sub md =>
    obtain ⟨s1, h1, h2⟩ := wCreate_ok h
    obtain ⟨_, _, _, hm, _, rfl⟩ := hCreate_ok h1
    have hd : d = tokenDenom a sub := by
      rcases h2 with ⟨_, rfl⟩ | ⟨m, _, hm2⟩
      · apply Classical.byContradiction
        intro hd
        rcases hne with hne | hne
        · exact hne (updD_ne _ _ hd)
        · exact hne (updD_ne _ _ hd)
      · obtain ⟨_, _, _, rfl⟩ := wSetMeta_ok hm2
        apply Classical.byContradiction
        intro hd
        rcases hne with hne | hne
        · exact hne (updD_ne _ _ hd)
        · apply hne
          show updD (updD st.dmeta (tokenDenom a sub) (some 0)) (tokenDenom a sub) (some m.tag) d = st.dmeta d
          rw [updD_ne _ _ hd, updD_ne _ _ hd]
    subst hd
    refine Or.inr ⟨a, sub, rfl, rfl, hm, Or.inr ?_⟩
    rcases h2 with ⟨_, rfl⟩ | ⟨m, _, hm2⟩
    · simp [createSt]
    · obtain ⟨_, _, _, rfl⟩ := wSetMeta_ok hm2
      simp [createSt, metaSt]
  | wchadmin a d' new =>
    obtain ⟨n, _, hn⟩ := wChAdmin_ok h
    obtain ⟨ha, _, hst⟩ := hChAdmin_ok hn
    have := adminShape ha hst
    subst this
    exact Or.inl ⟨a, ha, rfl⟩
  | wsetmeta a d' base body mdOk tag =>
    obtain ⟨ha, _, _, hst⟩ := wSetMeta_ok h
    have := metaShape hst
    subst this
    exact Or.inl ⟨a, ha, rfl⟩
  | send a b d' amt =>
    obtain ⟨_, _, _, rfl⟩ := txSend_ok h
    rcases hne with hne | hne <;> exact absurd rfl hne
  | grant c s =>
    rcases txGrant_cases h with ⟨_, hx⟩ | ⟨_, rfl⟩
    · exact absurd rfl hx
    · rcases hne with hne | hne <;> exact absurd rfl hne
  | revoke c s =>
    rcases txRevoke_cases h with ⟨_, hx⟩ | ⟨_, rfl⟩
    · exact absurd rfl hx
    · rcases hne with hne | hne <;> exact absurd rfl hne
  | setfee n =>
    simp only [step, Prod.mk.injEq, and_true] at h
    subst h
    rcases hne with hne | hne <;> exact absurd rfl hne

/-- **only_admin_acts**, the wasm `set_metadata` message names TWO denominations: `denom` (whose
admin is checked) and `metadata.base` (the key of the bank record that is written).  A successful
`PerformSetMetadata` by contract `a` on `d`: `a` is the admin of `d`, the base is empty or `d` itself,
the record describes `d` (`display` / first unit), the record of `d` gets the new tag — and the bank
metadata of EVERY other denomination (factory denominations of other admins, native denominations,
strings that are no denomination at all) is untouched, for whatever base and body the contract sent. -/
theorem wasm_setmeta_key_is_checked_denom {st st' : St} {a : Addr} {d : Denom} {base : Option Denom}
    {body : Denom} {mdOk : Bool} {tag : Nat}
    (h : step st (.wsetmeta a d base body mdOk tag) = (st', .ok)) :
    st.admin d = some a ∧ (base = none ∨ base = some d) ∧ body = d ∧ st'.dmeta d = some tag ∧
      ∀ x, x ≠ d → st'.dmeta x = st.dmeta x := by
  obtain ⟨ha, _, _, rfl, hb, hbody⟩ := wSetMeta_ok' (show wSetMeta st a d base body mdOk tag = (st', .ok) from h)
  refine ⟨ha, hb, hbody, by simp [metaSt], ?_⟩
  intro x hx
  exact updD_ne _ _ hx

/-- **only_admin_acts**, the same for the metadata a contract attaches to `create_denom`
(`PerformCreateDenom` → `PerformSetMetadata` on the new denomination): whatever base / body the
attached record names, a successful call changes the bank metadata of the newly created denomination
only, and that denomination had no metadata before. -/
theorem wasm_create_meta_only_new_denom {st st' : St} {a : Addr} {sub : Denom} {md : Option WMeta}
    (h : step st (.wcreate a sub md) = (st', .ok)) :
    st.dmeta (tokenDenom a sub) = none ∧ (st'.dmeta (tokenDenom a sub)).isSome = true ∧
      (∀ m, md = some m → (m.base = none ∨ m.base = some (tokenDenom a sub)) ∧ m.body = tokenDenom a sub) ∧
      ∀ x, x ≠ tokenDenom a sub → st'.dmeta x = st.dmeta x := by
  obtain ⟨s1, h1, h2⟩ := wCreate_ok (show wCreate st a sub md = (st', .ok) from h)
  obtain ⟨_, _, _, hm, _, rfl⟩ := hCreate_ok h1
  rcases h2 with ⟨rfl, rfl⟩ | ⟨m, rfl, hm2⟩
  · refine ⟨hm, by simp [createSt], (by intro m hm; cases hm), ?_⟩
    intro x hx
    exact updD_ne _ _ hx
  · obtain ⟨_, _, _, rfl, hb, hbody⟩ := wSetMeta_ok' hm2
    refine ⟨hm, by simp [metaSt], ?_, ?_⟩
    · intro m' hm'
      cases hm'
      exact ⟨hb, hbody⟩
    · intro x hx
      show updD (updD st.dmeta (tokenDenom a sub) (some 0)) (tokenDenom a sub) (some m.tag) x = st.dmeta x
      rw [updD_ne _ _ hx, updD_ne _ _ hx]

/-- **only_admin_acts**, metadata frame over ALL operations: one step changes the bank metadata of
at most one denomination, and that one is the denomination the operation is an admin action on or
the one it creates (never a second denomination smuggled in through a payload field). -/
theorem meta_change_only_target {st st' : St} {op : Op} {r : Res} {d : Denom}
    (h : step st op = (st', r)) (hne : st'.dmeta d ≠ st.dmeta d) :
    (∃ c, op.adminAct = some (c, d) ∧ st.admin d = some c) ∨ op.newDenom = some d := by
  rcases admin_meta_change_only_by_admin_or_create h (Or.inr hne) with ⟨c, ha, hact⟩ | ⟨c, sub, hc, hd, _, _⟩
  · exact Or.inl ⟨c, hact, ha⟩
  · right
    simp [Op.newDenom, hc, hd]

/-- **mint_burn_touch_only_admin**, mint message.  A successful `MsgMint` of `amt` of `d` for `c`
raises exactly the balance of `c` in `d` and the supply of `d` by `amt`; every other balance —
the module account's included (net zero) — and every other supply is unchanged. -/
theorem mint_touches_only_admin {st st' : St} {mode : Nat} {s c : Addr} {d : Denom} {amt : Int}
    (h : step st (.mint mode s c d amt) = (st', .ok)) :
    (∀ a x, st'.bal a x = if a = c ∧ x = d then st.bal a x + amt.toNat else st.bal a x) ∧
    (∀ x, st'.supply x = if x = d then st.supply x + amt.toNat else st.supply x) ∧ amt > 0 := by
  obtain ⟨_, hpos, hm⟩ := step_mint_ok h
  obtain ⟨_, _, _, _, hb, rfl⟩ := hMint_ok hm
  refine ⟨fun a x => mintSt_bal st c d _ (blocked_false_ne_module hb) a x, ?_, hpos⟩
  intro x
  show updD st.supply d (st.supply d + amt.toNat) x = _
  by_cases hx : x = d
  · subst hx; simp
  · simp [updD, hx]

/-- **mint_burn_touch_only_admin**, burn message (and likewise the wasm binding, see
`wasm_burn_touches_only_admin`).  A successful `MsgBurn` lowers exactly the balance of `c` in `d`
and the supply of `d` by `amt` (which `c` owned); nothing else moves. -/
theorem burn_touches_only_admin {st st' : St} {mode : Nat} {s c : Addr} {d : Denom} {amt : Int}
    (h : step st (.burn mode s c d amt) = (st', .ok)) :
    (∀ a x, st'.bal a x = if a = c ∧ x = d then st.bal a x - amt.toNat else st.bal a x) ∧
    (∀ x, st'.supply x = if x = d then st.supply x - amt.toNat else st.supply x) ∧
    amt > 0 ∧ amt.toNat ≤ st.bal c d ∧ amt.toNat ≤ st.supply d := by
  obtain ⟨_, hpos, hm⟩ := step_burn_ok h
  obtain ⟨ha, _, hbal, hsup, rfl⟩ := hBurn_ok hm
  have hc : c ≠ moduleAcc ∨ c = moduleAcc := (Classical.em _).symm
  refine ⟨?_, ?_, hpos, hbal, hsup⟩
  · intro a x
    rcases hc with hc | hc
    · exact burnSt_bal st c d _ hc hbal a x
    · -- the module account itself as admin: move to itself, then burn
      subst hc
      simp only [burnSt, St.move, St.burnCoins, updB]
      by_cases hx : x = d
      · subst hx
        by_cases ha' : a = moduleAcc
        · subst ha'; simp <;> omega
        · simp [ha']
      · simp [hx]
  · intro x
    show updD st.supply d (st.supply d - amt.toNat) x = _
    by_cases hx : x = d
    · subst hx; simp
    · simp [updD, hx]

/-- **mint_burn_touch_only_admin**, wasm burn: `burn_from_address` must be empty or the contract
itself, and the effect is that of the burn message with the contract as admin. -/
theorem wasm_burn_touches_only_admin {st st' : St} {a : Addr} {d : Denom} {amt : Int} {frm : AddrArg}
    (h : step st (.wburn a d amt frm) = (st', .ok)) :
    (frm = .empty ∨ frm = .addr a) ∧ step st (.burn 0 a a d amt) = (st', .ok) := by
  obtain ⟨hf, hpos, hb⟩ := wBurn_ok h
  refine ⟨hf, ?_⟩
  have hv : basicCoin d amt = none := by
    have h' : wBurn st a d amt frm = (st', .ok) := h
    unfold wBurn at h'
    split at h'
    · simp at h'
    · split at h'
      · simp at h'
      · assumption
  simp [step, gate, hv, ante, hb]

/-- **mint_burn_touch_only_admin**, wasm mint.  `PerformMint` is the mint message for the contract
(so the contract must be the admin, and the newly minted coins are the contract's own) followed by
the contract's own bank transfer to `mint_to_address`: the net effect is `+amt` on the recipient's
balance of `d` and on the supply of `d`, nothing else.  Coins held by anybody else are never
touched; with `mint_to_address` = the contract it is exactly `mint_touches_only_admin`. -/
theorem wasm_mint_is_mint_then_own_transfer {st st' : St} {a : Addr} {d : Denom} {amt : Int} {to : AddrArg}
    (h : step st (.wmint a d amt to) = (st', .ok)) :
    ∃ rc s1, to = .addr rc ∧ step st (.mint 0 a a d amt) = (s1, .ok) ∧ st' = s1.move a rc d amt.toNat ∧
      amt.toNat ≤ s1.bal a d ∧
      (∀ b x, st'.bal b x = if b = rc ∧ x = d then st.bal b x + amt.toNat else st.bal b x) ∧
      (∀ x, st'.supply x = if x = d then st.supply x + amt.toNat else st.supply x) := by
  obtain ⟨rc, s1, hto, hpos, h1, h2⟩ := wMint_ok h
  have hv : basicCoin d amt = none := by
    have h' : wMint st a d amt to = (st', .ok) := h
    unfold wMint at h'
    split at h'
    · simp at h'
    · split at h'
      · simp at h'
      · assumption
  have hstep : step st (.mint 0 a a d amt) = (s1, .ok) := by simp [step, gate, hv, ante, h1]
  obtain ⟨hbal, hsup, _⟩ := mint_touches_only_admin hstep
  obtain ⟨hle, rfl⟩ := bankSend_ok h2
  refine ⟨rc, s1, hto, hstep, rfl, hle, ?_, ?_⟩
  · intro b x
    rw [move_bal s1 a rc d _ hle b x]
    by_cases hx : x = d
    · subst hx
      by_cases hab : a = rc
      · subst hab
        simp only [if_true]
        rw [hbal]
        simp
      · simp only [hab, if_true, if_false]
        by_cases hba : b = a
        · subst hba
          have : ¬ b = rc := hab
          rw [hbal]
          simp [this]
        · by_cases hbr : b = rc
          · subst hbr
            rw [hbal]
            simp [hba]
          · rw [hbal]
            simp [hba, hbr]
    · simp only [hx, if_false, and_false]
      rw [hbal]
      simp [hx]
  · intro x
    exact hsup x

/-- **mint_burn_touch_only_admin** ("minting and burning only ever touch the admin's own
balance"), all four entry points at once.  A successful mint or burn of `d` by `c` changes no
balance in any other denomination and no balance of `d` other than `c`'s own — except that the wasm
mint binding hands the coins it minted for the contract on to the `mint_to_address` the contract
itself named (`wasm_mint_is_mint_then_own_transfer`).  In particular the tokenfactory module
account is net zero, and a holder who is not the admin can never lose coins to a burn. -/
theorem mint_burn_touch_only_admin {st st' : St} {op : Op} {c : Addr} {d : Denom}
    (h : step st op = (st', .ok)) (ha : op.adminAct = some (c, d)) (hmb : op.mintBurnDenom = some d) :
    ∀ a x, ¬ (x = d ∧ (a = c ∨ op.mintTo = some a)) → st'.bal a x = st.bal a x := by
  intro a x hax
  cases op with
  | mint mode s c' d' amt =>
    simp only [Op.adminAct, Option.some.injEq, Prod.mk.injEq] at ha
    obtain ⟨rfl, rfl⟩ := ha
    rw [(mint_touches_only_admin h).1 a x]
    have : ¬ (a = c' ∧ x = d') := fun hh => hax ⟨hh.2, Or.inl hh.1⟩
    simp [this]
  | burn mode s c' d' amt =>
    simp only [Op.adminAct, Option.some.injEq, Prod.mk.injEq] at ha
    obtain ⟨rfl, rfl⟩ := ha
    rw [(burn_touches_only_admin h).1 a x]
    have : ¬ (a = c' ∧ x = d') := fun hh => hax ⟨hh.2, Or.inl hh.1⟩
    simp [this]
  | wburn a' d' amt frm =>
    simp only [Op.adminAct, Option.some.injEq, Prod.mk.injEq] at ha
    obtain ⟨rfl, rfl⟩ := ha
    rw [(burn_touches_only_admin (wasm_burn_touches_only_admin h).2).1 a x]
    have : ¬ (a = a' ∧ x = d') := fun hh => hax ⟨hh.2, Or.inl hh.1⟩
    simp [this]
  | wmint a' d' amt to =>
    simp only [Op.adminAct, Option.some.injEq, Prod.mk.injEq] at ha
    obtain ⟨rfl, rfl⟩ := ha
    obtain ⟨rc, s1, hto, _, _, _, hbal, _⟩ := wasm_mint_is_mint_then_own_transfer h
    subst hto
    rw [hbal a x]
    have : ¬ (a = rc ∧ x = d') := fun hh => hax ⟨hh.2, Or.inr (by simp [Op.mintTo, hh.1])⟩
    simp [this]
  | create _ _ _ _ => simp [Op.mintBurnDenom] at hmb
  | chadmin _ _ _ _ _ => simp [Op.mintBurnDenom] at hmb
  | setmeta _ _ _ _ _ _ => simp [Op.mintBurnDenom] at hmb
  | wcreate _ _ _ => simp [Op.mintBurnDenom] at hmb
  | wchadmin _ _ _ => simp [Op.mintBurnDenom] at hmb
  | wsetmeta _ _ _ _ _ _ => simp [Op.mintBurnDenom] at hmb
  | send _ _ _ _ => simp [Op.mintBurnDenom] at hmb
  | grant _ _ => simp [Op.mintBurnDenom] at hmb
  | revoke _ _ => simp [Op.mintBurnDenom] at hmb
  | setfee _ => simp [Op.mintBurnDenom] at hmb

/-- **supply_eq_mints_minus_burns**, bookkeeping.  The ghost counters really are "the sum of the
successful mints / burns": one step adds the operation's amount exactly when it succeeded, and the
list of created denominations grows exactly by the denomination of a successful create. -/
theorem ghost_counts_successes {st st' : St} {op : Op} {r : Res} (h : step st op = (st', r)) (d : Denom) :
    st'.minted d = st.minted d + (if r = .ok then op.mintAmt d else 0) ∧
    st'.burned d = st.burned d + (if r = .ok then op.burnAmt d else 0) ∧
    st'.created = (if r = .ok then op.newDenom.toList ++ st.created else st.created) := by
  by_cases hr' : r ≠ .ok
  · rw [step_rej h hr']
    exact ⟨by simp [hr'], by simp [hr'], by simp [hr']⟩
  have hr : r = .ok := Classical.not_not.mp hr'
  subst hr
  simp only [if_true]
  cases op with
  | mint mode s c d' amt =>
    obtain ⟨_, _, _, _, _, rfl⟩ := hMint_ok (step_mint_ok h).2.2
    refine ⟨?_, by simp [Op.burnAmt, mintSt, St.move, St.mintCoins], by simp [Op.newDenom, Op.creates, mintSt, St.move, St.mintCoins]⟩
    show updD st.minted d' (st.minted d' + amt.toNat) d = _
    by_cases hd : d' = d
    · subst hd; simp [Op.mintAmt]
    · have : d ≠ d' := fun h => hd h.symm
      simp [Op.mintAmt, hd, updD, this]
  | burn mode s c d' amt =>
    obtain ⟨_, _, _, _, rfl⟩ := hBurn_ok (step_burn_ok h).2.2
    refine ⟨by simp [Op.mintAmt, burnSt, St.move, St.burnCoins], ?_, by simp [Op.newDenom, Op.creates, burnSt, St.move, St.burnCoins]⟩
    show updD st.burned d' (st.burned d' + amt.toNat) d = _
    by_cases hd : d' = d
    · subst hd; simp [Op.burnAmt]
    · have : d ≠ d' := fun h => hd h.symm
      simp [Op.burnAmt, hd, updD, this]
  | wmint a d' amt to =>
    obtain ⟨rc, s1, _, _, h1, h2⟩ := wMint_ok h
    obtain ⟨_, _, _, _, _, rfl⟩ := hMint_ok h1
    obtain ⟨_, rfl⟩ := bankSend_ok h2
    refine ⟨?_, by simp [Op.burnAmt, mintSt, St.move, St.mintCoins], by simp [Op.newDenom, Op.creates, mintSt, St.move, St.mintCoins]⟩
    show updD st.minted d' (st.minted d' + amt.toNat) d = _
    by_cases hd : d' = d
    · subst hd; simp [Op.mintAmt]
    · have : d ≠ d' := fun h => hd h.symm
      simp [Op.mintAmt, hd, updD, this]
  | wburn a d' amt frm =>
    obtain ⟨_, _, _, _, rfl⟩ := hBurn_ok (wBurn_ok h).2.2
    refine ⟨by simp [Op.mintAmt, burnSt, St.move, St.burnCoins], ?_, by simp [Op.newDenom, Op.creates, burnSt, St.move, St.burnCoins]⟩
    show updD st.burned d' (st.burned d' + amt.toNat) d = _
    by_cases hd : d' = d
    · subst hd; simp [Op.burnAmt]
    · have : d ≠ d' := fun h => hd h.symm
      simp [Op.burnAmt, hd, updD, this]
  | create mode s c sub =>
    obtain ⟨_, _, _, _, _, rfl⟩ := hCreate_ok (step_create_ok h).2
    exact ⟨by simp [Op.mintAmt, createSt, St.move], by simp [Op.burnAmt, createSt, St.move], by simp [Op.newDenom, Op.creates, createSt]⟩
  | chadmin mode s c d' new =>
    obtain ⟨_, _, rfl⟩ := hChAdmin_ok (step_chadmin_ok h).2
    exact ⟨by simp [Op.mintAmt, adminSt], by simp [Op.burnAmt, adminSt], by simp [Op.newDenom, Op.creates, adminSt]⟩
  | setmeta mode s c d' mdOk tag =>
    obtain ⟨_, _, _, rfl⟩ := hSetMeta_ok (step_setmeta_ok h).2
    exact ⟨by simp [Op.mintAmt, metaSt], by simp [Op.burnAmt, metaSt], by simp [Op.newDenom, Op.creates, metaSt]⟩
  | wcreate a sub md =>
    obtain ⟨s1, h1, h2⟩ := wCreate_ok h
    obtain ⟨_, _, _, _, _, rfl⟩ := hCreate_ok h1
    rcases h2 with ⟨_, rfl⟩ | ⟨m, _, hm2⟩
    · exact ⟨by simp [Op.mintAmt, createSt, St.move], by simp [Op.burnAmt, createSt, St.move], by simp [Op.newDenom, Op.creates, createSt]⟩
    · obtain ⟨_, _, _, rfl⟩ := wSetMeta_ok hm2
      exact ⟨by simp [Op.mintAmt, createSt, metaSt, St.move], by simp [Op.burnAmt, createSt, metaSt, St.move],
        by simp [Op.newDenom, Op.creates, createSt, metaSt]⟩
  | wchadmin a d' new =>
    obtain ⟨n, _, hn⟩ := wChAdmin_ok h
    obtain ⟨_, _, rfl⟩ := hChAdmin_ok hn
    exact ⟨by simp [Op.mintAmt, adminSt], by simp [Op.burnAmt, adminSt], by simp [Op.newDenom, Op.creates, adminSt]⟩
  | wsetmeta a d' base body mdOk tag =>
    obtain ⟨_, _, _, rfl⟩ := wSetMeta_ok h
    exact ⟨by simp [Op.mintAmt, metaSt], by simp [Op.burnAmt, metaSt], by simp [Op.newDenom, Op.creates, metaSt]⟩
  | send a b d' amt =>
    obtain ⟨_, _, _, rfl⟩ := txSend_ok h
    exact ⟨by simp [Op.mintAmt, St.move], by simp [Op.burnAmt, St.move], by simp [Op.newDenom, Op.creates, St.move]⟩
  | grant c s =>
    rcases txGrant_cases h with ⟨_, hx⟩ | ⟨_, rfl⟩
    · exact absurd rfl hx
    · exact ⟨by simp [Op.mintAmt], by simp [Op.burnAmt], by simp [Op.newDenom, Op.creates]⟩
  | revoke c s =>
    rcases txRevoke_cases h with ⟨_, hx⟩ | ⟨_, rfl⟩
    · exact absurd rfl hx
    · exact ⟨by simp [Op.mintAmt], by simp [Op.burnAmt], by simp [Op.newDenom, Op.creates]⟩
  | setfee n =>
    simp only [step, Prod.mk.injEq, and_true] at h
    subst h
    exact ⟨by simp [Op.mintAmt], by simp [Op.burnAmt], by simp [Op.newDenom, Op.creates]⟩

/-- **supply_eq_mints_minus_burns**, the ghost fields are functions of the history.  Over every
history from every state, `minted d` / `burned d` grow by exactly the sum of the amounts of the
successful mints / burns of `d` in the op list (`sumMint`, `sumBurn`: folds over the history that look
at results only), and `created` grows by exactly the denominations of the successful creates, newest
first (`createdIn`).  From a genesis state the ghosts start at 0 / `[]`, so they ARE these sums. -/
theorem ghosts_are_history_sums (st : St) (ops : List Op) (d : Denom) :
    (run st ops).minted d = st.minted d + sumMint st d ops ∧
    (run st ops).burned d = st.burned d + sumBurn st d ops ∧
    (run st ops).created = (createdIn st ops).reverse ++ st.created := by
  induction ops generalizing st with
  | nil => simp [run, sumMint, sumBurn, createdIn]
  | cons op ops ih =>
    obtain ⟨h1, h2, h3⟩ :=
      ghost_counts_successes (st := st) (op := op) (st' := (step st op).1) (r := (step st op).2) rfl d
    obtain ⟨i1, i2, i3⟩ := ih (step st op).1
    simp only [run, sumMint, sumBurn, createdIn]
    refine ⟨by rw [i1, h1, Nat.add_assoc], by rw [i2, h2, Nat.add_assoc], ?_⟩
    rw [i3, h3]
    by_cases hok : (step st op).2 = .ok
    · simp only [hok, if_true, List.reverse_append, List.append_assoc]
      cases op.newDenom <;> simp
    · simp [hok]

/-- **supply_eq_mints_minus_burns** ("the token's total supply always equals the sum of successful
mints minus the sum of successful burns").  For every history `ops` of operations (any accounts, any
denominations, messages and bindings, successes and failures) from any bank state with an empty
factory, and every denomination `d`:

  `supply d  +  Σ successful burns of d in ops  =  supply₀ d  +  Σ successful mints of d in ops`

where the two sums are `sumBurn` / `sumMint`, plain folds over the op list (no ghost state), and
`supply₀` is the bank's supply at genesis.  Hence, whenever the bank held no coins under the name
`d` before the history (`supply₀ d = 0`, pointwise, for this `d` only), the burns never exceed the
mints and `supply d = Σ mints − Σ burns`.

ASSUMPTION (external, on the start state): `supply₀ d = 0`.  It cannot be dropped — see
`supply_clause_needs_empty_start` — because `validateCreateDenom` checks `HasSupply(subdenom)`, not
`HasSupply(factory/c/subdenom)`: coins that another module (or the genesis file) put under a
factory-shaped name stay in the supply of the token created later under that name. -/
theorem supply_eq_mints_minus_burns (bal : Addr → Denom → Nat) (supply : Denom → Nat)
    (dmeta : Denom → Option Nat) (fee : Nat) (gr : Addr → Addr → Bool) (ops : List Op) (d : Denom) :
    let g := St.genesis bal supply dmeta fee gr
    let st := run g ops
    st.supply d + sumBurn g d ops = supply d + sumMint g d ops ∧
    (supply d = 0 → sumBurn g d ops ≤ sumMint g d ops ∧ st.supply d = sumMint g d ops - sumBurn g d ops) ∧
    st.minted d = sumMint g d ops ∧ st.burned d = sumBurn g d ops := by
  intro g st
  have inv : Inv g st := (Inv.genesis bal supply dmeta fee gr).run ops
  have hl : st.supply d + st.burned d = supply d + st.minted d := inv.ledger d
  obtain ⟨hm, hb, _⟩ := ghosts_are_history_sums g ops d
  have hm' : st.minted d = sumMint g d ops := by
    rw [show st.minted d = (run g ops).minted d from rfl, hm]; simp [g, St.genesis]
  have hb' : st.burned d = sumBurn g d ops := by
    rw [show st.burned d = (run g ops).burned d from rfl, hb]; simp [g, St.genesis]
  rw [hm', hb'] at hl
  refine ⟨hl, ?_, hm', hb'⟩
  intro h0
  omega

/-- **supply_eq_mints_minus_burns**, per created token: a denomination is on the factory's list
exactly when a successful create operation for it occurs in the history; from that operation on
its supply moves only by its admin's mints and burns (`supply_changes_only_by_admin`), and before
it the supply is the untouched genesis supply (`non_factory_supply_constant`). -/
theorem created_iff_successful_create (bal : Addr → Denom → Nat) (supply : Denom → Nat)
    (dmeta : Denom → Option Nat) (fee : Nat) (gr : Addr → Addr → Bool) (ops : List Op) (d : Denom) :
    let g := St.genesis bal supply dmeta fee gr
    d ∈ (run g ops).created ↔
      ∃ pre op post, ops = pre ++ op :: post ∧ (step (run g pre) op).2 = .ok ∧ op.newDenom = some d := by
  intro g
  rw [(ghosts_are_history_sums g ops d).2.2]
  simp only [g, St.genesis, List.append_nil, List.mem_reverse]
  exact mem_createdIn

/-- **namespace** ("a creator can only create denominations inside its own factory/<creator>/
namespace").  A successful create by `c` (message or wasm binding) with subdenom `sub` creates
exactly `factory/c/sub` — a name that deconstructs back to `c` —, which did not exist, makes `c`
its admin, and leaves the metadata and the admin of every other denomination alone. -/
theorem namespace_of_create {st st' : St} {op : Op} {c : Addr} {sub : Denom}
    (h : step st op = (st', .ok)) (hc : op.creates = some (c, sub)) :
    deconstruct (tokenDenom c sub) = some (c, normSub sub) ∧
    st.dmeta (tokenDenom c sub) = none ∧
    st'.admin (tokenDenom c sub) = some c ∧ (st'.dmeta (tokenDenom c sub)).isSome = true ∧
    (∀ x, x ≠ tokenDenom c sub → st'.dmeta x = st.dmeta x ∧ st'.admin x = st.admin x) := by
  have shape : ∀ {s1 : St}, hCreate st c sub = (s1, .ok) →
      deconstruct (tokenDenom c sub) = some (c, normSub sub) ∧ st.dmeta (tokenDenom c sub) = none ∧
      s1.admin (tokenDenom c sub) = some c ∧ (s1.dmeta (tokenDenom c sub)).isSome = true ∧
      (∀ x, x ≠ tokenDenom c sub → s1.dmeta x = st.dmeta x ∧ s1.admin x = st.admin x) := by
    intro s1 h1
    obtain ⟨_, hv, _, hm, _, rfl⟩ := hCreate_ok h1
    refine ⟨deconstruct_tokenDenom c sub hv, hm, by simp [createSt], by simp [createSt], ?_⟩
    intro x hx
    exact ⟨updD_ne _ _ hx, updD_ne _ _ hx⟩
  cases op with
  | create mode s c' sub' =>
    simp only [Op.creates, Option.some.injEq, Prod.mk.injEq] at hc
    obtain ⟨rfl, rfl⟩ := hc
    exact shape (step_create_ok h).2
  | wcreate a sub' md =>
    simp only [Op.creates, Option.some.injEq, Prod.mk.injEq] at hc
    obtain ⟨rfl, rfl⟩ := hc
    obtain ⟨s1, h1, h2⟩ := wCreate_ok h
    obtain ⟨p1, p2, p3, p4, p5⟩ := shape h1
    rcases h2 with ⟨_, rfl⟩ | ⟨m, _, hm2⟩
    · exact ⟨p1, p2, p3, p4, p5⟩
    · obtain ⟨_, _, _, rfl⟩ := wSetMeta_ok hm2
      refine ⟨p1, p2, p3, by simp [metaSt], ?_⟩
      intro x hx
      have := p5 x hx
      exact ⟨by rw [← this.1]; exact updD_ne _ _ hx, this.2⟩
  | mint _ _ _ _ _ => simp [Op.creates] at hc
  | burn _ _ _ _ _ => simp [Op.creates] at hc
  | chadmin _ _ _ _ _ => simp [Op.creates] at hc
  | setmeta _ _ _ _ _ _ => simp [Op.creates] at hc
  | wmint _ _ _ _ => simp [Op.creates] at hc
  | wburn _ _ _ _ => simp [Op.creates] at hc
  | wchadmin _ _ _ => simp [Op.creates] at hc
  | wsetmeta _ _ _ _ _ _ => simp [Op.creates] at hc
  | send _ _ _ _ => simp [Op.creates] at hc
  | grant _ _ => simp [Op.creates] at hc
  | revoke _ _ => simp [Op.creates] at hc
  | setfee _ => simp [Op.creates] at hc

/-- **namespace**, converse over histories.  In any reachable state, a denomination that comes
into existence (bank metadata appears) in a step does so through a create operation whose creator
owns the namespace the denomination lies in; and every denomination on the factory's list is of the
form `factory/<creator>/<sub>` for the creator of the operation that created it. -/
theorem new_denoms_only_in_own_namespace (bal : Addr → Denom → Nat) (supply : Denom → Nat)
    (dmeta : Denom → Option Nat) (fee : Nat) (gr : Addr → Addr → Bool) (ops : List Op) (op : Op) (d : Denom) :
    let st := run (St.genesis bal supply dmeta fee gr) ops
    let st' := (step st op).1
    (st.dmeta d = none → st'.dmeta d ≠ none →
      ∃ c sub, op.creates = some (c, sub) ∧ d = tokenDenom c sub ∧ (step st op).2 = .ok) ∧
    (∀ x ∈ st.created, ∃ c sub, x = tokenDenom c sub ∧ deconstruct x = some (c, normSub sub)) := by
  intro st st'
  have inv : Inv (St.genesis bal supply dmeta fee gr) st := (Inv.genesis bal supply dmeta fee gr).run ops
  refine ⟨?_, inv.createdNs⟩
  intro h0 h1
  have hstep : step st op = (st', (step st op).2) := rfl
  have hne : st'.dmeta d ≠ st.dmeta d := by rw [h0]; exact h1
  have hok : (step st op).2 = .ok := by
    apply Classical.byContradiction
    intro hr
    exact hne (by rw [step_rej hstep hr])
  rcases admin_meta_change_only_by_admin_or_create hstep (Or.inr hne) with ⟨c, ha, _⟩ | ⟨c, sub, hc, hd, _, _⟩
  · -- an admin action needs an admin, hence a denomination that already exists
    have := inv.createdMeta d (inv.adminCreated d c ha)
    simp [h0] at this
  · exact ⟨c, sub, hc, hd, hok⟩

/-- **no_recreate** ("an existing denomination can never be created again").  A create operation
aimed at a denomination that already has bank metadata is rejected without effect; existence never
reverts, whatever the operation; and over any history the factory's list of created denominations
has no duplicates and all of them still exist. -/
theorem no_recreate {st st' : St} {op : Op} {r : Res} (h : step st op = (st', r)) :
    (∀ c sub, op.creates = some (c, sub) → (st.dmeta (tokenDenom c sub)).isSome = true → r ≠ .ok ∧ st' = st) ∧
    (∀ d, (st.dmeta d).isSome = true → (st'.dmeta d).isSome = true) := by
  constructor
  · intro c sub hc hex
    have hr : r ≠ .ok := by
      intro hr
      subst hr
      have := (namespace_of_create h hc).2.1
      simp [this] at hex
    exact ⟨hr, step_rej h hr⟩
  · intro d hex
    apply Classical.byContradiction
    intro hnot
    have hne : st'.dmeta d ≠ st.dmeta d := by
      intro heq
      rw [heq] at hnot
      exact hnot hex
    rcases admin_meta_change_only_by_admin_or_create h (Or.inr hne) with ⟨c, ha, hact⟩ | ⟨c, sub, _, _, hm, _⟩
    · -- admin actions that touch metadata set it
      have hr : r = .ok := by
        apply Classical.byContradiction
        intro hr
        exact hne (by rw [step_rej h hr])
      subst hr
      cases op with
      | setmeta mode s c' d' mdOk tag =>
        simp only [Op.adminAct, Option.some.injEq, Prod.mk.injEq] at hact
        obtain ⟨rfl, rfl⟩ := hact
        obtain ⟨_, _, _, rfl⟩ := hSetMeta_ok (step_setmeta_ok h).2
        exact hnot (by simp [metaSt])
      | wsetmeta a d' base body mdOk tag =>
        simp only [Op.adminAct, Option.some.injEq, Prod.mk.injEq] at hact
        obtain ⟨rfl, rfl⟩ := hact
        obtain ⟨_, _, _, rfl⟩ := wSetMeta_ok h
        exact hnot (by simp [metaSt])
      | mint mode s c' d' amt =>
        obtain ⟨_, _, _, _, _, rfl⟩ := hMint_ok (step_mint_ok h).2.2
        exact hne rfl
      | burn mode s c' d' amt =>
        obtain ⟨_, _, _, _, rfl⟩ := hBurn_ok (step_burn_ok h).2.2
        exact hne rfl
      | chadmin mode s c' d' new =>
        obtain ⟨_, _, rfl⟩ := hChAdmin_ok (step_chadmin_ok h).2
        exact hne rfl
      | wmint a d' amt to =>
        obtain ⟨rc, s1, _, _, h1, h2⟩ := wMint_ok h
        obtain ⟨_, _, _, _, _, rfl⟩ := hMint_ok h1
        obtain ⟨_, rfl⟩ := bankSend_ok h2
        exact hne rfl
      | wburn a d' amt frm =>
        obtain ⟨_, _, _, _, rfl⟩ := hBurn_ok (wBurn_ok h).2.2
        exact hne rfl
      | wchadmin a d' new =>
        obtain ⟨n, _, hn⟩ := wChAdmin_ok h
        obtain ⟨_, _, rfl⟩ := hChAdmin_ok hn
        exact hne rfl
      | create _ _ _ _ => simp [Op.adminAct] at hact
      | wcreate _ _ _ => simp [Op.adminAct] at hact
      | send _ _ _ _ => simp [Op.adminAct] at hact
      | grant _ _ => simp [Op.adminAct] at hact
      | revoke _ _ => simp [Op.adminAct] at hact
      | setfee _ => simp [Op.adminAct] at hact
    · simp [hm] at hex

/-- **no_recreate**, over histories: the denominations created through the factory are pairwise
distinct, exist, and did not exist in the bank before. -/
theorem created_once (bal : Addr → Denom → Nat) (supply : Denom → Nat)
    (dmeta : Denom → Option Nat) (fee : Nat) (gr : Addr → Addr → Bool) (ops : List Op) :
    let st := run (St.genesis bal supply dmeta fee gr) ops
    st.created.Nodup ∧ ∀ d ∈ st.created, (st.dmeta d).isSome = true ∧ dmeta d = none := by
  intro st
  have inv : Inv (St.genesis bal supply dmeta fee gr) st := (Inv.genesis bal supply dmeta fee gr).run ops
  exact ⟨inv.nodup, fun d hd => ⟨inv.createdMeta d hd, inv.createdFresh d hd⟩⟩

/-- **non_factory_untouchable** ("tokens that were not created by the factory can never be minted
or burned through it").  A mint or burn (message or binding) aimed at a denomination that does not
deconstruct as `factory/<address>/…` — native and malformed names included — or that has no admin
is rejected and changes nothing. -/
theorem non_factory_untouchable {st st' : St} {op : Op} {r : Res} {d : Denom}
    (h : step st op = (st', r)) (hop : op.mintBurnDenom = some d)
    (hd : deconstruct d = none ∨ st.admin d = none) : r ≠ .ok ∧ st' = st := by
  have hr : r ≠ .ok := by
    intro hr
    subst hr
    cases op with
    | mint mode s c d' amt =>
      simp only [Op.mintBurnDenom, Option.some.injEq] at hop
      subst hop
      obtain ⟨_, ha, hdec, _⟩ := hMint_ok (step_mint_ok h).2.2
      rcases hd with hd | hd
      · simp [hd] at hdec
      · simp [hd] at ha
    | burn mode s c d' amt =>
      simp only [Op.mintBurnDenom, Option.some.injEq] at hop
      subst hop
      obtain ⟨ha, hdec, _⟩ := hBurn_ok (step_burn_ok h).2.2
      rcases hd with hd | hd
      · simp [hd] at hdec
      · simp [hd] at ha
    | wmint a d' amt to =>
      simp only [Op.mintBurnDenom, Option.some.injEq] at hop
      subst hop
      obtain ⟨_, _, _, _, h1, _⟩ := wMint_ok h
      obtain ⟨_, ha, hdec, _⟩ := hMint_ok h1
      rcases hd with hd | hd
      · simp [hd] at hdec
      · simp [hd] at ha
    | wburn a d' amt frm =>
      simp only [Op.mintBurnDenom, Option.some.injEq] at hop
      subst hop
      obtain ⟨ha, hdec, _⟩ := hBurn_ok (wBurn_ok h).2.2
      rcases hd with hd | hd
      · simp [hd] at hdec
      · simp [hd] at ha
    | create _ _ _ _ => simp [Op.mintBurnDenom] at hop
    | chadmin _ _ _ _ _ => simp [Op.mintBurnDenom] at hop
    | setmeta _ _ _ _ _ _ => simp [Op.mintBurnDenom] at hop
    | wcreate _ _ _ => simp [Op.mintBurnDenom] at hop
    | wchadmin _ _ _ => simp [Op.mintBurnDenom] at hop
    | wsetmeta _ _ _ _ _ _ => simp [Op.mintBurnDenom] at hop
    | send _ _ _ _ => simp [Op.mintBurnDenom] at hop
    | grant _ _ => simp [Op.mintBurnDenom] at hop
    | revoke _ _ => simp [Op.mintBurnDenom] at hop
    | setfee _ => simp [Op.mintBurnDenom] at hop
  exact ⟨hr, step_rej h hr⟩

/-- **non_factory_untouchable**, over histories: a denomination that the factory did not create
(in particular every name that does not deconstruct: native, malformed, foreign prefix, non-address
creator) never gets an admin, is never minted or burned, and keeps its genesis supply for ever. -/
theorem non_factory_supply_constant (bal : Addr → Denom → Nat) (supply : Denom → Nat)
    (dmeta : Denom → Option Nat) (fee : Nat) (gr : Addr → Addr → Bool) (ops : List Op) (d : Denom) :
    let st := run (St.genesis bal supply dmeta fee gr) ops
    (deconstruct d = none → d ∉ st.created) ∧
    (d ∉ st.created → st.admin d = none ∧ st.minted d = 0 ∧ st.burned d = 0 ∧ st.supply d = supply d) := by
  intro st
  have inv : Inv (St.genesis bal supply dmeta fee gr) st := (Inv.genesis bal supply dmeta fee gr).run ops
  constructor
  · intro hd hmem
    obtain ⟨c, sub, _, hdec⟩ := inv.createdNs d hmem
    simp [hd] at hdec
  · intro hmem
    obtain ⟨hm, hb⟩ := inv.ghost d hmem
    have hl : st.supply d + st.burned d = supply d + st.minted d := inv.ledger d
    refine ⟨?_, hm, hb, by omega⟩
    cases ha : st.admin d with
    | none => rfl
    | some a => exact absurd (inv.adminCreated d a ha) hmem

/-- **failed_op_is_noop.**  Every operation that does not succeed — rejected by `ValidateBasic`,
by the ante chain, by the handler, or aborted by an arithmetic panic — leaves the whole state
(ledger, supply, admins, metadata, grants, fee, counters) exactly as it was. -/
theorem failed_op_is_noop (st : St) (op : Op) (h : (step st op).2 ≠ .ok) : (step st op).1 = st :=
  step_rej (st' := (step st op).1) (r := (step st op).2) rfl h

/-! ### history level: who acted, on whose authority -/

/-- **only_admin_acts**, rejection branch.  An admin action (mint, burn, change-admin, set-metadata,
message or binding) attempted for an account that is NOT the current admin of the denomination —
including every denomination without admin: never created, native, malformed, renounced — is
rejected and changes nothing. -/
theorem non_admin_rejected {st st' : St} {op : Op} {r : Res} {c : Addr} {d : Denom}
    (h : step st op = (st', r)) (ha : op.adminAct = some (c, d)) (hn : st.admin d ≠ some c) :
    r ≠ .ok ∧ st' = st := by
  have hr : r ≠ .ok := by
    intro hr; subst hr
    exact hn (only_admin_acts h ha)
  exact ⟨hr, step_rej h hr⟩

/-- **only_admin_acts**, rejection branch of the authentication: a tokenfactory transaction that
names `c` as creator but is signed by `s ≠ c` to whom `c` has NOT granted a fee allowance is rejected
and changes nothing — whatever `c` is admin of. -/
theorem stranger_rejected {st st' : St} {op : Op} {r : Res} {s c : Addr}
    (h : step st op = (st', r)) (hs : op.signed = some (s, c)) (hne : s ≠ c) (hg : st.grant c s = false) :
    r ≠ .ok ∧ st' = st := by
  have hr : r ≠ .ok := by
    intro hr; subst hr
    rcases signer_authorised h hs with h1 | h1
    · exact hne h1
    · rw [hg] at h1; cases h1
  exact ⟨hr, step_rej h hr⟩

/-- **signer provenance** for EVERY tokenfactory transaction — create, mint, burn, change-admin,
set-metadata — over histories.  Take any history from any bank state with an empty factory and ANY
table `gr` of fee allowances that exist already, cut it anywhere (`pre`), and let the next operation be
a SUCCESSFUL transaction that names `c` as its creator / sender and is signed by `s`.  Then `s = c`, or
`c`'s allowance to `s` is in force at that moment AND it was there from the start (`gr c s`) or `pre`
contains a successful feegrant `grant c s` — an allowance granted BY `c` ITSELF to `s`.  (A forged
`Metadata.Signers = [c]` with somebody else signing, `mode = 1`, never succeeds.)

ASSUMPTIONS (SDK): a transaction's signer is authenticated by signature verification;
`MsgGrantAllowance` is signed by the granter. -/
theorem tx_signer_provenance_history (bal : Addr → Denom → Nat) (supply : Denom → Nat)
    (dmeta : Denom → Option Nat) (fee : Nat) (gr : Addr → Addr → Bool) (pre : List Op) (op : Op) (s c : Addr) :
    let g := St.genesis bal supply dmeta fee gr
    (step (run g pre) op).2 = .ok → op.signed = some (s, c) →
      s = c ∨ ((run g pre).grant c s = true ∧
        (gr c s = true ∨ ∃ p1 p2, pre = p1 ++ Op.grant c s :: p2 ∧ (step (run g p1) (.grant c s)).2 = .ok)) := by
  intro g hok hs
  have hstep : step (run g pre) op = ((step (run g pre) op).1, .ok) := by rw [← hok]
  rcases signer_authorised hstep hs with h1 | h1
  · exact Or.inl h1
  · right
    refine ⟨h1, ?_⟩
    rcases grant_from_history g pre c s h1 with h2 | h2
    · exact Or.inl h2
    · exact Or.inr h2

/-- **only_admin_acts** over histories ("for every token created through the token factory, only its
current admin can mint it, burn it, change its metadata or hand the admin role to someone else").
Take any history from any bank state with an empty factory (any pre-existing allowance table `gr`), cut
it anywhere (`pre`), and let the next operation be a SUCCESSFUL admin action on `d` for the account `c`.
Then

* `c` is the admin of `d` at that moment;
* `d` was created through the factory: a successful create operation for exactly `d` occurs in `pre`;
* if the action is a transaction (not a binding call by the contract `c` itself) signed by `s`, then
  `s = c`, or `c` had an allowance to `s` from the start (`gr c s`), or `pre` contains a successful
  feegrant `grant c s` — an allowance granted BY THE ADMIN ITSELF to `s` (Paloma's delegation rule in
  `VerifyAuthorisedSignatureDecorator`).  So "only its current admin" holds as "only its current admin
  or an account the admin has given a fee allowance to"; the strict reading is refuted by
  `fee_grantee_acts_for_admin`.

ASSUMPTIONS (SDK / wasmd): a transaction's signer is authenticated by signature verification, a
binding call's `contractAddr` is the calling contract, `MsgGrantAllowance` is signed by the granter. -/
theorem only_admin_acts_history (bal : Addr → Denom → Nat) (supply : Denom → Nat)
    (dmeta : Denom → Option Nat) (fee : Nat) (gr : Addr → Addr → Bool) (pre : List Op) (op : Op) (c : Addr) (d : Denom) :
    let g := St.genesis bal supply dmeta fee gr
    (step (run g pre) op).2 = .ok → op.adminAct = some (c, d) →
      (run g pre).admin d = some c ∧
      (∃ p1 opc p2, pre = p1 ++ opc :: p2 ∧ (step (run g p1) opc).2 = .ok ∧ opc.newDenom = some d) ∧
      (∀ s, op.signed = some (s, c) →
        s = c ∨ gr c s = true ∨
          ∃ p1 p2, pre = p1 ++ Op.grant c s :: p2 ∧ (step (run g p1) (.grant c s)).2 = .ok) := by
  intro g hok ha
  have hstep : step (run g pre) op = ((step (run g pre) op).1, .ok) := by rw [← hok]
  have hadm := only_admin_acts hstep ha
  have inv : Inv g (run g pre) := (Inv.genesis bal supply dmeta fee gr).run pre
  refine ⟨hadm, ?_, ?_⟩
  · exact (created_iff_successful_create bal supply dmeta fee gr pre d).mp (inv.adminCreated d c hadm)
  · intro s hs
    rcases tx_signer_provenance_history bal supply dmeta fee gr pre op s c hok hs with h1 | ⟨_, h2 | h2⟩
    · exact Or.inl h1
    · exact Or.inr (Or.inl h2)
    · exact Or.inr (Or.inr h2)

/-- **only_admin_acts**, grant-free corollary: as long as the admin `c` of `d` has never had a fee
allowance out (none at the start, and `pre` contains no `grant c _` operation at all), every
successful mint / burn / change-admin / set-metadata transaction on `d` in the history is signed by
`c` in person. -/
theorem only_admin_signs_without_grants (bal : Addr → Denom → Nat) (supply : Denom → Nat)
    (dmeta : Denom → Option Nat) (fee : Nat) (gr : Addr → Addr → Bool) (pre : List Op) (op : Op) (s c : Addr) (d : Denom) :
    let g := St.genesis bal supply dmeta fee gr
    (step (run g pre) op).2 = .ok → op.adminAct = some (c, d) → op.signed = some (s, c) →
      (∀ x, gr c x = false) → (∀ x, Op.grant c x ∉ pre) → s = c ∧ (run g pre).admin d = some s := by
  intro g hok ha hs hg0 hng
  obtain ⟨hadm, _, hsig⟩ := only_admin_acts_history bal supply dmeta fee gr pre op c d hok ha
  rcases hsig s hs with h1 | h1 | ⟨p1, p2, rfl, _⟩
  · exact ⟨h1, by rw [h1]; exact hadm⟩
  · rw [hg0 s] at h1; cases h1
  · exact absurd (by simp) (hng s)

/-- **namespace**, what a successful create costs and whom: the creation fee (`Params.DenomCreationFee`,
possibly 0) is taken from the balance of the account `c` NAMED AS CREATOR — the owner of the namespace —
and paid into the community pool; it is not taken from the transaction's signer.  No other balance and
no supply moves. -/
theorem create_charges_creator {st st' : St} {op : Op} {c : Addr} {sub : Denom}
    (h : step st op = (st', .ok)) (hc : op.creates = some (c, sub)) :
    st.fee ≤ st.bal c feeDenom ∧ st'.supply = st.supply ∧
    ∀ a x, st'.bal a x =
      if x = feeDenom then
        (if c = poolAcc then st.bal a x
         else if a = c then st.bal a x - st.fee else if a = poolAcc then st.bal a x + st.fee else st.bal a x)
      else st.bal a x := by
  have shape : ∀ {s1 : St}, hCreate st c sub = (s1, .ok) →
      st.fee ≤ st.bal c feeDenom ∧ s1.supply = st.supply ∧ s1.bal = (st.move c poolAcc feeDenom st.fee).bal := by
    intro s1 h1
    obtain ⟨_, _, _, _, hf, rfl⟩ := hCreate_ok h1
    exact ⟨hf, rfl, rfl⟩
  have fin : ∀ {s1 : St}, st.fee ≤ st.bal c feeDenom ∧ s1.supply = st.supply ∧
      s1.bal = (st.move c poolAcc feeDenom st.fee).bal →
      st.fee ≤ st.bal c feeDenom ∧ s1.supply = st.supply ∧
      ∀ a x, s1.bal a x =
        if x = feeDenom then
          (if c = poolAcc then st.bal a x
           else if a = c then st.bal a x - st.fee else if a = poolAcc then st.bal a x + st.fee else st.bal a x)
        else st.bal a x := by
    intro s1 ⟨hf, hs, hb⟩
    refine ⟨hf, hs, ?_⟩
    intro a x
    rw [hb]
    exact move_bal st c poolAcc feeDenom st.fee hf a x
  cases op with
  | create mode s c' sub' =>
    simp only [Op.creates, Option.some.injEq, Prod.mk.injEq] at hc
    obtain ⟨rfl, rfl⟩ := hc
    exact fin (shape (step_create_ok h).2)
  | wcreate a sub' md =>
    simp only [Op.creates, Option.some.injEq, Prod.mk.injEq] at hc
    obtain ⟨rfl, rfl⟩ := hc
    obtain ⟨s1, h1, h2⟩ := wCreate_ok h
    obtain ⟨p1, p2, p3⟩ := shape h1
    rcases h2 with ⟨_, rfl⟩ | ⟨m, _, hm2⟩
    · exact fin ⟨p1, p2, p3⟩
    · obtain ⟨_, _, _, rfl⟩ := wSetMeta_ok hm2
      exact fin ⟨p1, p2, p3⟩
  | mint _ _ _ _ _ => simp [Op.creates] at hc
  | burn _ _ _ _ _ => simp [Op.creates] at hc
  | chadmin _ _ _ _ _ => simp [Op.creates] at hc
  | setmeta _ _ _ _ _ _ => simp [Op.creates] at hc
  | wmint _ _ _ _ => simp [Op.creates] at hc
  | wburn _ _ _ _ => simp [Op.creates] at hc
  | wchadmin _ _ _ => simp [Op.creates] at hc
  | wsetmeta _ _ _ _ _ _ => simp [Op.creates] at hc
  | send _ _ _ _ => simp [Op.creates] at hc
  | grant _ _ => simp [Op.creates] at hc
  | revoke _ _ => simp [Op.creates] at hc
  | setfee _ => simp [Op.creates] at hc

/-- **namespace** over histories, WHO creates ("a creator can only create denominations inside its own
factory/<creator>/ namespace").  Take any history from any bank state with an empty factory (any
pre-existing allowance table `gr`), cut it anywhere (`pre`), and let the next operation be a SUCCESSFUL
create — message or wasm binding — that names `c` as creator and `sub` as subdenom.  Then

* the denomination created is exactly `factory/c/sub`, it deconstructs back to `c`, it had no bank
  metadata (neither now nor at the start), no earlier operation of the history created it, and `c` —
  NOT the signer — becomes its admin;
* the creation fee is charged to `c` (`create_charges_creator`);
* if the create is a transaction signed by `s`, then `s = c`, or `c` had an allowance to `s` from the
  start, or `pre` contains a successful feegrant `grant c s`.  A binding call (`op.signed = none`) is
  made by the contract `c` itself.

So the clause holds as "a denomination is only ever created in the namespace of the account the
create NAMES, and that account signed, or had handed a fee allowance to the signer": a fee grantee of
`c` CAN create in `c`'s namespace, at `c`'s expense — `grantee_creates_in_granters_namespace`.  This is
the documented delegation rule of `VerifyAuthorisedSignatureDecorator` (property C03), not a separate
finding.

ASSUMPTIONS (SDK / wasmd): as for `only_admin_acts_history`. -/
theorem creator_acts_history (bal : Addr → Denom → Nat) (supply : Denom → Nat)
    (dmeta : Denom → Option Nat) (fee : Nat) (gr : Addr → Addr → Bool) (pre : List Op) (op : Op) (c : Addr)
    (sub : Denom) :
    let g := St.genesis bal supply dmeta fee gr
    (step (run g pre) op).2 = .ok → op.creates = some (c, sub) →
      op.newDenom = some (tokenDenom c sub) ∧
      deconstruct (tokenDenom c sub) = some (c, normSub sub) ∧
      (run g pre).dmeta (tokenDenom c sub) = none ∧ dmeta (tokenDenom c sub) = none ∧
      (¬ ∃ p1 opc p2, pre = p1 ++ opc :: p2 ∧ (step (run g p1) opc).2 = .ok ∧
          opc.newDenom = some (tokenDenom c sub)) ∧
      (step (run g pre) op).1.admin (tokenDenom c sub) = some c ∧
      (run g pre).fee ≤ (run g pre).bal c feeDenom ∧
      (∀ s, op.signed = some (s, c) →
        s = c ∨ gr c s = true ∨
          ∃ p1 p2, pre = p1 ++ Op.grant c s :: p2 ∧ (step (run g p1) (.grant c s)).2 = .ok) := by
  intro g hok hc
  have hstep : step (run g pre) op = ((step (run g pre) op).1, .ok) := by rw [← hok]
  have inv : Inv g (run g pre) := (Inv.genesis bal supply dmeta fee gr).run pre
  obtain ⟨hdec, hnone, hadm, _, _⟩ := namespace_of_create hstep hc
  have hfee := (create_charges_creator hstep hc).1
  have hnotin : tokenDenom c sub ∉ (run g pre).created := by
    intro hmem
    have := inv.createdMeta _ hmem
    rw [hnone] at this; cases this
  refine ⟨by simp [Op.newDenom, hc], hdec, hnone, ?_, ?_, hadm, hfee, ?_⟩
  · cases hg : dmeta (tokenDenom c sub) with
    | none => rfl
    | some v =>
      have := inv.metaMono (tokenDenom c sub) (by simp [g, St.genesis, hg])
      rw [hnone] at this; cases this
  · intro hex
    exact hnotin ((created_iff_successful_create bal supply dmeta fee gr pre _).mpr hex)
  · intro s hs
    rcases tx_signer_provenance_history bal supply dmeta fee gr pre op s c hok hs with h1 | ⟨_, h2 | h2⟩
    · exact Or.inl h1
    · exact Or.inr (Or.inl h2)
    · exact Or.inr (Or.inr h2)

/-- **namespace**, grant-free corollary: as long as `c` has never had a fee allowance out (none at the
start, no `grant c _` operation in `pre`), every successful create TRANSACTION in `c`'s namespace is
signed by `c` in person; and a successful binding create in `c`'s namespace is a call by the contract
`c`.  Together with `new_denoms_only_in_own_namespace` (a denomination only ever comes into existence
through a create operation naming the owner of its namespace): nobody but `c` puts a denomination into
`factory/c/…`. -/
theorem only_creator_signs_create_without_grants (bal : Addr → Denom → Nat) (supply : Denom → Nat)
    (dmeta : Denom → Option Nat) (fee : Nat) (gr : Addr → Addr → Bool) (pre : List Op) (op : Op) (c : Addr)
    (sub : Denom) :
    let g := St.genesis bal supply dmeta fee gr
    (step (run g pre) op).2 = .ok → op.creates = some (c, sub) →
      (∀ x, gr c x = false) → (∀ x, Op.grant c x ∉ pre) →
      (∀ s c', op.signed = some (s, c') → s = c ∧ c' = c) ∧
      (op.signed = none → ∃ md, op = .wcreate c sub md) := by
  intro g hok hc hg0 hng
  obtain ⟨_, _, _, _, _, _, _, hsig⟩ := creator_acts_history bal supply dmeta fee gr pre op c sub hok hc
  constructor
  · intro s c' hs
    have hcc : c' = c := by
      cases op with
      | create mode s0 c0 sub0 =>
        simp only [Op.creates, Option.some.injEq, Prod.mk.injEq] at hc
        simp only [Op.signed, Option.some.injEq, Prod.mk.injEq] at hs
        rw [← hs.2, hc.1]
      | wcreate _ _ _ => simp [Op.signed] at hs
      | mint _ _ _ _ _ => simp [Op.creates] at hc
      | burn _ _ _ _ _ => simp [Op.creates] at hc
      | chadmin _ _ _ _ _ => simp [Op.creates] at hc
      | setmeta _ _ _ _ _ _ => simp [Op.creates] at hc
      | wmint _ _ _ _ => simp [Op.creates] at hc
      | wburn _ _ _ _ => simp [Op.creates] at hc
      | wchadmin _ _ _ => simp [Op.creates] at hc
      | wsetmeta _ _ _ _ _ _ => simp [Op.creates] at hc
      | send _ _ _ _ => simp [Op.creates] at hc
      | grant _ _ => simp [Op.creates] at hc
      | revoke _ _ => simp [Op.creates] at hc
      | setfee _ => simp [Op.creates] at hc
    subst hcc
    refine ⟨?_, rfl⟩
    rcases hsig s hs with h1 | h1 | ⟨p1, p2, rfl, _⟩
    · exact h1
    · rw [hg0 s] at h1; cases h1
    · exact absurd (by simp) (hng s)
  · intro hs
    cases op with
    | create _ _ _ _ => simp [Op.signed] at hs
    | wcreate a sub0 md =>
      simp only [Op.creates, Option.some.injEq, Prod.mk.injEq] at hc
      obtain ⟨rfl, rfl⟩ := hc
      exact ⟨md, rfl⟩
    | mint _ _ _ _ _ => simp [Op.creates] at hc
    | burn _ _ _ _ _ => simp [Op.creates] at hc
    | chadmin _ _ _ _ _ => simp [Op.creates] at hc
    | setmeta _ _ _ _ _ _ => simp [Op.creates] at hc
    | wmint _ _ _ _ => simp [Op.creates] at hc
    | wburn _ _ _ _ => simp [Op.creates] at hc
    | wchadmin _ _ _ => simp [Op.creates] at hc
    | wsetmeta _ _ _ _ _ _ => simp [Op.creates] at hc
    | send _ _ _ _ => simp [Op.creates] at hc
    | grant _ _ => simp [Op.creates] at hc
    | revoke _ _ => simp [Op.creates] at hc
    | setfee _ => simp [Op.creates] at hc

/-- **non_factory_untouchable** over histories, on the op list (no ghost state): for a denomination
`d` that no successful create operation of the history produced — in particular every `d` that does
not deconstruct as `factory/<address>/…`: native, malformed, foreign prefix, non-address creator —
the sum of the successful mints of `d` and the sum of the successful burns of `d` over the whole
history are both 0, EVERY mint or burn operation of the history aimed at `d` (message or binding, by
anybody) was rejected without effect, and the supply of `d` is still the genesis supply. -/
theorem non_factory_never_minted_or_burned (bal : Addr → Denom → Nat) (supply : Denom → Nat)
    (dmeta : Denom → Option Nat) (fee : Nat) (gr : Addr → Addr → Bool) (ops : List Op) (d : Denom) :
    let g := St.genesis bal supply dmeta fee gr
    (deconstruct d = none → d ∉ createdIn g ops) ∧
    (d ∉ createdIn g ops →
      sumMint g d ops = 0 ∧ sumBurn g d ops = 0 ∧ (run g ops).supply d = supply d ∧
      ∀ pre op post, ops = pre ++ op :: post → op.mintBurnDenom = some d →
        (step (run g pre) op).2 ≠ .ok ∧ (step (run g pre) op).1 = run g pre) := by
  intro g
  have hcr : ∀ l, (run g l).created = (createdIn g l).reverse := by
    intro l
    rw [(ghosts_are_history_sums g l d).2.2]
    simp [g, St.genesis]
  constructor
  · intro hd hmem
    have h1 := (non_factory_supply_constant bal supply dmeta fee gr ops d).1 hd
    apply h1
    show d ∈ (run g ops).created
    rw [hcr ops]; exact List.mem_reverse.mpr hmem
  · intro hmem
    have hmem' : d ∉ (run g ops).created := by
      rw [hcr ops]; intro h; exact hmem (List.mem_reverse.mp h)
    obtain ⟨_, hm, hb, hs⟩ := (non_factory_supply_constant bal supply dmeta fee gr ops d).2 hmem'
    obtain ⟨_, _, hm', hb'⟩ := supply_eq_mints_minus_burns bal supply dmeta fee gr ops d
    refine ⟨by rw [← hm']; exact hm, by rw [← hb']; exact hb, hs, ?_⟩
    intro pre op post heq hop
    -- `d` was not created in the prefix either
    have hpre : d ∉ (run g pre).created := by
      rw [hcr pre]
      intro h
      obtain ⟨q1, o, q2, hq, hok, hn⟩ := mem_createdIn.mp (List.mem_reverse.mp h)
      apply hmem
      apply mem_createdIn.mpr
      refine ⟨q1, o, q2 ++ op :: post, ?_, hok, hn⟩
      rw [heq, hq]; simp
    have hadm := ((non_factory_supply_constant bal supply dmeta fee gr pre d).2 hpre).1
    exact non_factory_untouchable (st := run g pre) (op := op) (st' := (step (run g pre) op).1)
      (r := (step (run g pre) op).2) rfl hop (Or.inr hadm)

/-- **representation**: `sdk.ValidateDenom` admits no `/` inside a text part (the `/`-separated parts
are the list elements), so two VALID denominations that differ as lists differ as strings, provided no
text part spells the bech32 text of an address (`Part.addr`) — the one identification the
representation cannot see, kept apart by the harness, which renders every address it uses as
`Part.addr` (observation 3 of Props/C16.md).  All statements of the form `x ≠ d` in this file are
about list values and are to be read under that proviso. -/
theorem valid_denom_parts_have_no_slash {d : Denom} (hv : validDenom d = true) :
    ∀ s, Part.txt s ∈ d → '/' ∉ s.toList := by
  intro s hs hmem
  unfold validDenom at hv
  simp only [Bool.and_eq_true, List.all_eq_true] at hv
  have h1 := hv.1.1.2 _ hs
  simp only [Part.charsOk, List.all_eq_true] at h1
  have h2 := h1 _ hmem
  revert h2
  decide

/-- **mint_burn_touch_only_admin** at full strength, for the entry points where it holds: the mint
message, the burn message, the wasm burn binding, and the wasm mint binding whose `mint_to_address`
is the contract itself.  A successful mint or burn of `d` by its admin `c` changes NO balance other
than `c`'s own balance of `d`.

The unrestricted statement (drop `hto`) is FALSE for the wasm mint binding — see
`wasm_mint_credits_third_party` for the reachable counterexample and
`wasm_mint_is_mint_then_own_transfer` / `mint_burn_touch_only_admin` for what holds instead. -/
theorem mint_burn_touch_only_admin_strict {st st' : St} {op : Op} {c : Addr} {d : Denom}
    (h : step st op = (st', .ok)) (ha : op.adminAct = some (c, d)) (hmb : op.mintBurnDenom = some d)
    (hto : op.mintTo = none ∨ op.mintTo = some c) :
    ∀ a x, ¬ (a = c ∧ x = d) → st'.bal a x = st.bal a x := by
  intro a x hax
  apply mint_burn_touch_only_admin h ha hmb a x
  rintro ⟨hx, hac | hm⟩
  · exact hax ⟨hac, hx⟩
  · rcases hto with hto | hto
    · rw [hto] at hm; cases hm
    · rw [hto] at hm
      simp only [Option.some.injEq] at hm
      exact hax ⟨hm.symm, hx⟩

/-! ### history level: existence and renunciation are permanent -/

/-- **no_recreate** over histories: bank metadata (= existence of a denomination) never disappears,
whatever operations follow. -/
theorem existence_is_permanent (st : St) (ops : List Op) (d : Denom) (h : (st.dmeta d).isSome = true) :
    ((run st ops).dmeta d).isSome = true := by
  induction ops generalizing st with
  | nil => exact h
  | cons op ops ih =>
    exact ih (step st op).1
      ((no_recreate (st := st) (op := op) (st' := (step st op).1) (r := (step st op).2) rfl).2 d h)

/-- **no_recreate** over histories, operational form ("an existing denomination can never be created
again"): once a create operation for `d` has succeeded, then after ANY further history every create
operation aimed at the same name — by the same creator or through the other entry point — is
rejected and changes nothing. -/
theorem second_create_fails (st : St) (op1 : Op) (mid : List Op) (op2 : Op) (d : Denom)
    (h1 : (step st op1).2 = .ok) (hd1 : op1.newDenom = some d) (hd2 : op2.newDenom = some d) :
    let s2 := run (step st op1).1 mid
    (step s2 op2).2 ≠ .ok ∧ (step s2 op2).1 = s2 := by
  intro s2
  obtain ⟨⟨c1, sub1⟩, hc1, hdd1⟩ : ∃ p, op1.creates = some p ∧ tokenDenom p.1 p.2 = d := by
    simp only [Op.newDenom, Option.map_eq_some_iff] at hd1
    exact hd1
  obtain ⟨⟨c2, sub2⟩, hc2, hdd2⟩ : ∃ p, op2.creates = some p ∧ tokenDenom p.1 p.2 = d := by
    simp only [Op.newDenom, Option.map_eq_some_iff] at hd2
    exact hd2
  have hstep1 : step st op1 = ((step st op1).1, .ok) := by rw [← h1]
  have hex : ((step st op1).1.dmeta d).isSome = true := by
    have := (namespace_of_create hstep1 hc1).2.2.2.1
    rwa [hdd1] at this
  have hex2 : (s2.dmeta (tokenDenom c2 sub2)).isSome = true := by
    rw [hdd2]; exact existence_is_permanent _ mid d hex
  exact (no_recreate (st := s2) (op := op2) (st' := (step s2 op2).1) (r := (step s2 op2).2) rfl).1 c2 sub2 hc2 hex2

/-- **only_admin_acts**, renounced for ever.  Once an existing denomination has no admin (its admin
renounced through `ChangeAdmin` to the empty string — or it is a native denomination with bank
metadata), then over EVERY further history: it never has an admin again, its supply never changes,
and every mint / burn / change-admin / set-metadata aimed at it, by anybody, is rejected. -/
theorem renounced_forever (st : St) (d : Denom) (hnone : st.admin d = none)
    (hex : (st.dmeta d).isSome = true) (ops : List Op) :
    (run st ops).admin d = none ∧ (run st ops).supply d = st.supply d ∧
    ∀ pre op post c, ops = pre ++ op :: post → op.adminAct = some (c, d) →
      (step (run st pre) op).2 ≠ .ok ∧ (step (run st pre) op).1 = run st pre := by
  have key : ∀ (ops : List Op) (st : St), st.admin d = none → (st.dmeta d).isSome = true →
      (run st ops).admin d = none ∧ (run st ops).supply d = st.supply d := by
    intro ops
    induction ops with
    | nil => intro st h _; exact ⟨h, rfl⟩
    | cons op ops ih =>
      intro st hn hx
      have hstep : step st op = ((step st op).1, (step st op).2) := rfl
      have hadm : (step st op).1.admin d = none := by
        apply Classical.byContradiction
        intro hne
        have hne' : (step st op).1.admin d ≠ st.admin d := by rw [hn]; exact hne
        rcases admin_meta_change_only_by_admin_or_create hstep (Or.inl hne') with ⟨c, ha, _⟩ | ⟨_, _, _, _, hm, _⟩
        · rw [hn] at ha; cases ha
        · rw [hm] at hx; cases hx
      have hsup : (step st op).1.supply d = st.supply d := by
        apply Classical.byContradiction
        intro hne
        obtain ⟨c, ha, _⟩ := supply_changes_only_by_admin hstep hne
        rw [hn] at ha; cases ha
      have hx' := (no_recreate hstep).2 d hx
      obtain ⟨i1, i2⟩ := ih (step st op).1 hadm hx'
      exact ⟨i1, by rw [show run st (op :: ops) = run (step st op).1 ops from rfl, i2, hsup]⟩
  refine ⟨(key ops st hnone hex).1, (key ops st hnone hex).2, ?_⟩
  intro pre op post c _ ha
  have hn := (key pre st hnone hex).1
  exact non_admin_rejected (st := run st pre) (op := op) (st' := (step (run st pre) op).1)
    (r := (step (run st pre) op).2) rfl ha (by rw [hn]; simp)

/-! ## Non-vacuity -/

section Examples

def exU : Denom := [.txt "ugrain"]
def exD : Denom := [.txt "factory", .addr 0, .txt "foo"]

/-- bank: everybody holds 100 ugrain; no factory denoms; fee 10 -/
def exG : St := St.genesis (fun _ d => if d = exU then 100 else 0) (fun d => if d = exU then 600 else 0) (fun _ => none) 10 noGrants

def exOps : List Op :=
  [ .create 0 0 0 [.txt "foo"],          -- 0 creates factory/0/foo, pays 10
    .mint 0 0 0 exD 70,                  -- admin mints 70
    .mint 0 1 1 exD 5,                   -- somebody else: rejected
    .mint 1 1 0 exD 5,                   -- forged signer claim: rejected
    .grant 0 1,
    .mint 0 1 0 exD 5,                   -- grantee of the admin signs for the admin
    .send 0 2 exD 20,                    -- a non-admin holds coins now
    .burn 0 0 0 exD 30,
    .burn 0 2 2 exD 1,                   -- a holder who is not admin cannot burn
    .create 0 0 0 [.txt "foo"],          -- no re-creation
    .wmint 0 exD 4 (.addr 3),            -- binding: mint + own transfer to 3
    .wburn 0 exD 1 (.addr 2),            -- binding: burn-from somebody else is refused
    .mint 0 0 0 exU 5,                   -- native denom
    .chadmin 0 0 0 exD (.addr 1),
    .mint 0 0 0 exD 1,                   -- the old admin is out
    .setmeta 0 1 1 exD true 9 ]

example : (step exG (.create 0 0 0 [.txt "foo"])).2 = .ok := by decide
example : (run exG exOps).supply exD = 49 := by decide
example : (run exG exOps).minted exD = 79 ∧ (run exG exOps).burned exD = 30 := by decide
example : (run exG exOps).bal 0 exD = 25 ∧ (run exG exOps).bal 2 exD = 20 ∧ (run exG exOps).bal 3 exD = 4 ∧
    (run exG exOps).bal moduleAcc exD = 0 := by decide
example : (run exG exOps).admin exD = some 1 ∧ (run exG exOps).dmeta exD = some 9 ∧
    (run exG exOps).created = [exD] := by decide
example : (run exG exOps).bal 0 exU = 90 ∧ (run exG exOps).bal poolAcc exU = 110 ∧
    (run exG exOps).supply exU = 600 := by decide
/-- results of the history, one by one -/
def exResults : St → List Op → List Res
  | _, [] => []
  | st, op :: ops => (step st op).2 :: exResults (step st op).1 ops
example : exResults exG exOps =
    [.ok, .ok, .rej .unauth, .rej .pubkey, .ok, .ok, .ok, .ok, .rej .unauth, .rej .denomExists, .ok,
     .rej .other, .rej .noDenom, .ok, .rej .unauth, .ok] := by decide
/-- the overflow panic is reachable and harmless -/
example : (step (run exG exOps) (.mint 0 1 1 exD (2 ^ 256 - 1))).2 = .panic := by decide
/-- hypotheses of the per-step theorems are satisfiable with a non-trivial effect -/
example : ∃ st', step (run exG (exOps.take 1)) (.mint 0 0 0 exD 70) = (st', .ok) ∧ st'.supply exD = 70 :=
  ⟨_, rfl, by decide⟩
example : deconstruct exU = none ∧ deconstruct [.txt "factory", .txt "xyz", .txt "a"] = none ∧
    deconstruct [.txt "a b"] = none ∧ deconstruct exD = some (0, [.txt "foo"]) := by decide
example : (∀ x, (deconstruct x).isSome = true → (fun d => if d = exU then 600 else 0) x = 0) := by
  intro x hx
  by_cases h : x = exU
  · subst h; simp [show deconstruct exU = none by decide] at hx
  · simp [h]

/-- the history sums on the example history, and the supply equation through `run` -/
example : sumMint exG exD exOps = 79 ∧ sumBurn exG exD exOps = 30 ∧ createdIn exG exOps = [exD] ∧
    (run exG exOps).supply exD = sumMint exG exD exOps - sumBurn exG exD exOps := by decide
example : results exG exOps = exResults exG exOps := by decide

/-- **supply_eq_mints_minus_burns**, the start-state assumption is necessary.  If the bank already
holds 5 coins under the (not yet created) name `factory/0/foo`, `create` still succeeds
(`validateCreateDenom` only looks at `HasSupply("foo")`), and after a mint of 7 the supply is 12 while
Σ mints − Σ burns = 7.  Reproduced on the implementation (Props/C16.md, observation 2). -/
theorem supply_clause_needs_empty_start :
    let g := St.genesis (fun _ _ => 0) (fun d => if d = exD then 5 else 0) (fun _ => none) 0 noGrants
    let ops : List Op := [.create 0 0 0 [.txt "foo"], .mint 0 0 0 exD 7]
    results g ops = [.ok, .ok] ∧ exD ∈ (run g ops).created ∧
    (run g ops).supply exD = 12 ∧ sumMint g exD ops - sumBurn g exD ops = 7 := by decide

/-- **only_admin_acts**, what the strict reading ("signed by the admin in person") misses: an account
the admin has granted a fee allowance to — 1 here, admin is 0 — signs a successful mint for the admin
and can hand the admin role to itself; after the admin revokes the allowance the same transaction is
rejected.  This is `VerifyAuthorisedSignatureDecorator`'s delegation rule, exercised on the
implementation by the harness (`mode 0`, signer ≠ creator). -/
theorem fee_grantee_acts_for_admin :
    let pre : List Op := [.create 0 0 0 [.txt "foo"], .grant 0 1]
    (run exG pre).admin exD = some 0 ∧
    (step (run exG pre) (.mint 0 1 0 exD 5)).2 = .ok ∧
    (step (run exG pre) (.chadmin 0 1 0 exD (.addr 1))).2 = .ok ∧
    (step (run exG pre) (.chadmin 0 1 0 exD (.addr 1))).1.admin exD = some 1 ∧
    (step (run exG (pre ++ [.revoke 0 1])) (.mint 0 1 0 exD 5)).2 = .rej .other ∧
    (step (run exG [.create 0 0 0 [.txt "foo"]]) (.mint 0 1 0 exD 5)).2 = .rej .other := by decide

/-- **namespace**, what the strict reading ("only `c` in person creates inside `factory/c/`") misses.
Reachable from genesis: after `grant 0 1`, account 1 signs a successful `MsgCreateDenom` naming 0 as
creator.  The new denomination is `factory/0/bar` — in 0's namespace, with 0 as admin —, the creation
fee of 10 leaves 0's balance, not 1's; without the allowance (or after its revocation) the same
transaction is rejected, and a forged signer list (`mode 1`) is rejected in any case.  This is the
delegation rule of `VerifyAuthorisedSignatureDecorator` (C03), exercised on the implementation by the
harness (`create 0 <signer≠creator> …`). -/
theorem grantee_creates_in_granters_namespace :
    let pre : List Op := [.grant 0 1]
    let op : Op := .create 0 1 0 [.txt "bar"]
    let d : Denom := [.txt "factory", .addr 0, .txt "bar"]
    (step (run exG pre) op).2 = .ok ∧ op.signed = some (1, 0) ∧ op.newDenom = some d ∧
    (step (run exG pre) op).1.admin d = some 0 ∧
    (step (run exG pre) op).1.bal 0 exU = 90 ∧ (step (run exG pre) op).1.bal 1 exU = 100 ∧
    (step exG op).2 = .rej .other ∧
    (step (run exG (pre ++ [.revoke 0 1])) op).2 = .rej .other ∧
    (step (run exG pre) (.create 1 1 0 [.txt "bar"])).2 = .rej .pubkey := by decide

/-- … hence "every successful create transaction in `c`'s namespace is signed by `c`" is FALSE without
the no-allowance hypothesis of `only_creator_signs_create_without_grants`. -/
theorem create_signed_by_creator_unrestricted_false :
    ¬ ∀ (pre : List Op) (op : Op) (s c : Addr) (sub : Denom),
        (step (run exG pre) op).2 = .ok → op.creates = some (c, sub) → op.signed = some (s, c) → s = c := by
  intro H
  have h := H [.grant 0 1] (.create 0 1 0 [.txt "bar"]) 1 0 [.txt "bar"] (by decide) rfl rfl
  revert h
  decide

/-- the hypotheses of the history-level signer theorems are met through `run` from genesis, with a
non-trivial conclusion (the grant is found in the prefix); and an allowance that exists at the start
(`gr 0 1`) authorises without any grant operation -/
example : ∃ p1 p2, [Op.setfee 3, .grant 0 1, .send 0 2 exU 1] = p1 ++ Op.grant 0 1 :: p2 ∧
    (step (run exG p1) (.grant 0 1)).2 = .ok := ⟨[.setfee 3], [.send 0 2 exU 1], rfl, by decide⟩
example :
    let g := St.genesis (fun _ d => if d = exU then 100 else 0) (fun _ => 0) (fun _ => none) 10
      (fun c s => decide (c = 0 ∧ s = 1))
    (step g (.create 0 1 0 [.txt "bar"])).2 = .ok ∧ (step g (.create 0 2 0 [.txt "bar"])).2 = .rej .other := by
  decide
/-- `non_factory_never_minted_or_burned`: the native denomination is aimed at, and refused, in `exOps` -/
example : exU ∉ createdIn exG exOps ∧ sumMint exG exU exOps = 0 ∧
    (∃ pre post, exOps = pre ++ Op.mint 0 0 0 exU 5 :: post) := by
  refine ⟨by decide, by decide, exOps.take 12, exOps.drop 13, rfl⟩

/-- **mint_burn_touch_only_admin**, the wasm mint binding really credits somebody else.  Reachable
from genesis: contract/admin 0 calls `mint_tokens` with `mint_to_address = 3`; the balance of 3 grows
by 4 and the admin's own balance does not move.  The recipient may even be a module account on the
bank's block list (`poolAcc`, `moduleAcc`), to which a bank `MsgSend` of the same coins is refused:
`PerformMint` calls `bank.SendCoins` directly.  Reproduced on the implementation by the harness
(`wmint … @3`, `@100`, `@101`; Props/C16.md, observation 1). -/
theorem wasm_mint_credits_third_party :
    let st := run exG [.create 0 0 0 [.txt "foo"]]
    st.admin exD = some 0 ∧
    (step st (.wmint 0 exD 4 (.addr 3))).2 = .ok ∧
    (step st (.wmint 0 exD 4 (.addr 3))).1.bal 3 exD = st.bal 3 exD + 4 ∧
    (step st (.wmint 0 exD 4 (.addr 3))).1.bal 0 exD = st.bal 0 exD ∧
    blocked poolAcc = true ∧ (step st (.wmint 0 exD 4 (.addr poolAcc))).2 = .ok ∧
    (step st (.wmint 0 exD 4 (.addr poolAcc))).1.bal poolAcc exD = 4 ∧
    (step st (.wmint 0 exD 4 (.addr moduleAcc))).2 = .ok ∧
    (step (step st (.mint 0 0 0 exD 4)).1 (.send 0 poolAcc exD 4)).2 = .rej .blocked := by decide

/-- … hence the clause "minting and burning only ever touch the admin's own balance", read over all
four entry points without the `mint_to_address` restriction, is FALSE in the model and in the
implementation. -/
theorem mint_burn_touch_only_admin_unrestricted_false :
    ¬ ∀ (st st' : St) (op : Op) (c : Addr) (d : Denom), step st op = (st', .ok) → op.adminAct = some (c, d) →
        op.mintBurnDenom = some d → ∀ a x, ¬ (a = c ∧ x = d) → st'.bal a x = st.bal a x := by
  intro H
  have h := H (run exG [.create 0 0 0 [.txt "foo"]])
    (step (run exG [.create 0 0 0 [.txt "foo"]]) (.wmint 0 exD 4 (.addr 3))).1
    (.wmint 0 exD 4 (.addr 3)) 0 exD (Prod.ext rfl (by decide)) rfl rfl 3 exD (by decide)
  revert h
  decide

/-- renouncing and re-creating, through `run` from genesis: the admin renounces, every later admin
action (also by the former admin and by the creator) and every re-creation is rejected -/
example : exResults exG
    [.create 0 0 0 [.txt "foo"], .mint 0 0 0 exD 9, .chadmin 0 0 0 exD .empty, .mint 0 0 0 exD 1,
     .burn 0 0 0 exD 1, .chadmin 0 0 0 exD (.addr 0), .setmeta 0 0 0 exD true 4, .wmint 0 exD 1 (.addr 0),
     .create 0 0 0 [.txt "foo"], .wcreate 0 [.txt "foo"] none] =
    [.ok, .ok, .ok, .rej .unauth, .rej .unauth, .rej .unauth, .rej .unauth, .rej .unauth,
     .rej .denomExists, .rej .denomExists] := by decide
example : (run exG [.create 0 0 0 [.txt "foo"], .mint 0 0 0 exD 9, .chadmin 0 0 0 exD .empty]).admin exD = none ∧
    ((run exG [.create 0 0 0 [.txt "foo"], .mint 0 0 0 exD 9, .chadmin 0 0 0 exD .empty]).dmeta exD).isSome = true := by
  decide

/-- the wasm `set_metadata` payload: base omitted or equal to the denomination is accepted … -/
def exV : Denom := [.txt "factory", .addr 1, .txt "gold"]
def exS : St := run exG [.create 0 0 0 [.txt "foo"], .create 0 1 1 [.txt "gold"], .setmeta 0 1 1 exV true 3]
example : exS.admin exD = some 0 ∧ exS.admin exV = some 1 ∧ exS.dmeta exV = some 3 := by decide
example : (step exS (.wsetmeta 0 exD none exD true 7)).2 = .ok ∧
    (step exS (.wsetmeta 0 exD (some exD) exD true 7)).2 = .ok ∧
    (step exS (.wsetmeta 0 exD none exD true 7)).1.dmeta exD = some 7 := by decide
/-- … a base / body naming somebody else's factory denomination or a native one is refused, and the
foreign record stays as it was (the hypothesis of `wasm_setmeta_key_is_checked_denom` is not met by
accident: these calls come from the admin of `denom` with an otherwise valid record) -/
example : (step exS (.wsetmeta 0 exD (some exV) exV true 7)).2 = .rej .other ∧
    (step exS (.wsetmeta 0 exD (some exU) exU true 7)).2 = .rej .other ∧
    (step exS (.wsetmeta 0 exD none exV true 7)).2 = .rej .other ∧
    (step exS (.wsetmeta 0 exD (some exD) exV true 7)).2 = .rej .other ∧
    (step exS (.wsetmeta 0 exD (some exV) exD true 7)).2 = .rej .other ∧
    (step exS (.wsetmeta 0 exD (some exV) exV true 7)).1.dmeta exV = some 3 := by decide
/-- addressed directly at the foreign denomination it fails on the admin check -/
example : (step exS (.wsetmeta 0 exV none exV true 7)).2 = .rej .other := by decide
/-- `create_denom` with attached metadata: own record accepted, foreign base refused atomically -/
example : (step exS (.wcreate 4 [.txt "w"] (some ⟨none, tokenDenom 4 [.txt "w"], true, 5⟩))).2 = .ok ∧
    (step exS (.wcreate 4 [.txt "w"] (some ⟨none, tokenDenom 4 [.txt "w"], true, 5⟩))).1.dmeta (tokenDenom 4 [.txt "w"]) = some 5 ∧
    (step exS (.wcreate 4 [.txt "w"] (some ⟨some exV, exV, true, 5⟩))).2 = .rej .other ∧
    (step exS (.wcreate 4 [.txt "w"] (some ⟨some exV, exV, true, 5⟩))).1.dmeta (tokenDenom 4 [.txt "w"]) = none := by
  decide

end Examples

/-! ### chain export / import of the token factory (not an `Op`: the property quantifies over messages) -/

/-- **reimport_keeps_control_and_supply.** Exporting the token factory's genesis and starting again from it keeps every
admin record (a renounced denomination stays renounced, a handed-over one stays with its new admin), every balance, the
supply and the mint / burn totals. -/
theorem reimport_keeps_control_and_supply (st : St) :
    (reimport st).admin = st.admin ∧ (reimport st).bal = st.bal ∧ (reimport st).supply = st.supply ∧
    (reimport st).minted = st.minted ∧ (reimport st).burned = st.burned ∧ (reimport st).created = st.created ∧
    (reimport st).grant = st.grant := ⟨rfl, rfl, rfl, rfl, rfl, rfl, rfl⟩

/-- **reimport_never_removes_existence.** A denomination known to the bank stays known (so it still cannot be created again). -/
theorem reimport_never_removes_existence (st : St) (d : Denom) (h : (st.dmeta d).isSome = true) :
    ((reimport st).dmeta d).isSome = true := by
  unfold reimport
  by_cases hd : (deconstruct d).isSome = true <;> simp [hd, h]

/-- **reimport_resets_custom_metadata.** What the unchanged tree does lose: the bank metadata an admin had set for a factory
denomination is replaced by the default record (`createDenomAfterValidation` runs again on import).  Recorded as an
observation in Props/C16.md: a restart, not a message of another account, is what changes the record. -/
theorem reimport_resets_custom_metadata :
    ∃ (st : St) (d : Denom), st.dmeta d = some 73 ∧ (reimport st).dmeta d = some 0 := by
  refine ⟨{ bal := fun _ _ => 0, supply := fun _ => 0, admin := fun _ => none,
            dmeta := fun d => if d = tokenDenom 1 [.txt "b"] then some 73 else none,
            grant := fun _ _ => false, fee := 0, minted := fun _ => 0, burned := fun _ => 0, created := [] },
          tokenDenom 1 [.txt "b"], by simp, ?_⟩
  decide

/-! ### protobuf messages dispatched by a contract (`CosmosMsg::Any`, bare or inside `authz.MsgExec`)

Not an `Op` of the history machine either: `anyStep` is a separate entry point, and the theorems below reduce it to the
machine — a dispatch that succeeds IS a history of the contract's own transactions (`any_ok_is_own_history`,
`xrun_eq_run`), so every theorem above speaks about it; a dispatch with a message of somebody else at ANY position of ANY
nesting is refused as a whole (`any_foreign_creator_refused`). -/

theorem gate_self (st : St) (basic : Option Rej) (c : Addr) (k : St × Res) :
    gate st basic 0 c c k = noAnte st basic k := by
  unfold gate noAnte ante
  cases basic <;> simp

/-- behind the router a message whose declared signer is its creator runs exactly like that account's own transaction -/
theorem TfMsg.exec_eq_step (st : St) (m : TfMsg) (h : m.signer = m.creator) : m.exec st = step st m.op := by
  cases m <;> simp only [TfMsg.signer, TfMsg.creator] at h <;> subst h <;>
    simp only [TfMsg.exec, TfMsg.op, step, gate_self]

theorem TfMsg.adminAct_creator {m : TfMsg} {c : Addr} {d : Denom} (h : m.op.adminAct = some (c, d)) :
    c = m.creator := by
  cases m <;> simp [TfMsg.op, Op.adminAct, TfMsg.creator] at h ⊢ <;> exact h.1.symm

theorem TfMsg.signed_op (m : TfMsg) : m.op.signed = some (m.signer, m.creator) := by
  cases m <;> rfl

theorem results_append (st : St) (x y : List Op) : results st (x ++ y) = results st x ++ results (run st x) y := by
  induction x generalizing st with
  | nil => rfl
  | cons o os ih => simp only [List.cons_append, results, run, ih]

mutual
/-- `verifyCreatorOf` lets a message through only if EVERY token factory message in it — at every position of every
`MsgExec`, at every depth — names the contract as creator -/
theorem PMsg.verify_leaves {a : Addr} : ∀ (m : PMsg) (depth : Nat), m.verify a depth = true →
    ∀ l ∈ m.leaves, l.creator = a
  | .tf m, _, h => by
    intro l hl
    simp only [PMsg.leaves, List.mem_singleton] at hl
    subst hl
    simpa [PMsg.verify] using h
  | .exec g ms, depth, h => by
    simp only [PMsg.verify] at h
    split at h
    · simp at h
    · simpa [PMsg.leaves] using PMsgs.verify_leaves ms (depth + 1) h
theorem PMsgs.verify_leaves {a : Addr} : ∀ (ms : PMsgs) (depth : Nat), ms.verify a depth = true →
    ∀ l ∈ ms.leaves, l.creator = a
  | .nil, _, _ => by simp [PMsgs.leaves]
  | .cons m ms, depth, h => by
    simp only [PMsgs.verify] at h
    split at h
    · simp at h
    · rename_i h1
      intro l hl
      simp only [PMsgs.leaves, List.mem_append] at hl
      rcases hl with hl | hl
      · exact PMsg.verify_leaves m depth (by simpa using h1) l hl
      · exact PMsgs.verify_leaves ms depth h l hl
end

mutual
/-- behind the router: a dispatch of messages that all name `a` as creator succeeds only if every declared signer is `a`
too, and then it is the history of those messages run as `a`'s own transactions, each of which succeeds -/
theorem PMsg.dispatch_ok {a : Addr} : ∀ (m : PMsg) (st st' : St), (∀ l ∈ m.leaves, l.creator = a) →
    m.dispatch a st = (st', .ok) →
    (∀ l ∈ m.leaves, l.signer = a) ∧ st' = run st (m.leaves.map TfMsg.op) ∧
      (∀ r ∈ results st (m.leaves.map TfMsg.op), r = .ok)
  | .tf m, st, st', hc, h => by
    have hcm : m.creator = a := hc m (by simp [PMsg.leaves])
    simp only [PMsg.dispatch] at h
    split at h
    · simp at h
    · rename_i hs
      have hs' : m.signer = a := by simpa using hs
      rw [TfMsg.exec_eq_step st m (by rw [hs', hcm])] at h
      refine ⟨?_, ?_, ?_⟩
      · intro l hl
        simp only [PMsg.leaves, List.mem_singleton] at hl
        subst hl; exact hs'
      · simp [PMsg.leaves, run, h]
      · intro r hr
        simp only [PMsg.leaves, List.map_cons, List.map_nil, results, h, List.mem_singleton] at hr
        exact hr
  | .exec g ms, st, st', hc, h => by
    simp only [PMsg.dispatch] at h
    split at h
    · simp at h
    · rename_i hg
      have hg' : g = a := by simpa using hg
      subst hg'
      split at h
      · simp at h
      · simpa [PMsg.leaves] using PMsgs.dispatch_ok ms st st' (by simpa [PMsg.leaves] using hc) h
theorem PMsgs.dispatch_ok {a : Addr} : ∀ (ms : PMsgs) (st st' : St), (∀ l ∈ ms.leaves, l.creator = a) →
    ms.dispatch a st = (st', .ok) →
    (∀ l ∈ ms.leaves, l.signer = a) ∧ st' = run st (ms.leaves.map TfMsg.op) ∧
      (∀ r ∈ results st (ms.leaves.map TfMsg.op), r = .ok)
  | .nil, st, st', _, h => by
    simp only [PMsgs.dispatch, Prod.mk.injEq] at h
    simp [PMsgs.leaves, run, results, h.1]
  | .cons m ms, st, st', hc, h => by
    simp only [PMsgs.dispatch] at h
    split at h
    · rename_i hne
      simp only [Prod.mk.injEq] at h
      exact absurd h.2 hne
    · rename_i hok
      have hok' : (m.dispatch a st).2 = .ok := by simpa using hok
      have hc1 : ∀ l ∈ m.leaves, l.creator = a := fun l hl => hc l (by simp [PMsgs.leaves, hl])
      have hc2 : ∀ l ∈ ms.leaves, l.creator = a := fun l hl => hc l (by simp [PMsgs.leaves, hl])
      obtain ⟨s1, e1, r1⟩ := PMsg.dispatch_ok m st (m.dispatch a st).1 hc1 (pair_eta _ hok')
      obtain ⟨s2, e2, r2⟩ := PMsgs.dispatch_ok ms (m.dispatch a st).1 st' hc2 h
      refine ⟨?_, ?_, ?_⟩
      · intro l hl
        simp only [PMsgs.leaves, List.mem_append] at hl
        rcases hl with hl | hl
        · exact s1 l hl
        · exact s2 l hl
      · simp only [PMsgs.leaves, List.map_append, run_append]
        rw [← e1]; exact e2
      · intro r hr
        simp only [PMsgs.leaves, List.map_append, results_append, List.mem_append] at hr
        rcases hr with hr | hr
        · exact r1 r hr
        · rw [← e1] at hr; exact r2 r hr
end

/-- **only_admin_acts, contract protobuf path: a message of somebody else is never executed.**  If ANY token factory
message of the dispatch — bare, or at any position of any (nested) `MsgExec`, before or after any number of the contract's
own messages — names an account other than the dispatching contract as `metadata.creator`, the whole dispatch is refused
by the router and nothing changes. -/
theorem any_foreign_creator_refused (st : St) (a : Addr) (m : PMsg) (l : TfMsg) (hl : l ∈ m.leaves)
    (hc : l.creator ≠ a) : anyStep st a m = (st, .rej .unauth) := by
  unfold anyStep
  split
  · rfl
  · rename_i hv
    exact absurd (PMsg.verify_leaves m 0 (by simpa using hv) l hl) hc

/-- **failed_op_is_noop** for dispatches: refused by the router, by wasmd, by authz, by `ValidateBasic` or by a handler
(also of the LAST message, after earlier ones went through): the state is untouched. -/
theorem any_failed_is_noop (st : St) (a : Addr) (m : PMsg) (h : (anyStep st a m).2 ≠ .ok) : (anyStep st a m).1 = st := by
  unfold anyStep at h ⊢
  by_cases hv : (!(m.verify a 0)) = true
  · rw [if_pos hv]
  · rw [if_neg hv] at h ⊢
    by_cases hd : (m.dispatch a st).2 ≠ .ok
    · rw [if_pos hd]
    · rw [if_neg hd] at h
      exact absurd h hd

/-- **a successful dispatch is a history of the contract's own transactions.**  Every token factory message in it names
the contract as creator AND as signer, each of them succeeds as the transaction `TfMsg.op` (signed by its creator, no fee
grant involved), and the resulting state is the result of running those transactions in order.  Hence every theorem about
`step` / `run` applies to dispatches. -/
theorem any_ok_is_own_history {st st' : St} {a : Addr} {m : PMsg} (h : anyStep st a m = (st', .ok)) :
    (∀ l ∈ m.leaves, l.creator = a ∧ l.signer = a) ∧ st' = run st (m.leaves.map TfMsg.op) ∧
      (∀ r ∈ results st (m.leaves.map TfMsg.op), r = .ok) := by
  unfold anyStep at h
  split at h
  · simp at h
  · rename_i hv
    have hc := PMsg.verify_leaves m 0 (by simpa using hv)
    split at h
    · rename_i hne
      simp only [Prod.mk.injEq] at h
      exact absurd h.2 hne
    · obtain ⟨s1, e1, r1⟩ := PMsg.dispatch_ok m st st' hc h
      exact ⟨fun l hl => ⟨hc l hl, s1 l hl⟩, e1, r1⟩

/-- **only_admin_acts** on the contract protobuf path.  In a successful dispatch of contract `a`, every mint / burn /
change-admin / set-metadata message — wherever it stands — acts for `a` itself, and `a` is the admin of the denomination
in the state that message runs on (the state after the messages before it). -/
theorem any_only_admin_acts {st st' : St} {a : Addr} {m : PMsg} (h : anyStep st a m = (st', .ok))
    (p q : List TfMsg) (l : TfMsg) (c : Addr) (d : Denom) (hs : m.leaves = p ++ l :: q)
    (ha : l.op.adminAct = some (c, d)) :
    c = a ∧ (run st (p.map TfMsg.op)).admin d = some a := by
  obtain ⟨hcs, _, hr⟩ := any_ok_is_own_history h
  have hca : c = a := by
    rw [TfMsg.adminAct_creator ha]
    exact (hcs l (by rw [hs]; simp)).1
  refine ⟨hca, ?_⟩
  have hok : (step (run st (p.map TfMsg.op)) l.op).2 = .ok := by
    apply hr
    rw [hs]
    simp [results_append, results]
  have := only_admin_acts (pair_eta _ hok) ha
  rw [hca] at this
  exact this

/-- the transactions a mixed history amounts to: a successful dispatch contributes its messages as the contract's own
transactions, a refused one nothing -/
def flatten (st : St) : List XOp → List Op
  | [] => []
  | .op o :: xs => o :: flatten (step st o).1 xs
  | .any a m :: xs =>
    (if (anyStep st a m).2 = .ok then m.leaves.map TfMsg.op else []) ++ flatten (anyStep st a m).1 xs

/-- **histories with contract dispatches are histories of transactions.**  Every state reachable with protobuf dispatches
of contracts interleaved anywhere is reached by the plain history `flatten`: the `_history` theorems above
(`only_admin_acts_history`, `supply_eq_mints_minus_burns`, `new_denoms_only_in_own_namespace`, `created_once`,
`non_factory_supply_constant`, …) hold for such histories as they stand. -/
theorem xrun_eq_run (st : St) (xs : List XOp) : xrun st xs = run st (flatten st xs) := by
  induction xs generalizing st with
  | nil => rfl
  | cons x xs ih =>
    cases x with
    | op o => simp only [xrun, xstep, flatten, run, ih]
    | any a m =>
      simp only [xrun, xstep, flatten, run_append, ih]
      by_cases hok : (anyStep st a m).2 = .ok
      · obtain ⟨_, e1, _⟩ := any_ok_is_own_history (pair_eta _ hok)
        simp only [hok, if_true]
        rw [← e1]
      · rw [any_failed_is_noop st a m hok]
        simp [hok, run]

/-- every transaction of the flattened history that comes from a dispatch is signed by its own creator (no fee grant, no
forged signer claim): `flatten` does not smuggle anybody's authority in -/
theorem any_leaf_signed_by_creator {st st' : St} {a : Addr} {m : PMsg} (h : anyStep st a m = (st', .ok)) :
    ∀ o ∈ m.leaves.map TfMsg.op, o.signed = some (a, a) := by
  intro o ho
  obtain ⟨l, hl, rfl⟩ := List.mem_map.mp ho
  obtain ⟨hc, hs⟩ := (any_ok_is_own_history h).1 l hl
  rw [TfMsg.signed_op, hc, hs]

/-- the nesting bound: a `MsgExec` chain deeper than `cMaxNestedMsgDepth` is refused whatever it carries -/
theorem any_too_deep_refused (st : St) (a : Addr) (g0 g1 g2 g3 g4 g5 g6 : Addr) (ms : PMsgs) :
    anyStep st a (.exec g0 (.cons (.exec g1 (.cons (.exec g2 (.cons (.exec g3 (.cons (.exec g4 (.cons (.exec g5
      (.cons (.exec g6 ms) .nil)) .nil)) .nil)) .nil)) .nil)) .nil)) = (st, .rej .unauth) := by
  simp [anyStep, PMsg.verify, PMsgs.verify, maxNest]

section AnyExamples

/-- alice (0) is admin of gold with 100 coins; contract 4 has no role on it -/
def exA : St := run exG [.create 0 0 0 [.txt "gold"], .mint 0 0 0 [.txt "factory", .addr 0, .txt "gold"] 100, .setfee 0]
def exGold : Denom := [.txt "factory", .addr 0, .txt "gold"]
def exOwn : Denom := [.txt "factory", .addr 4, .txt "own"]

/-- the seeded shape: exec[burn in alice's name, create of the contract's own] — refused, nothing burned -/
example : (anyStep exA 4 (.exec 4 (.cons (.tf (.burn 4 0 exGold 40)) (.cons (.tf (.create 4 4 [.txt "own"])) .nil)))).2
    = .rej .unauth := by decide
example : (anyStep exA 4 (.exec 4 (.cons (.tf (.burn 4 0 exGold 40)) (.cons (.tf (.create 4 4 [.txt "own"])) .nil)))).1.supply exGold
    = 100 := by decide
/-- offender last, offender nested, change-admin instead of burn: refused alike -/
example : (anyStep exA 4 (.exec 4 (.cons (.tf (.create 4 4 [.txt "own"])) (.cons (.exec 4 (.cons (.tf (.chadmin 4 0 exGold (.addr 4))) .nil)) .nil)))).2
    = .rej .unauth := by decide
/-- the hypotheses of `any_ok_is_own_history` are satisfiable with a non-trivial effect: create, then the first mint of
the new denomination, nested, in one dispatch -/
example : (anyStep exA 4 (.exec 4 (.cons (.tf (.create 4 4 [.txt "own"])) (.cons (.exec 4 (.cons (.tf (.mint 4 4 exOwn 7)) .nil)) .nil)))).2 = .ok ∧
    (anyStep exA 4 (.exec 4 (.cons (.tf (.create 4 4 [.txt "own"])) (.cons (.exec 4 (.cons (.tf (.mint 4 4 exOwn 7)) .nil)) .nil)))).1.bal 4 exOwn = 7 := by
  decide
/-- the admin's own dispatch works, and a later failing message takes the earlier ones back -/
example : (anyStep exA 0 (.exec 0 (.cons (.tf (.burn 0 0 exGold 40)) .nil))).1.supply exGold = 60 := by decide
example : (anyStep exA 0 (.exec 0 (.cons (.tf (.burn 0 0 exGold 40)) (.cons (.tf (.burn 0 0 exGold 61)) .nil)))).2 = .rej .funds ∧
    (anyStep exA 0 (.exec 0 (.cons (.tf (.burn 0 0 exGold 40)) (.cons (.tf (.burn 0 0 exGold 61)) .nil)))).1.supply exGold = 100 := by
  decide
/-- a declared signer other than the contract, a foreign grantee, an empty `MsgExec` -/
example : (anyStep exA 0 (.tf (.burn 1 0 exGold 40))).2 = .rej .unauth ∧
    (anyStep exA 0 (.exec 1 (.cons (.tf (.burn 0 0 exGold 40)) .nil))).2 = .rej .unauth ∧
    (anyStep exA 0 (.exec 0 .nil)).2 = .rej .other := by decide

end AnyExamples

end Paloma.TokenFactory
